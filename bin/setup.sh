#!/bin/bash
# Build the overlay venv used by every check: /venv's packages (groupby_lib deps) + z3/cvc5/crosshair from the
# offline wheelhouse.  Idempotent, offline, safe to call concurrently (flock).
set -e
VERIF="$(cd "$(dirname "$0")/.." && pwd)"
VENV="$VERIF/.venv"
exec 9>"$VERIF/.venv.lock"
flock 9
if [ -x "$VENV/bin/python" ] && "$VENV/bin/python" -c "import z3, numpy, numba" 2>/dev/null; then
    exit 0
fi
rm -rf "$VENV"
/venv/bin/python -m venv "$VENV"
SP="$("$VENV/bin/python" -c 'import site; print(site.getsitepackages()[0])')"
echo "import site; site.addsitedir('/venv/lib/python3.12/site-packages')" > "$SP/_venv_overlay.pth"
PIP_NO_INDEX=1 "$VENV/bin/python" -m pip install -q --no-index --find-links /opt/veriftools/wheels z3-solver cvc5 crosshair-tool >/dev/null 2>&1 || \
PIP_NO_INDEX=1 "$VENV/bin/python" -m pip install -q --no-index --find-links /opt/veriftools/wheels z3-solver
"$VENV/bin/python" -c "import z3, numpy, numba; print('verif venv ready: z3', z3.get_version_string())"

#!/bin/bash
# Runs the repository's pinned test suite (guard off: no hooks exist) and compares with /root/.vp/BASELINE.json:
# exit 0 iff every test in stable_pass passed.
OUT="${1:-/tmp/gbverif_baseline.junit.xml}"
cd /repo && /venv/bin/python -m pytest -ra -q -p no:cacheprovider --timeout=900 --continue-on-collection-errors --junitxml="$OUT" > "${OUT%.xml}.log" 2>&1
/venv/bin/python - "$OUT" <<'PY'
import json, sys, xml.etree.ElementTree as ET
base = set(json.load(open("/root/.vp/BASELINE.json"))["stable_pass"])
passed = set()
for tc in ET.parse(sys.argv[1]).getroot().iter("testcase"):
    if not any(ch.tag in ("failure", "error", "skipped") for ch in tc):
        passed.add(f"{tc.get('classname')}::{tc.get('name')}")
missing = sorted(base - passed)
print(f"baseline stable_pass={len(base)} passed_now={len(passed)} missing={len(missing)}")
for m in missing[:40]:
    print("  MISSING", m)
sys.exit(1 if missing else 0)
PY

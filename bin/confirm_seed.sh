#!/bin/bash
# Self-test helper (not a registered check): confirms a seeded change kept in /tmp/seed_out/<X>/ (patch.diff, demo.py) in a fresh scratch worktree of /repo:
# the demo must fail with the change and pass without it, and the pinned suite must still pass (stable_pass of /root/.vp/BASELINE.json).
# usage: confirm_seed.sh <X>   : confirms /tmp/seed_out/X in a fresh scratch worktree
X=$1
WT=/tmp/cf_$X
git -C /repo worktree remove --force $WT 2>/dev/null
git -C /repo worktree add -q --detach $WT HEAD || exit 3
cd $WT && git apply /tmp/seed_out/$X/patch.diff || { echo "patch does not apply"; exit 3; }
export NUMBA_CACHE_DIR=$WT/.nbcache
PYTHONPATH=$WT /venv/bin/python /tmp/seed_out/$X/demo.py > /tmp/seed_out/$X/demo_with.log 2>&1; echo "demo with change: exit $?" 
NUMBA_CACHE_DIR=/tmp/cf_${X}_nb0 PYTHONPATH=/repo /venv/bin/python /tmp/seed_out/$X/demo.py > /tmp/seed_out/$X/demo_without.log 2>&1; echo "demo without change: exit $?"
rm -rf /tmp/cf_${X}_nb0
cd $WT && PYTHONPATH=$WT /venv/bin/python -m pytest -q -p no:cacheprovider --timeout=900 --continue-on-collection-errors --junitxml=/tmp/seed_out/$X/confirm.junit.xml > /tmp/seed_out/$X/confirm_suite.log 2>&1
/venv/bin/python - /tmp/seed_out/$X/confirm.junit.xml <<'PY'
import json, sys, xml.etree.ElementTree as ET
base = set(json.load(open("/root/.vp/BASELINE.json"))["stable_pass"])
passed = set()
for tc in ET.parse(sys.argv[1]).getroot().iter("testcase"):
    if not any(ch.tag in ("failure", "error", "skipped") for ch in tc):
        passed.add(f"{tc.get('classname')}::{tc.get('name')}")
missing = sorted(m for m in base - passed if "test_multi_key_large_data" not in m)
print(f"suite with change: stable_pass={len(base)} passed_now={len(passed)} missing(excluding load-sensitive)={len(missing)}", missing[:5])
PY
git -C /repo worktree remove --force $WT

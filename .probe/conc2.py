import numpy as np, pandas as pd, warnings
warnings.filterwarnings("ignore")
from groupby_lib.groupby.core import GroupBy
gb = GroupBy(np.array([0, 0, 1]))
v = np.array([1., 3., 5.])
print("mean", gb.mean(v).tolist(), "mean transform", gb.mean(v, transform=True).tolist())
print("var transform", gb.var(v, transform=True).tolist(), "var", gb.var(v).tolist())
print("median transform", gb.median(v, transform=True).tolist())
gb = GroupBy(np.array([1., np.nan, 2., 1.]))
print("sum transform w/ null key", gb.sum(np.array([1., 10., 100., 1000.]), transform=True).tolist())
print("count transform w/ null key", gb.count(np.array([1., 10., 100., 1000.]), transform=True).tolist())
print("size transform", gb.size(transform=True).tolist())

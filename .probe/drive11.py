"""Probe A: one-step inductive query for _find_nth (loop body extracted from the real source)."""
import sys, time, ast, inspect, textwrap
sys.path.insert(0, "/tmp/probe")
import z3
from pe import *
import pe
M = load(("util", "gbnumba"))
nbm = M["gbnumba"]

def extract_step(kobj, ns):
    src = textwrap.dedent(inspect.getsource(kobj.py_func)); fd = ast.parse(src).body[0]
    loop_idx = max(i for i, s in enumerate(fd.body) if isinstance(s, ast.For))
    prologue, loop = fd.body[:loop_idx], fd.body[loop_idx]
    params = [a.arg for a in fd.args.args]
    assigned = sorted({n.id for s in prologue for n in ast.walk(s) if isinstance(n, ast.Name) and isinstance(n.ctx, ast.Store)})
    # prologue function: returns dict of locals
    pro = ast.parse(f"def __pro({', '.join(params)}):\n    pass").body[0]
    pro.body = prologue + [ast.parse("return (" + ", ".join(assigned) + ",)").body[0]]
    step = ast.parse(f"def __step({', '.join(sorted(set(params) | set(assigned)))}, __i):\n    pass").body[0]
    lp = ast.For(target=loop.target, iter=ast.parse("(__i,)", mode="eval").body, body=loop.body, orelse=[])
    step.body = [lp, ast.parse("return 0").body[0]]
    out = {}
    for f in (pro, step):
        mod = ast.Module(body=[IfConv2().visit(f)], type_ignores=[]); ast.fix_missing_locations(mod)
        g = ns; g["__rt"] = RT_; g["__rt_UNDEF"] = UNDEF; g["range"] = shim_range
        loc = {}; exec(compile(mod, "<step>", "exec"), g, loc); out[f.name] = loc[f.name]
    return out["__pro"], out["__step"], assigned, sorted(set(params) | set(assigned))

def wrap(v, dtype):
    bits = dtype.itemsize * 8
    if bits >= 64: return v
    lo = -(1 << (bits - 1)); span = 1 << bits
    return ((v - lo) % span) + lo

class AW(A):
    """array whose narrow-int stores wrap explicitly (inductive mode)"""
    def store(self, idx, val, guard, rt):
        if self.kind == 'i': val = wrap(val, self.dtype)
        return super().store(idx, val, guard, rt)

class Oracle:
    def __init__(self, v, dtype): self.v = v; self.dtype = real_np.dtype(dtype)
    def __getitem__(self, i): return self.v
    def __len__(self): return 10**9

def run(n_val, G=2):
    pro, step, assigned, names = extract_step(nbm["_find_nth"], nbm)
    # dtypes from the real prologue (concrete tiny call)
    vals = pro(A([0], "int64"), G, n_val, None)
    loc = dict(zip(assigned, vals))
    seen_dt = loc["seen"].dtype; out_dt = loc["out"].dtype
    k = z3.Int("k"); i = z3.Int("i"); mbit = z3.Bool("m")
    c = [z3.Int(f"c{g}") for g in range(G)]; P = [z3.Int(f"P{g}") for g in range(G)]
    pre = [k >= -1, k < G, i >= 0, i < 2**40] + [x >= 0 for x in c] + [z3.And(p >= 0, p < i) for p in P]
    n = loc["n"]          # after the prologue's sign handling
    seen = AW([wrap(c[g], seen_dt) for g in range(G)], seen_dt)
    out = AW([z3.If(c[g] > n, P[g], -1) for g in range(G)], out_dt)
    env = dict(loc); env.update(group_key=Oracle(k, "int64"), mask=Oracle(mbit, "bool"), masked=True, seen=seen, out=out, ngroups=G, n=n, rng=None)
    t0 = time.time()
    step(*[env[x] for x in names], i)
    bad = []
    for g in range(G):
        hit = z3.And(k == g, mbit)
        c2 = z3.If(hit, c[g] + 1, c[g])
        exp_out = z3.If(z3.And(hit, c[g] == n), i, z3.If(c[g] > n, P[g], -1))
        bad.append(z3.Not(z3.And(seen.cells[g] == wrap(c2, seen_dt), out.cells[g] == exp_out)))
    s = z3.Solver(); s.add(*pre); s.add(z3.Or(*bad)); r = s.check(); dt = time.time() - t0
    msg = ""
    if str(r) == "sat":
        m = s.model(); msg = f" model: k={m.eval(k, True)} c={[m.eval(x, True) for x in c]}"
    # side obligations (assert out[k] == -1, bounds)
    fails = []
    for kind, g_, cnd in RT_.obligations:
        s2 = z3.Solver(); s2.add(*pre); s2.add(zb(g_) if not isinstance(g_, bool) else z3.BoolVal(g_)); s2.add(z3.Not(zb(to_z3_bool(cnd))) if not isinstance(cnd, bool) else z3.BoolVal(not cnd))
        if str(s2.check()) == "sat":
            m = s2.model(); fails.append((kind, f"k={m.eval(k, True)} c={[m.eval(x, True) for x in c]}"))
    RT_.obligations.clear()
    print(f"A _find_nth n={n_val} seen dtype={seen_dt}: invariant step {r}{msg}; failed obligations {fails} ({dt:.2f}s)", flush=True)

run(0); run(3)

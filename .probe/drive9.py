import sys, time, itertools
sys.path.insert(0, "/tmp/probe")
import z3
from pe import *
from proto import lift
M = load(("util", "gbnumba", "factorization", "nanops"))
fz = M["factorization"]; no = M["nanops"]

def solve(name, pre, bad, t0):
    s = z3.Solver(); s.add(*pre); s.add(z3.Or(*bad)); r = s.check()
    n, failed = discharge(pre)
    print(f"{name}: {r} ({time.time()-t0:.2f}s) obligations {n} failed {sorted(set(failed))}", flush=True)
    return s if str(r) == "sat" else None

# ---- F1: _weight_code_sum via _combine_factorizations, 2 keys with shapes (2,2); N rows
def f_combine(N, shape):
    nk = len(shape)
    codes = [[z3.Int(f"c{i}_{j}") for j in range(nk)] for i in range(N)]
    pre = [z3.And(codes[i][j] >= -1, codes[i][j] < shape[j]) for i in range(N) for j in range(nk)]
    import numpy as np
    cw = np.cumprod(shape); size = int(cw[-1]); weights = [int(x) for x in (cw[-1] // cw)]
    t0 = time.time()
    code_arr = A([c for row in codes for c in row], "int64", (N, nk))
    tracker = A([-1] * size, "int32")
    combined, uniq = fz["_combine_factorizations"](code_arr, A(weights, "int64"), tracker)
    bad = []
    for i in range(N):
        isnull = z3.Or(*[codes[i][j] == -1 for j in range(nk)])
        bad.append(z3.Not((combined.cells[i] == -1) == isnull))
        for l in range(i):
            both = z3.And(z3.Not(isnull), z3.Not(z3.Or(*[codes[l][j] == -1 for j in range(nk)])))
            eq = z3.And(*[codes[i][j] == codes[l][j] for j in range(nk)])
            bad.append(z3.And(both, z3.Not((combined.cells[i] == combined.cells[l]) == eq)))
    s = solve(f"F combine_factorizations N={N} shape={shape}", pre, bad, t0)
    if s:
        m = s.model(); print("    codes", [[m.eval(c, True) for c in row] for row in codes], "combined", [m.eval(c, True) for c in combined.cells])
f_combine(3, (2, 2))
f_combine(4, (2, 3))

# ---- F2: _monotonic_factorization on float keys with NaN, two chunks
def f_mono(lens):
    N = sum(lens)
    keys = [SF(z3.Bool(f"n{i}"), z3.Real(f"x{i}")) for i in range(N)]
    pre = []
    t0 = time.time()
    chunks = []; p = 0
    for L in lens: chunks.append(A(keys[p:p + L], "float64")); p += L
    cutoff, codes, labels = fz["_monotonic_factorization"](NumbaList(chunks), N)
    lab = labels.arr if isinstance(labels, SymLen) else labels
    bad = []
    # property: every row in the prefix [0,cutoff) has a non-null key whose label equals the key; labels strictly increasing
    for i in range(N):
        inpre = cutoff > i
        c = codes.cells[i]
        lv = lab.load(c)
        bad.append(z3.And(inpre, z3.Or(zb(to_z3_bool(keys[i].nan)), z3.Not(SF.of(lv).same(keys[i])))))
    s = solve(f"F monotonic_factorization lens={lens}", pre, bad, t0)
    if s:
        m = s.model(); print("    nan", [m.eval(k.nan, True) for k in keys], "x", [m.eval(k.v, True) for k in keys], "cutoff", m.eval(lift(cutoff), True), "codes", [m.eval(lift(c), True) for c in codes.cells])
f_mono((2, 1))
f_mono((2, 2))

# ---- E: nanops with thread counts
def e_nanops(fn, N, T):
    xs = [SF(z3.Bool(f"n{i}"), z3.Real(f"x{i}")) for i in range(N)]
    t0 = time.time()
    paths = run_paths(lambda: no[fn](A(xs, "float64"), n_threads=T))
    bad = []
    mem = [z3.Not(x.nan) for x in xs]
    for pc, r in paths:
        r = SF.of(r); rn = zb(to_z3_bool(r.nan))
        if fn == "nansum": ok = z3.And(z3.Not(rn), r.v == z3.Sum(*[z3.If(mem[i], xs[i].v, 0) for i in range(N)]))
        else:
            cmp = (lambda a, b: a >= b) if fn == "nanmax" else (lambda a, b: a <= b)
            ok = z3.If(z3.Not(z3.Or(*mem)), rn, z3.And(z3.Not(rn), *[z3.Implies(mem[i], cmp(r.v, xs[i].v)) for i in range(N)], z3.Or(*[z3.And(mem[i], r.v == xs[i].v) for i in range(N)])))
        bad.append(z3.And(*pc, z3.Not(ok)))
    solve(f"E {fn} N={N} threads={T} paths={len(paths)}", [], bad, t0)
for fn in ("nansum", "nanmax", "nanmin"):
    for N, T in [(4, 1), (4, 2), (5, 3), (3, 5)]:
        try: e_nanops(fn, N, T)
        except Exception as e:
            import traceback; print(f"E {fn} N={N} T={T} ERROR {type(e).__name__}: {e}"); traceback.print_exc(limit=3); RT_.obligations.clear()

import z3, time
# rolling max on int64 timestamps through a float64 'current_best' cell: is out == val for all val?
v = z3.BitVec("v", 64)
f = z3.fpSignedToFP(z3.RNE(), v, z3.Float64())
back = z3.fpToSBV(z3.RTZ(), f, z3.BitVecSort(64))
s = z3.Solver()
s.add(v != z3.BitVecVal(-2**63, 64))           # not NaT
s.add(v > 0, v < z3.BitVecVal(2**62, 64))
s.add(back != v)
t0 = time.time(); r = s.check(); print(r, time.time() - t0, s.model()[v].as_signed_long() if str(r) == "sat" else None)
# two timestamps, window max via float compare: exact-selection property
a, b = z3.BitVecs("a b", 64)
fa = z3.fpSignedToFP(z3.RNE(), a, z3.Float64()); fb = z3.fpSignedToFP(z3.RNE(), b, z3.Float64())
best = z3.If(z3.fpGEQ(fb, fa), fb, fa)
out = z3.fpToSBV(z3.RTZ(), best, z3.BitVecSort(64))
s = z3.Solver(); s.add(a > 0, b > 0, a < 2**62, b < 2**62)
s.add(out != z3.If(b >= a, b, a))
t0 = time.time(); r = s.check(); print(r, time.time() - t0)
if str(r) == "sat":
    m = s.model(); print(m[a].as_signed_long(), m[b].as_signed_long(), m.eval(out).as_signed_long())

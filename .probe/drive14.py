"""Probe C: alpha <-> halflife relation on both entry points, symbolic real halflife; real ema/ema_grouped source on shims."""
import sys, time
sys.path.insert(0, "/tmp/probe")
import z3
from pe import *
import pe
M = load(("util", "emas"))
em = M["emas"]

# --- stubs by contract
class Ln2Scaled:                       # value = coef * ln 2
    def __init__(self, coef): self.coef = coef
    def __neg__(self): return Ln2Scaled(-self.coef)
    def __truediv__(self, o): return Ln2Scaled(self.coef / o)
    def __mul__(self, o): return Ln2Scaled(self.coef * o)
    __rmul__ = __mul__
pow2 = z3.Function("pow2", z3.RealSort(), z3.RealSort())        # exp(c ln 2) = 2^c, uninterpreted; axioms instantiated below
TERMS = []
class NPX(type(NP)):
    def log(self, x):
        assert x == 2; return Ln2Scaled(z3.RealVal(1))
    def exp(self, x):
        assert isinstance(x, Ln2Scaled); c = x.coef if is_sym(x.coef) else z3.RealVal(x.coef); TERMS.append(c); return pow2(c)
em["np"] = NPX()
class Timedelta:
    def __init__(self, x):
        # contract (validated against pandas at start-up in the real framework): numeric -> integer nanoseconds, truncating
        self.value = z3.ToInt(x) if is_sym(x) else int(x)
class PDX:
    Timedelta = Timedelta
    class Series: pass
em["pd"] = PDX()
CAPT = {}
em["_ema_grouped"] = lambda **kw: CAPT.__setitem__("grouped", kw["alpha"]) or A([0.0], "float64")
em["_ema_adjusted"] = lambda arr, alpha: CAPT.__setitem__("ungrouped", alpha) or A([0.0], "float64")
class V(A):
    ndim = 1
vals = V([SF.of(1.0), SF.of(2.0)], "float64"); keys = A([0, 0], "int64")

h = z3.Real("h")
results = []
def scenario():
    CAPT.clear(); out = {}
    for name, call in (("grouped", lambda: em["ema_grouped"](keys, 1, vals, halflife=h)), ("ungrouped", lambda: em["ema"](vals, halflife=h))):
        try: call(); out[name] = ("ok", CAPT.get(name))
        except ValueError as e: out[name] = ("ValueError", str(e))
    return out
paths = run_paths(scenario)
print("paths explored:", len(paths))
axioms = []
for a in TERMS:
    axioms += [pow2(a) > 0]
    for b in TERMS:
        axioms.append(z3.Implies(a < b, pow2(a) < pow2(b)))          # strictly increasing => injective
    axioms.append(z3.Implies(a < 0, pow2(a) < 1)); axioms.append(z3.Implies(a == 0, pow2(a) == 1))
bad = []
for pc, out in paths:
    g, u = out["grouped"], out["ungrouped"]
    differ = z3.BoolVal(True) if g[0] != u[0] else (z3.BoolVal(False) if g[0] != "ok" else g[1] != u[1])
    bad.append(z3.And(*pc, differ))
s = z3.Solver(); s.add(h > 0, *axioms); s.add(z3.Or(*bad))
t0 = time.time(); r = s.check()
print("exists h>0 with different behaviour of ema_grouped vs ema:", r, f"({time.time()-t0:.2f}s)", s.model()[h] if str(r) == "sat" else "")
s2 = z3.Solver(); s2.add(h > 0, h == z3.ToReal(z3.ToInt(h)), h >= 1, *axioms); s2.add(z3.Or(*bad))
print("... restricted to integer h >= 1:", s2.check())

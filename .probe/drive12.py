"""Probe J: IEEE domain (BV64 ints, FP64 floats, dtype-aware stores) through the real _rolling_max_or_min_1d, concrete codes."""
import sys, time, itertools
sys.path.insert(0, "/tmp/probe")
import z3
import pe, proto
from pe import *
F64 = z3.Float64(); BV = z3.BitVecSort(64)

class FPV:
    def __init__(self, e): self.e = e
    @staticmethod
    def of(x):
        if isinstance(x, FPV): return x
        if isinstance(x, BVI): return FPV(z3.fpSignedToFP(z3.RNE(), x.e, F64))
        if isinstance(x, (int, float)): return FPV(z3.FPVal(float(x), F64))
        if isinstance(x, SF): raise TypeError
        raise TypeError(x)
    def __ge__(self, o): return z3.fpGEQ(self.e, FPV.of(o).e)
    def __le__(self, o): return z3.fpLEQ(self.e, FPV.of(o).e)
    def __gt__(self, o): return z3.fpGT(self.e, FPV.of(o).e)
    def __lt__(self, o): return z3.fpLT(self.e, FPV.of(o).e)
    def __neg__(self): return FPV(z3.fpNeg(self.e))
class BVI:
    def __init__(self, e): self.e = e
    @staticmethod
    def of(x):
        if isinstance(x, BVI): return x
        if isinstance(x, FPV): return BVI(z3.fpToSBV(z3.RTZ(), x.e, BV))
        if isinstance(x, int): return BVI(z3.BitVecVal(x, 64))
        raise TypeError(x)
    # numba: int64 (op) float64 -> float64 comparison
    def __ge__(self, o): return FPV.of(self) >= o if isinstance(o, FPV) else self.e >= BVI.of(o).e
    def __le__(self, o): return FPV.of(self) <= o if isinstance(o, FPV) else self.e <= BVI.of(o).e
    def __sub__(self, o): return BVI(self.e - BVI.of(o).e)

_ite0 = pe.ite
def ite(c, a, b):
    if isinstance(a, (FPV, BVI)) or isinstance(b, (FPV, BVI)):
        cb = conc_bool(c)
        if cb is True: return a
        if cb is False: return b
        if isinstance(a, Undef): return b
        if isinstance(b, Undef): return a
        if isinstance(a, FPV) or isinstance(b, FPV): return FPV(z3.If(to_z3_bool(c), FPV.of(a).e, FPV.of(b).e))
        return BVI(z3.If(to_z3_bool(c), BVI.of(a).e, BVI.of(b).e))
    return _ite0(c, a, b)
pe.ite = ite; proto.ite = ite

class AI(A):
    """dtype-aware cells: float arrays hold FPV, int64 arrays hold BVI or python ints (state counters)"""
    def store(self, idx, val, guard, rt):
        if self.kind == 'f': val = FPV.of(val)
        elif self.kind == 'i' and isinstance(val, (FPV, BVI)): val = BVI.of(val)
        # bypass A.store's SF conversion
        n = self.shape[0] if self.ndim == 1 else None
        if self.ndim == 2 and isinstance(idx, tuple):
            r, c = self.shape; flat = self._norm(idx[0], r) * c + self._norm(idx[1], c)
        else: flat = self._norm(idx, self.shape[0])
        assert not is_sym(flat), "IEEE probe uses concrete codes"
        self.cells[flat] = ite(guard, val, self.cells[flat])
    def load(self, idx):
        r = super().load(idx)
        if isinstance(r, A) and not isinstance(r, AI): r = AI(r.cells, r.dtype, r.shape)
        return r

class NPI(NPShim):
    def full(self, shape, fill, dtype=None):
        shape = self._shape(shape); n = 1
        for s in shape: n *= s
        if dtype is None: dtype = "float64" if isinstance(fill, (float, FPV)) else "int64"
        dtype = real_np.dtype(dtype)
        if dtype.kind == 'f': fill = FPV.of(fill)
        elif isinstance(fill, BVI) or (dtype.kind == 'i' and dtype.itemsize == 8 and isinstance(fill, int) and abs(fill) > 2**40): fill = BVI.of(fill)
        return AI([fill] * n, dtype, shape)
    def zeros(self, shape, dtype=None): return self.full(shape, 0, dtype or "float64")

M = load(("util", "gbnumba"))
nbm = M["gbnumba"]; util = M["util"]
nbm["np"] = NPI()
MINI = -2**63
def is_null_ieee(x):
    if isinstance(x, BVI): return x.e == z3.BitVecVal(MINI, 64)
    if isinstance(x, FPV): return z3.fpIsNaN(x.e)
    if isinstance(x, int): return x == MINI
    raise TypeError(x)
nbm["is_null"] = is_null_ieee

def run(codes, W, want_max=True):
    N = len(codes); G = max(codes) + 1
    vals = [BVI(z3.BitVec(f"v{i}", 64)) for i in range(N)]
    pre = [v.e != z3.BitVecVal(MINI, 64) for v in vals]       # no NaT: every value is valid
    out = nbm["_rolling_max_or_min_1d"](AI(list(codes), "int64"), [AI(list(vals), "int64")], G, W, 1, None, BVI.of(MINI), want_max)
    bad = []
    for i in range(N):
        grp = [j for j in range(i + 1) if codes[j] == codes[i]][-W:]
        exp = vals[grp[0]].e
        for j in grp[1:]: exp = z3.If(vals[j].e >= exp, vals[j].e, exp) if want_max else z3.If(vals[j].e <= exp, vals[j].e, exp)
        bad.append(BVI.of(out.cells[i]).e != exp)
    s = z3.Solver(); s.add(*pre); s.add(z3.Or(*bad))
    t0 = time.time(); r = s.check(); dt = time.time() - t0
    msg = ""
    if str(r) == "sat":
        m = s.model(); msg = f" vals={[m.eval(v.e, True).as_signed_long() for v in vals]} out={[m.eval(BVI.of(c).e, True).as_signed_long() for c in out.cells]}"
    print(f"J rolling_{'max' if want_max else 'min'} int64 view, codes={codes} W={W}: {r} ({dt:.2f}s){msg}", flush=True)
    pe.RT_.obligations.clear()

run((0,), 1); run((0, 0), 2); run((0, 1, 0), 2)

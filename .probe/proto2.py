"""probe extension: While unrolling + guarded iteration (symbolic-start slices, enumerate)"""
import ast, z3
import proto
from proto import *

class GuardedSeq:
    def __init__(self, items): self.items = items      # list of (value, guard)
    def __iter__(self): raise RuntimeError("must be iterated through rt.iter")

class Item:
    def __init__(self, v, g): self.v = v; self.g = g

class RT2(RT):
    unroll = 8
    def iter(self, it):
        if isinstance(it, GuardedSeq):
            for v, g in it.items: yield Item(v, g)
        else:
            for v in it: yield Item(v, True)
    def loop_iter_begin(self, item=None):
        self.guards.append(self.and_all([self.guards[-1], item.g if item is not None else True]))
        self.frames[-1].loops.append(False)
    def loop_iter_end(self):
        self.frames[-1].loops.pop(); self.guards.pop()
    def item(self, it): return it.v
    def while_begin(self): self.guards.append(self.guards[-1])
    def while_step(self, c):
        self.guards[-1] = self.and_all([self.guards[-1], c])
        return conc_bool(self.cur()) is not False
    def while_end(self): self.guards.pop()

def sym_slice(arr, start):
    """arr[start:] with symbolic start"""
    n = len(arr)
    return GuardedSeq([(arr.cells[p], start <= p) for p in range(n)]), start

def shim_enumerate(it, start=0):
    if isinstance(it, tuple) and isinstance(it[0], GuardedSeq):
        gs, sl_start = it
        return GuardedSeq([((start + (p - sl_start), v), g) for p, (v, g) in enumerate(gs.items)])
    return enumerate(it, start)

class IfConv2(IfConv):
    def visit_For(self, node):
        it = self.visit(node.iter)
        tmp = f"__it{id(node)}"
        body = [ast.Expr(ast.parse(f"__rt.loop_iter_begin({tmp})").body[0].value)]
        body.extend(self._assign_target(node.target, ast.parse(f"__rt.item({tmp})").body[0].value))
        for s in node.body:
            r = self.visit(s)
            if isinstance(r, list): body.extend(r)
            elif r is not None: body.append(r)
        body.append(ast.Expr(ast.parse("__rt.loop_iter_end()").body[0].value))
        return ast.For(target=ast.Name(id=tmp, ctx=ast.Store()),
                       iter=ast.Call(func=ast.Attribute(value=ast.Name(id="__rt", ctx=ast.Load()), attr="iter", ctx=ast.Load()), args=[it], keywords=[]),
                       body=body, orelse=[])
    def visit_While(self, node):
        test = self.visit(node.test)
        body = []
        for s in node.body:
            r = self.visit(s)
            if isinstance(r, list): body.extend(r)
            elif r is not None: body.append(r)
        wc = f"__wc{id(node)}"
        loop_body = [ast.Assign(targets=[ast.Name(id=wc, ctx=ast.Store())],
                                value=ast.Call(func=ast.Attribute(value=ast.Name(id="__rt", ctx=ast.Load()), attr="cond", ctx=ast.Load()), args=[test], keywords=[])),
                     ast.If(test=ast.parse(f"not __rt.while_step({wc})", mode="eval").body, body=[ast.Break()], orelse=[])] + body
        return [ast.Expr(ast.parse("__rt.while_begin()").body[0].value),
                ast.For(target=ast.Name(id="__w", ctx=ast.Store()), iter=ast.parse("range(__rt.unroll)", mode="eval").body, body=loop_body,
                        orelse=[ast.Expr(ast.parse("__rt.check('unwind', False)").body[0].value)]),
                ast.Expr(ast.parse("__rt.while_end()").body[0].value)]

def convert2(pyfunc, rt, shim_globals):
    import inspect, textwrap
    src = textwrap.dedent(inspect.getsource(pyfunc))
    tree = ast.parse(src)
    tree.body[0] = IfConv2().visit(tree.body[0])
    ast.fix_missing_locations(tree)
    g = dict(pyfunc.__globals__); g.update(shim_globals); g["__rt"] = rt; g["__rt_UNDEF"] = UNDEF
    exec(compile(tree, f"<ifconv {pyfunc.__name__}>", "exec"), g)
    return g[pyfunc.__name__]


# ---- skip evaluation of statements that follow a concretely-taken continue/return (effective guard False)
def _has_jump(node):
    return any(isinstance(n, (ast.Continue, ast.Return, ast.Break, ast.Raise)) for n in ast.walk(node))

def wrap_live(stmts):
    """stmts: already-converted statement list paired with their original nodes [(orig, converted_list)]"""
    out = []
    for k, (orig, conv) in enumerate(stmts):
        out.extend(conv)
        if _has_jump(orig) and k + 1 < len(stmts):
            rest = wrap_live(stmts[k + 1:])
            out.append(ast.If(test=ast.parse("__rt.live()", mode="eval").body, body=rest or [ast.Pass()], orelse=[]))
            return out
    return out

def _live(self):
    return conc_bool(self.cur()) is not False
RT2.live = _live

class IfConv3(IfConv2):
    def _conv_block(self, body):
        pairs = []
        for s in body:
            r = self.visit(s)
            pairs.append((s, r if isinstance(r, list) else ([r] if r is not None else [])))
        return wrap_live(pairs)
    def visit_FunctionDef(self, node):
        import copy
        orig_body = list(node.body)
        node = IfConv2.visit_FunctionDef(self, node)      # converts statements one by one
        return node
    def visit_For(self, node):
        it = self.visit(node.iter)
        tmp = f"__it{id(node)}"
        body = [ast.Expr(ast.parse(f"__rt.loop_iter_begin({tmp})").body[0].value)]
        body.extend(self._assign_target(node.target, ast.parse(f"__rt.item({tmp})").body[0].value))
        body.extend(self._conv_block(node.body))
        body.append(ast.Expr(ast.parse("__rt.loop_iter_end()").body[0].value))
        return ast.For(target=ast.Name(id=tmp, ctx=ast.Store()),
                       iter=ast.Call(func=ast.Attribute(value=ast.Name(id="__rt", ctx=ast.Load()), attr="iter", ctx=ast.Load()), args=[it], keywords=[]),
                       body=body, orelse=[])

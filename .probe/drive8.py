import sys, time
sys.path.insert(0, "/tmp/probe")
import z3
from pe import *
M = load(("util", "gbnumba"))
nbm = M["gbnumba"]

def symdata(N, G, kind="f"):
    keys = [z3.Int(f"k{i}") for i in range(N)]
    pre = [z3.And(k >= -1, k < G) for k in keys]
    vals = [SF(z3.Bool(f"n{i}"), z3.Real(f"v{i}")) for i in range(N)]
    mask = [z3.Bool(f"m{i}") for i in range(N)]
    return keys, vals, mask, pre

def report(name, pre, bad, t0, extra=""):
    s = z3.Solver(); s.add(*pre); s.add(z3.Or(*bad))
    r = s.check()
    n, failed = discharge(pre)
    print(f"{name}: {r} ({time.time()-t0:.2f}s) side-obligations {n} failed {failed} {extra}", flush=True)
    return s if str(r) == "sat" else None

# ---- B: symbolic boolean mask through the real single-chunk path (guarded nonzero sequence)
N, G = 5, 2
keys, vals, mask, pre = symdata(N, G)
for fn in ["group_sum", "group_max", "group_first", "group_last", "group_count"]:
    t0 = time.time()
    res = nbm[fn](A(keys, "int64"), A(vals, "float64"), G, A(mask, "bool"), 1)
    bad = []
    for g in range(G):
        member = [z3.And(keys[i] == g, mask[i], z3.Not(vals[i].nan)) for i in range(N)]
        none = z3.Not(z3.Or(*member)); r = res.cells[g]
        if fn == "group_sum":
            ok = z3.And(z3.Not(zb(to_z3_bool(r.nan))), r.v == z3.Sum(*[z3.If(member[i], vals[i].v, 0) for i in range(N)]))
        elif fn == "group_count":
            ok = r == z3.Sum(*[z3.If(member[i], 1, 0) for i in range(N)])
        elif fn == "group_max":
            ok = z3.If(none, zb(to_z3_bool(r.nan)), z3.And(z3.Not(zb(to_z3_bool(r.nan))), *[z3.Implies(member[i], r.v >= vals[i].v) for i in range(N)], z3.Or(*[z3.And(member[i], r.v == vals[i].v) for i in range(N)])))
        else:
            order = range(N) if fn == "group_first" else range(N - 1, -1, -1)
            conds = []; seen = z3.BoolVal(False)
            for i in order:
                conds.append(z3.Implies(z3.And(member[i], z3.Not(seen)), z3.And(z3.Not(zb(to_z3_bool(r.nan))), r.v == vals[i].v)))
                seen = z3.Or(seen, member[i])
            ok = z3.And(z3.Implies(none, zb(to_z3_bool(r.nan))), *conds)
        bad.append(z3.Not(ok))
    report(f"B {fn} symbolic bool mask N={N}", pre, bad, t0)

# ---- D: cumulative ops through the real dispatcher incl. null-key post-fill
N, G = 5, 2
keys, vals, mask, pre = symdata(N, G)
for op, skip in [("cumsum", True), ("cummax", True), ("cummin", True), ("cumsum", False)]:
    t0 = time.time()
    paths = run_paths(lambda: nbm[op](A(keys, "int64"), A(vals, "float64"), G, None, skip))
    bad = []
    for pc, res in paths:
      for i in range(N):
        mem = [z3.And(keys[j] == keys[i], z3.Not(vals[j].nan)) for j in range(i + 1)]
        anynull = z3.Or(*[z3.And(keys[j] == keys[i], vals[j].nan) for j in range(i + 1)])
        r = res.cells[i]; rn = zb(to_z3_bool(r.nan))
        if op == "cumsum":
            tot = z3.Sum(*[z3.If(mem[j], vals[j].v, 0) for j in range(i + 1)]) if i else z3.If(mem[0], vals[0].v, 0)
            if skip: ok = z3.And(z3.Not(rn), r.v == tot)
            else: ok = z3.If(anynull, rn, z3.And(z3.Not(rn), r.v == tot))
        else:
            cmp = (lambda a, b: a >= b) if op == "cummax" else (lambda a, b: a <= b)
            ok = z3.If(z3.Not(z3.Or(*mem)), rn, z3.And(z3.Not(rn), *[z3.Implies(mem[j], cmp(r.v, vals[j].v)) for j in range(i + 1)], z3.Or(*[z3.And(mem[j], r.v == vals[j].v) for j in range(i + 1)])))
        bad.append(z3.And(*pc, z3.Not(z3.If(keys[i] < 0, rn, ok))))
    s = report(f"D {op} skip_na={skip} N={N} paths={len(paths)}", pre, bad, t0)
    if s:
        m = s.model(); print("    keys", [m.eval(k, True) for k in keys], "nan", [m.eval(v.nan, True) for v in vals], "vals", [m.eval(v.v, True) for v in vals], "out", [(m.eval(zb(to_z3_bool(c.nan)), True), m.eval(c.v, True)) for c in res.cells])
t0 = time.time()
paths = run_paths(lambda: nbm["cumcount"](A(keys, "int64"), None, G))
bad = []
for pc, res in paths:
    bad += [z3.And(*pc, z3.Not(z3.If(keys[i] < 0, res.cells[i] == -1, res.cells[i] == z3.Sum(*[z3.If(keys[j] == keys[i], 1, 0) for j in range(i)]) if i else res.cells[i] == 0))) for i in range(N)]
s = report(f"D cumcount N={N}", pre, bad, t0)
if s:
    m = s.model(); print("    keys", [m.eval(k, True) for k in keys], "out", [m.eval(c, True) for c in res.cells])

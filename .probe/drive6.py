import sys, time, itertools
sys.path.insert(0, "/tmp/probe")
import z3
from proto import *
from drive5 import NP3
from groupby_lib import emas

def run(keys, sym_nan=True):
    N = len(keys); G = max(keys) + 1
    rt = RT()
    k = convert(emas._ema_grouped.py_func, rt, {"np": NP3})
    vals = [SF(z3.Bool(f"n{i}") if sym_nan else False, z3.Real(f"v{i}")) for i in range(N)]
    alpha = z3.Real("alpha"); pre = [alpha > 0, alpha <= 1]
    out = k(SArr(list(keys), (N,), 'i'), SArr(list(vals), (N,), 'f'), SF(False, alpha), G, None)
    beta = 1 - alpha
    bad = []
    for i in range(N):
        num = z3.RealVal(0); den = z3.RealVal(0)
        valids = []
        for j in range(i + 1):
            if keys[j] != keys[i]: continue
            e = sum(1 for l in range(j + 1, i + 1) if keys[l] == keys[i])
            w = z3.RealVal(1)
            for _ in range(e): w = w * beta
            v = z3.Not(to_z3_bool(vals[j].nan))
            valids.append(v)
            num = num + z3.If(v, w * vals[j].v, 0); den = den + z3.If(v, w, 0)
        r = out.cells[i]
        ok = z3.If(z3.Or(*valids), z3.And(z3.Not(to_z3_bool(r.nan)), r.v * den == num), to_z3_bool(r.nan))
        bad.append(z3.Not(ok))
    s = z3.Solver(); s.set("timeout", 120000); s.add(*pre); s.add(z3.Or(*bad))
    t0 = time.time(); res = s.check(); dt = time.time() - t0
    return str(res), dt

if __name__ == "__main__":
    for keys in [(0, 0, 0), (0, 1, 0, 0), (0, 0, 0, 0), (0, 1, 0, 1, 0)]:
        for sn in (False, True):
            print(keys, "sym_nan", sn, run(list(keys), sn), flush=True)

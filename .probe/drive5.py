import sys, time
sys.path.insert(0, "/tmp/probe")
import z3
from proto import *
from drive2 import NP, is_null_shim
from groupby_lib import emas

class NP3(NP):
    @staticmethod
    def zeros_like(arr, dtype=None):
        return NP.full(len(arr), 0.0)
    @staticmethod
    def isnan(x):
        if isinstance(x, SF): return x.nan
        if isinstance(x, float): return x != x
        return False
    @staticmethod
    def full(shape, fill, dtype=None):
        return NP.full(shape, fill, None if dtype == "float64" else dtype)
    @staticmethod
    def zeros(shape, dtype=None):
        return NP.full(shape, 0.0)

def run(N, G, alpha_mode, allow_null_key=False, masked=False):
    rt = RT()
    shim = {"np": NP3}
    k = convert(emas._ema_grouped.py_func, rt, shim)
    keys = [z3.Int(f"k{i}") for i in range(N)]
    pre = [z3.And(x >= (-1 if allow_null_key else 0), x < G) for x in keys]
    vals = [SF(z3.Bool(f"n{i}"), z3.Real(f"v{i}")) for i in range(N)]
    mask = [z3.Bool(f"m{i}") for i in range(N)] if masked else None
    if alpha_mode == "sym":
        alpha = z3.Real("alpha"); pre += [alpha > 0, alpha <= 1]
    else:
        alpha = z3.RealVal(alpha_mode)
    a = SF(False, alpha)
    t0 = time.time()
    out = k(SArr(list(keys), (N,), 'i'), SArr(list(vals), (N,), 'f'), a, G, SArr(list(mask), (N,), 'b') if masked else None)
    tsym = time.time() - t0
    beta = 1 - alpha
    def bpow(e_terms):
        # beta ** (sum of 0/1 int terms), as product of ite(term, beta, 1)
        p = z3.RealVal(1)
        for t in e_terms: p = p * z3.If(t, beta, z3.RealVal(1))
        return p
    bad = []
    for i in range(N):
        same = lambda j: keys[j] == keys[i]
        valid = lambda j: z3.And(same(j), z3.Not(vals[j].nan), mask[j] if masked else True)
        num = z3.RealVal(0); den = z3.RealVal(0)
        for j in range(i + 1):
            w = bpow([same(l) for l in range(j + 1, i + 1)])
            num = num + z3.If(valid(j), w * vals[j].v, 0)
            den = den + z3.If(valid(j), w, 0)
        anyvalid = z3.Or(*[valid(j) for j in range(i + 1)])
        r = out.cells[i]
        # cross-multiplied to avoid division: r.v * den == num
        ok = z3.If(keys[i] < 0, to_z3_bool(r.nan), z3.If(anyvalid, z3.And(z3.Not(to_z3_bool(r.nan)), r.v * den == num), to_z3_bool(r.nan)))
        bad.append(z3.Not(ok))
    s = z3.Solver(); s.set("timeout", 300000); s.add(*pre); s.add(z3.Or(*bad))
    t0 = time.time(); res = s.check(); t1 = time.time()
    print(f"ema_grouped N={N} G={G} alpha={alpha_mode} nullkey={allow_null_key} masked={masked}: symexec {tsym:.2f}s solve {t1-t0:.2f}s -> {res}", flush=True)
    if str(res) == "sat":
        m = s.model()
        print("   keys", [m.eval(x, True) for x in keys], "nan", [m.eval(v.nan, True) for v in vals], "vals", [m.eval(v.v, True) for v in vals])
        print("   out", [(m.eval(to_z3_bool(c.nan), True), m.eval(c.v, True)) for c in out.cells])

run(3, 2, "1/2")
run(4, 2, "1/2", masked=True)
run(5, 2, "1/3", masked=True)
run(3, 2, "1/2", allow_null_key=True)
run(3, 2, "sym")
run(4, 2, "sym")

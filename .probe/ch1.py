from typing import List, Optional
from groupby_lib.groupby.core import GroupBy

class _Stub:
    key_is_chunked = True
    def __init__(self, lengths):
        self._group_key_lengths = lengths
    def __len__(self):
        return sum(self._group_key_lengths)

def first_chunk(lengths: List[int], start: Optional[int]) -> int:
    """
    pre: 1 <= len(lengths) <= 4
    pre: all(1 <= x <= 5 for x in lengths)
    pre: start is None or -sum(lengths) <= start < sum(lengths)
    post: sum(lengths[:__return__]) <= (0 if start is None else start % sum(lengths)) < sum(lengths[:__return__ + 1])
    """
    return GroupBy._find_first_chunk_in_slice(_Stub(lengths), slice(start, None))

import sys, time
sys.path.insert(0, "/tmp/probe")
import z3
import proto
from proto import *
from proto2 import *
from drive2 import is_null_shim
from groupby_lib.groupby import numba as nf
BIG = 10**9

class Arr(SArr):
    def __getitem__(self, idx):
        if isinstance(idx, slice):
            if is_sym(idx.start): return sym_slice(self, idx.start)
            return Arr(self.cells[idx], (len(self.cells[idx]),), self.kind)
        r = self.load(idx)
        if isinstance(r, SArr) and not isinstance(r, Arr): r = Arr(r.cells, r.shape, r.kind, r.wrap)
        return r
    def __iter__(self): return iter(self.cells)

class NP:
    nan = float("nan"); inf = SF(False, z3.RealVal(BIG)); int16 = "int16"
    @staticmethod
    def full(shape, fill, dtype=None):
        if isinstance(shape, int): shape = (shape,)
        n = 1
        for s in shape: n *= s
        kind = 'i' if (dtype in ("int64", "int16") or isinstance(fill, int) and not isinstance(fill, bool)) else 'f'
        if kind == 'f': fill = SF.of(fill)
        return Arr([fill] * n, tuple(shape), kind, None)
    @staticmethod
    def zeros(shape, dtype=None):
        return NP.full(shape, 0.0 if dtype in (None, "float64") else 0, dtype)

SF.__neg__ = lambda self: SF(self.nan, -self.v)

def run(N, G, W, MP, want_max, masked):
    rt = RT2(); rt.unroll = W + 1
    shim = {"is_null": is_null_shim, "np": NP, "enumerate": shim_enumerate}
    mmp = convert2(nf.min_or_max_and_position.py_func, rt, shim)
    shim["min_or_max_and_position"] = mmp
    k = convert2(nf._rolling_max_or_min_1d.py_func, rt, shim)
    keys = [z3.Int(f"k{i}") for i in range(N)]
    pre = [z3.And(x >= -1, x < G) for x in keys]
    vals = [SF(z3.Bool(f"n{i}"), z3.Real(f"v{i}")) for i in range(N)]
    pre += [z3.And(v.v > -BIG, v.v < BIG) for v in vals]
    mask = [z3.Bool(f"m{i}") for i in range(N)] if masked else None
    t0 = time.time()
    out = k(Arr(list(keys), (N,), 'i'), [Arr(list(vals), (N,), 'f')], G, W, MP, Arr(list(mask), (N,), 'b') if masked else None, SF(True, z3.RealVal(0)), want_max)
    tsym = time.time() - t0
    bad = []
    for i in range(N):
        sel = lambda j: z3.And(keys[j] == keys[i], mask[j] if masked else True)
        live = z3.And(keys[i] >= 0, mask[i] if masked else True)
        mem = []
        for j in range(i + 1):
            later = z3.Sum(*[z3.If(sel(l), 1, 0) for l in range(j + 1, i + 1)]) if j < i else z3.IntVal(0)
            mem.append(z3.And(sel(j), later < W, z3.Not(vals[j].nan)))
        cnt = z3.Sum(*[z3.If(c, 1, 0) for c in mem]) if len(mem) > 1 else z3.If(mem[0], 1, 0)
        r = out.cells[i]
        cmp = (lambda a, b: a >= b) if want_max else (lambda a, b: a <= b)
        good = z3.And(z3.Not(to_z3_bool(r.nan)), *[z3.Implies(mem[j], cmp(r.v, vals[j].v)) for j in range(i + 1)], z3.Or(*[z3.And(mem[j], r.v == vals[j].v) for j in range(i + 1)]))
        bad.append(z3.Not(z3.If(z3.And(live, cnt >= MP), good, to_z3_bool(r.nan))))
    s = z3.Solver(); s.set("timeout", 600000); s.add(*pre); s.add(z3.Or(*bad))
    t0 = time.time(); res = s.check(); dt = time.time() - t0
    # side obligations (unwinding etc.)
    nob = 0; failed = 0
    for kind, g, c in rt.obligations:
        s2 = z3.Solver(); s2.add(*pre); s2.add(to_z3_bool(g) if not isinstance(g, bool) else z3.BoolVal(g)); s2.add(z3.Not(to_z3_bool(c) if not isinstance(c, bool) else z3.BoolVal(c)))
        nob += 1; failed += (str(s2.check()) != "unsat")
    print(f"rolling_{'max' if want_max else 'min'} N={N} G={G} W={W} MP={MP} masked={masked}: symexec {tsym:.2f}s solve {dt:.2f}s -> {res}; obligations {nob} (failed {failed})", flush=True)
    if str(res) == "sat":
        m = s.model()
        print("   keys", [m.eval(x, True) for x in keys], "nan", [m.eval(v.nan, True) for v in vals], "vals", [m.eval(v.v, True) for v in vals], "mask", [m.eval(x, True) for x in mask] if masked else None)
        print("   out", [(m.eval(to_z3_bool(c.nan), True), m.eval(c.v, True)) for c in out.cells])

run(3, 1, 2, 1, True, False)
run(4, 2, 2, 1, True, True)
run(5, 2, 2, 2, False, True)
run(5, 2, 3, 1, True, False)
run(6, 2, 2, 1, True, True)

import numpy as np, pandas as pd, pyarrow as pa, warnings
warnings.filterwarnings("ignore")
from groupby_lib.groupby import numba as nf
from groupby_lib.groupby.core import GroupBy
from groupby_lib import ema
def t(name, f):
    try: print(name, "->", f())
    except BaseException as e: print(name, "RAISED", type(e).__name__, str(e)[:160])
# last-key null with earlier code > 0
a = np.array([1., 2., 2., 1.]); b = np.array([5., 5., np.nan, 6.])
gb = GroupBy([a, b]); t("multi-key last null", lambda: (gb.group_ikey.tolist(), gb.result_index.tolist(), gb.sum(np.array([1., 10., 100., 1000.])).to_dict()))
# chunked keys, unsorted, NaN inside second chunk
k = pa.chunked_array([pa.array([3., 1., 3.]), pa.array([2., np.nan, 1.])])
gb = GroupBy(k); v = np.array([1., 10., 100., 1000., 10000., 100000.])
t("chunked state", lambda: ([c.to_pylist() for c in gb.group_ikey.chunks], [p.tolist() for p in gb._group_key_pointers], gb.result_index.tolist()))
t("chunked sum", lambda: gb.sum(v).to_dict())
t("chunked ema (local codes?)", lambda: gb.ema(v, alpha=0.5).tolist())
t("unchunked ema", lambda: GroupBy(np.array([3., 1., 3., 2., np.nan, 1.])).ema(v, alpha=0.5).tolist())
t("chunked cumsum", lambda: gb.cumsum(v).tolist())
t("chunked sum after unify", lambda: gb.sum(v).to_dict())
t("unified ikey", lambda: np.asarray(gb.group_ikey).tolist())
# rolling diff unit
ts = np.array([10, 20, 35], dtype="M8[s]")
t("diff M8[s]", lambda: nf.rolling_diff(np.array([0, 0, 0]), ts, 1, 1))
t("ema len mismatch", lambda: ema(np.array([1., 2., 3.]), halflife="1s", times=pd.date_range("2020", periods=2, freq="s")))
# apply multi-column with empty group (categorical unused)
cat = pd.Categorical(["a", "c", "a"], categories=["a", "b", "c"])
t("apply 2 cols unused cat", lambda: GroupBy(cat).apply(dict(x=np.array([1., 2., 3.]), y=np.array([10., 20., 30.])), np.sum).to_dict())
t("head keep index order", lambda: GroupBy(np.array([0,0,0])).head(pd.Series([1.,2.,3.], index=[3,1,2]), 2, keep_input_index=True).to_dict())

"""
Throw-away prototype: if-conversion of numba kernel py_func source + guarded execution with z3 values.
Goal: measure formula sizes / solver times for merged (fork-free) encodings. NOT framework code.
"""
import ast, inspect, textwrap, time, types, itertools
import z3

# ---------------------------------------------------------------- runtime
class Undef:
    def __repr__(self): return "UNDEF"
UNDEF = Undef()

def is_sym(x):
    return isinstance(x, z3.ExprRef)

def to_z3_bool(x):
    if isinstance(x, bool): return z3.BoolVal(x)
    if isinstance(x, int): return z3.BoolVal(x != 0)
    if is_sym(x):
        if z3.is_bool(x): return x
        if z3.is_int(x) or z3.is_real(x): return x != 0
    raise TypeError(f"bool of {x!r}")

def simp(x):
    return z3.simplify(x) if is_sym(x) else x

def conc_bool(x):
    """return python bool if concretely known else None"""
    if isinstance(x, (bool, int)): return bool(x)
    if x is None: return False
    if is_sym(x):
        s = z3.simplify(to_z3_bool(x))
        if z3.is_true(s): return True
        if z3.is_false(s): return False
        return None
    return bool(x)

def ite(c, a, b):
    cb = conc_bool(c)
    if cb is True: return a
    if cb is False: return b
    if a is b: return a
    if isinstance(a, Undef): return b
    if isinstance(b, Undef): return a
    if isinstance(a, tuple):
        return tuple(ite(c, x, y) for x, y in zip(a, b))
    if isinstance(a, SArr) and isinstance(b, SArr):
        if a.cells is b.cells: return a
        if a.shape == b.shape:
            return type(a)([ite(c, x, y) for x, y in zip(a.cells, b.cells)], a.shape, a.kind, a.wrap)
        raise TypeError("merge of distinct arrays")
    if not is_sym(a) and not is_sym(b) and a == b and type(a) == type(b): return a
    a2, b2 = lift2(a, b)
    return z3.If(to_z3_bool(c), a2, b2)

def lift(x):
    if is_sym(x): return x
    if isinstance(x, bool): return z3.BoolVal(x)
    if isinstance(x, int): return z3.IntVal(x)
    if isinstance(x, float):
        return z3.RealVal(x)
    raise TypeError(f"lift {x!r}")

def lift2(a, b):
    a, b = lift(a), lift(b)
    if z3.is_int(a) and z3.is_real(b): a = z3.ToReal(a)
    if z3.is_real(a) and z3.is_int(b): b = z3.ToReal(b)
    if z3.is_bool(a) and not z3.is_bool(b): a = z3.If(a, 1, 0); return lift2(a, b)
    if z3.is_bool(b) and not z3.is_bool(a): b = z3.If(b, 1, 0); return lift2(a, b)
    return a, b


class Frame:
    def __init__(self, guard):
        self.entry_guard = guard
        self.returned = False   # z3 bool or python bool
        self.retval = UNDEF
        self.loops = []         # stack of continue flags


class RT:
    def __init__(self):
        self.guards = [True]
        self.frames = []
        self.obligations = []   # (kind, cond-that-must-hold under guard)
        self.nstores = 0

    # ---- guard handling
    def cur(self):
        g = self.guards[-1]
        f = self.frames[-1]
        parts = [g, self.not_(f.returned)]
        if f.loops:
            parts.append(self.not_(f.loops[-1]))
        return self.and_all(parts)

    def and_all(self, parts):
        out = []
        for p in parts:
            cb = conc_bool(p)
            if cb is False: return False
            if cb is True: continue
            out.append(to_z3_bool(p))
        if not out: return True
        return z3.And(*out) if len(out) > 1 else out[0]

    def not_(self, x):
        cb = conc_bool(x)
        if cb is not None: return not cb
        return z3.Not(to_z3_bool(x))

    def push(self, c):
        g = self.and_all([self.guards[-1], c])
        self.guards.append(g)
        return conc_bool(self.cur()) is not False

    def pop(self):
        self.guards.pop()

    def cond(self, c):
        cb = conc_bool(c)
        return cb if cb is not None else z3.simplify(to_z3_bool(c))

    def andl(self, *thunks):
        acc = True
        for t in thunks:
            if conc_bool(acc) is False: return False
            # evaluate under guard acc
            self.guards.append(self.and_all([self.guards[-1], acc]))
            try:
                v = t()
            finally:
                self.guards.pop()
            acc = self.and_all([acc, v])
        return acc

    def orl(self, *thunks):
        acc = False
        for t in thunks:
            if conc_bool(acc) is True: return True
            self.guards.append(self.and_all([self.guards[-1], self.not_(acc)]))
            try:
                v = t()
            finally:
                self.guards.pop()
            cb = conc_bool(v)
            if cb is True: return True
            if cb is False: continue
            acc = z3.Or(to_z3_bool(acc), to_z3_bool(v)) if conc_bool(acc) is None else to_z3_bool(v)
        return acc

    def ifexp(self, c, ta, tb):
        cb = conc_bool(c)
        if cb is True: return ta()
        if cb is False: return tb()
        self.push(c); a = ta(); self.pop()
        self.push(self.not_(c)); b = tb(); self.pop()
        return ite(c, a, b)

    # ---- statements
    def assign(self, old, new):
        g = self.cur()
        return ite(g, new, old)

    def store(self, arr, idx, val):
        arr.store(idx, val, self.cur(), self)

    def do_return(self, v):
        f = self.frames[-1]
        g = self.cur()
        f.retval = ite(g, v, f.retval)
        cb = conc_bool(g)
        if cb is True: f.returned = True
        elif cb is False: pass
        else:
            f.returned = z3.Or(to_z3_bool(f.returned), g) if conc_bool(f.returned) is None else g

    def do_continue(self):
        f = self.frames[-1]
        g = self.cur()
        cb = conc_bool(g)
        if cb is True: f.loops[-1] = True
        elif cb is False: pass
        else:
            old = f.loops[-1]
            f.loops[-1] = g if conc_bool(old) is False else z3.Or(to_z3_bool(old), g)

    def loop_iter_begin(self):
        self.frames[-1].loops.append(False)

    def loop_iter_end(self):
        self.frames[-1].loops.pop()

    def check(self, kind, c):
        g = self.cur()
        self.obligations.append((kind, g, c))

    def do_raise(self, what):
        self.obligations.append(("raise:" + what, self.cur(), False))
        self.do_return(UNDEF)

    def call(self, fn, *args, **kw):
        return fn(*args, **kw)

    def enter(self):
        self.frames.append(Frame(self.guards[-1]))

    def leave(self):
        f = self.frames.pop()
        return f.retval


class SArr:
    """1-D or 2-D array, concrete shape, cells list of z3/py scalars. wrap: optional (lo, hi) integer wrap range"""
    def __init__(self, cells, shape, kind, wrap=None, name=None):
        self.cells = cells; self.shape = shape; self.kind = kind; self.wrap = wrap; self.name = name
    def __len__(self): return self.shape[0]
    def _flat(self, idx):
        if isinstance(idx, tuple):
            return idx
        return (idx,)
    def __iter__(self):
        assert len(self.shape) == 1
        return iter(self.cells)
    def copy(self):
        return SArr(list(self.cells), self.shape, self.kind, self.wrap)
    def load(self, idx, rt=None):
        idx = self._flat(idx)
        if len(self.shape) == 2 and len(idx) == 1:
            # row view: only concrete supported / symbolic -> ite copy
            i = idx[0]
            ncol = self.shape[1]
            if not is_sym(i):
                i = i % self.shape[0]
                return SArr(self.cells[i*ncol:(i+1)*ncol], (ncol,), self.kind, self.wrap)
            rows = []
            for c in range(ncol):
                e = self.cells[(self.shape[0]-1)*ncol + c]
                for r in range(self.shape[0]-2, -1, -1):
                    e = ite(i == r, self.cells[r*ncol + c], e)
                rows.append(e)
            return SArr(rows, (ncol,), self.kind, self.wrap)
        # full index
        strides = [1]
        for s in reversed(self.shape[1:]): strides.insert(0, strides[0]*s)
        # flatten, possibly symbolic
        flat = 0; symbolic = False
        for i, s, st in zip(idx, self.shape, strides):
            if is_sym(i):
                symbolic = True
                i = z3.If(i < 0, i + s, i)
            else:
                if i < 0: i += s
            flat = flat + i*st
        if not symbolic:
            return self.cells[flat]
        flat = z3.simplify(flat)
        e = self.cells[-1]
        for j in range(len(self.cells)-2, -1, -1):
            e = ite(flat == j, self.cells[j], e)
        return e
    __getitem__ = load
    def store(self, idx, val, guard, rt):
        rt.nstores += 1
        idx = self._flat(idx)
        strides = [1]
        for s in reversed(self.shape[1:]): strides.insert(0, strides[0]*s)
        flat = 0; symbolic = False
        for i, s, st in zip(idx, self.shape, strides):
            if is_sym(i):
                symbolic = True
                i = z3.If(i < 0, i + s, i)
            else:
                if i < 0: i += s
            flat = flat + i*st
        if self.wrap is not None:
            lo, hi = self.wrap
            span = hi - lo + 1
            if is_sym(val):
                val = ((val - lo) % span) + lo
            else:
                val = ((val - lo) % span) + lo
        if self.kind == 'f' and is_sym(val) and z3.is_int(val):
            val = z3.ToReal(val)
        if not symbolic:
            self.cells[flat] = ite(guard, val, self.cells[flat])
        else:
            flat = z3.simplify(flat)
            for j in range(len(self.cells)):
                c = rt.and_all([guard, flat == j])
                self.cells[j] = ite(c, val, self.cells[j])
    def __setitem__(self, idx, val):
        raise RuntimeError("direct setitem; should be rewritten")


# ---------------------------------------------------------------- transformer
class IfConv(ast.NodeTransformer):
    def __init__(self):
        self.assigned = set()

    def visit_FunctionDef(self, node):
        node.decorator_list = []
        node.returns = None
        for a in node.args.args + node.args.kwonlyargs:
            a.annotation = None
        params = {a.arg for a in node.args.args + node.args.kwonlyargs}
        # collect assigned names
        for n in ast.walk(node):
            if isinstance(n, ast.Name) and isinstance(n.ctx, ast.Store):
                self.assigned.add(n.id)
        body = []
        for name in sorted(self.assigned - params):
            body.append(ast.parse(f"{name} = __rt_UNDEF").body[0])
        body.append(ast.parse("__rt.enter()").body[0])
        for s in node.body:
            r = self.visit(s)
            if isinstance(r, list): body.extend(r)
            elif r is not None: body.append(r)
        body.append(ast.parse("return __rt.leave()").body[0])
        node.body = body
        return node

    def _expr(self, e):
        return self.visit(e)

    def visit_BoolOp(self, node):
        self.generic_visit(node)
        fn = "andl" if isinstance(node.op, ast.And) else "orl"
        thunks = [ast.Lambda(args=ast.arguments(posonlyargs=[], args=[], kwonlyargs=[], kw_defaults=[], defaults=[]), body=v) for v in node.values]
        return ast.Call(func=ast.Attribute(value=ast.Name(id="__rt", ctx=ast.Load()), attr=fn, ctx=ast.Load()), args=thunks, keywords=[])

    def visit_UnaryOp(self, node):
        self.generic_visit(node)
        if isinstance(node.op, ast.Not):
            return ast.Call(func=ast.Attribute(value=ast.Name(id="__rt", ctx=ast.Load()), attr="not_", ctx=ast.Load()), args=[node.operand], keywords=[])
        return node

    def visit_IfExp(self, node):
        self.generic_visit(node)
        lam = lambda b: ast.Lambda(args=ast.arguments(posonlyargs=[], args=[], kwonlyargs=[], kw_defaults=[], defaults=[]), body=b)
        return ast.Call(func=ast.Attribute(value=ast.Name(id="__rt", ctx=ast.Load()), attr="ifexp", ctx=ast.Load()), args=[node.test, lam(node.body), lam(node.orelse)], keywords=[])

    def visit_Compare(self, node):
        self.generic_visit(node)
        if len(node.ops) == 1 and isinstance(node.ops[0], (ast.Is, ast.IsNot)):
            return node
        return node

    def _assign_target(self, tgt, value_expr):
        """returns list of stmts assigning value_expr (an ast expr) to tgt under guard"""
        if isinstance(tgt, ast.Name):
            return [ast.Assign(targets=[ast.Name(id=tgt.id, ctx=ast.Store())],
                               value=ast.Call(func=ast.Attribute(value=ast.Name(id="__rt", ctx=ast.Load()), attr="assign", ctx=ast.Load()),
                                              args=[ast.Name(id=tgt.id, ctx=ast.Load()), value_expr], keywords=[]))]
        if isinstance(tgt, ast.Subscript):
            return [ast.Expr(ast.Call(func=ast.Attribute(value=ast.Name(id="__rt", ctx=ast.Load()), attr="store", ctx=ast.Load()),
                                      args=[self.visit(tgt.value), self.visit(tgt.slice), value_expr], keywords=[]))]
        if isinstance(tgt, ast.Tuple):
            out = []
            tmp = f"__t{id(tgt)}"
            out.append(ast.Assign(targets=[ast.Name(id=tmp, ctx=ast.Store())], value=value_expr))
            for k, el in enumerate(tgt.elts):
                out.extend(self._assign_target(el, ast.Subscript(value=ast.Name(id=tmp, ctx=ast.Load()), slice=ast.Constant(k), ctx=ast.Load())))
            return out
        raise NotImplementedError(ast.dump(tgt))

    def visit_Assign(self, node):
        val = self.visit(node.value)
        if len(node.targets) == 1:
            return self._assign_target(node.targets[0], val)
        tmp = f"__m{id(node)}"
        out = [ast.Assign(targets=[ast.Name(id=tmp, ctx=ast.Store())], value=val)]
        for t in node.targets:
            out.extend(self._assign_target(t, ast.Name(id=tmp, ctx=ast.Load())))
        return out

    def visit_AugAssign(self, node):
        import copy
        load = copy.deepcopy(node.target); load.ctx = ast.Load()
        for n in ast.walk(load):
            if hasattr(n, 'ctx'): n.ctx = ast.Load()
        val = ast.BinOp(left=self.visit(load), op=node.op, right=self.visit(node.value))
        return self._assign_target(node.target, val)

    def visit_If(self, node):
        test = self.visit(node.test)
        cname = f"__c{id(node)}"
        out = [ast.Assign(targets=[ast.Name(id=cname, ctx=ast.Store())],
                          value=ast.Call(func=ast.Attribute(value=ast.Name(id="__rt", ctx=ast.Load()), attr="cond", ctx=ast.Load()), args=[test], keywords=[]))]
        def block(stmts, cond_expr):
            body = []
            for s in stmts:
                r = self.visit(s)
                if isinstance(r, list): body.extend(r)
                elif r is not None: body.append(r)
            if not body: body = [ast.Pass()]
            push = ast.Call(func=ast.Attribute(value=ast.Name(id="__rt", ctx=ast.Load()), attr="push", ctx=ast.Load()), args=[cond_expr], keywords=[])
            pop = ast.Expr(ast.Call(func=ast.Attribute(value=ast.Name(id="__rt", ctx=ast.Load()), attr="pop", ctx=ast.Load()), args=[], keywords=[]))
            return [ast.If(test=push, body=body, orelse=[]), pop]
        out.extend(block(node.body, ast.Name(id=cname, ctx=ast.Load())))
        if node.orelse:
            neg = ast.Call(func=ast.Attribute(value=ast.Name(id="__rt", ctx=ast.Load()), attr="not_", ctx=ast.Load()), args=[ast.Name(id=cname, ctx=ast.Load())], keywords=[])
            out.extend(block(node.orelse, neg))
        return out

    def visit_For(self, node):
        it = self.visit(node.iter)
        body = [ast.Expr(ast.parse("__rt.loop_iter_begin()").body[0].value)]
        # loop var assignment is unconditional (python semantics) but under guard is fine
        tmp = f"__it{id(node)}"
        body.extend(self._assign_target(node.target, ast.Name(id=tmp, ctx=ast.Load())))
        for s in node.body:
            r = self.visit(s)
            if isinstance(r, list): body.extend(r)
            elif r is not None: body.append(r)
        body.append(ast.Expr(ast.parse("__rt.loop_iter_end()").body[0].value))
        return ast.For(target=ast.Name(id=tmp, ctx=ast.Store()), iter=it, body=body, orelse=[])

    def visit_Continue(self, node):
        return ast.Expr(ast.parse("__rt.do_continue()").body[0].value)

    def visit_Return(self, node):
        v = self.visit(node.value) if node.value else ast.Constant(None)
        return ast.Expr(ast.Call(func=ast.Attribute(value=ast.Name(id="__rt", ctx=ast.Load()), attr="do_return", ctx=ast.Load()), args=[v], keywords=[]))

    def visit_Assert(self, node):
        return ast.Expr(ast.Call(func=ast.Attribute(value=ast.Name(id="__rt", ctx=ast.Load()), attr="check", ctx=ast.Load()), args=[ast.Constant("assert"), self.visit(node.test)], keywords=[]))

    def visit_Raise(self, node):
        return ast.Expr(ast.Call(func=ast.Attribute(value=ast.Name(id="__rt", ctx=ast.Load()), attr="do_raise", ctx=ast.Load()), args=[ast.Constant("exc")], keywords=[]))


_cache = {}
def convert(pyfunc, rt, shim_globals):
    key = pyfunc
    src = textwrap.dedent(inspect.getsource(pyfunc))
    tree = ast.parse(src)
    fd = tree.body[0]
    conv = IfConv()
    fd = conv.visit(fd)
    ast.fix_missing_locations(tree)
    g = dict(pyfunc.__globals__)
    g.update(shim_globals)
    g["__rt"] = rt
    g["__rt_UNDEF"] = UNDEF
    code = compile(tree, f"<ifconv {pyfunc.__name__}>", "exec")
    exec(code, g)
    return g[fd.name]


# ---------------------------------------------------------------- MATH-domain float: (nan flag, real)
class SF:
    __slots__ = ("nan", "v")
    def __init__(self, nan, v):
        self.nan = nan; self.v = v
    @staticmethod
    def of(x):
        if isinstance(x, SF): return x
        if isinstance(x, float):
            if x != x: return SF(True, z3.RealVal(0))
            if x in (float("inf"), float("-inf")): return SF(False, z3.RealVal(10**12 if x > 0 else -10**12))   # probe hack
            return SF(False, z3.RealVal(x))
        if isinstance(x, bool): return SF(False, z3.RealVal(int(x)))
        if isinstance(x, int): return SF(False, z3.RealVal(x))
        if is_sym(x):
            if z3.is_int(x): return SF(False, z3.ToReal(x))
            if z3.is_real(x): return SF(False, x)
            if z3.is_bool(x): return SF(False, z3.If(x, z3.RealVal(1), z3.RealVal(0)))
        raise TypeError(x)
    def _nn(self, o):
        return z3.And(z3.Not(to_z3_bool(self.nan)), z3.Not(to_z3_bool(o.nan)))
    def __gt__(self, o): o = SF.of(o); return z3.And(self._nn(o), self.v > o.v)
    def __ge__(self, o): o = SF.of(o); return z3.And(self._nn(o), self.v >= o.v)
    def __lt__(self, o): o = SF.of(o); return z3.And(self._nn(o), self.v < o.v)
    def __le__(self, o): o = SF.of(o); return z3.And(self._nn(o), self.v <= o.v)
    def eq(self, o): o = SF.of(o); return z3.And(self._nn(o), self.v == o.v)
    def __eq__(self, o): return self.eq(o)
    def __ne__(self, o): return z3.Not(self.eq(o))
    __hash__ = object.__hash__
    def same(self, o):
        o = SF.of(o)
        return z3.Or(z3.And(to_z3_bool(self.nan), to_z3_bool(o.nan)), self.eq(o))
    def _bin(self, o, f):
        o = SF.of(o)
        return SF(z3.Or(to_z3_bool(self.nan), to_z3_bool(o.nan)), f(self.v, o.v))
    def __add__(self, o): return self._bin(o, lambda a, b: a + b)
    def __radd__(self, o): return SF.of(o)._bin(self, lambda a, b: a + b)
    def __sub__(self, o): return self._bin(o, lambda a, b: a - b)
    def __rsub__(self, o): return SF.of(o)._bin(self, lambda a, b: a - b)
    def __mul__(self, o): return self._bin(o, lambda a, b: a * b)
    def __rmul__(self, o): return SF.of(o)._bin(self, lambda a, b: a * b)
    def __truediv__(self, o): return self._bin(o, lambda a, b: a / b)
    def __pow__(self, k):
        assert k == 2
        return SF(self.nan, self.v * self.v)

_old_ite = ite
def ite(c, a, b):
    if isinstance(a, SF) or isinstance(b, SF):
        cb = conc_bool(c)
        if cb is True: return a
        if cb is False: return b
        if isinstance(a, Undef): return b
        if isinstance(b, Undef): return a
        a = SF.of(a); b = SF.of(b)
        cz = to_z3_bool(c)
        return SF(z3.If(cz, to_z3_bool(a.nan), to_z3_bool(b.nan)), z3.If(cz, a.v, b.v))
    if isinstance(a, tuple) or isinstance(b, tuple):
        cb = conc_bool(c)
        if cb is True: return a
        if cb is False: return b
        if isinstance(a, Undef): return b
        if isinstance(b, Undef): return a
        return tuple(ite(c, x, y) for x, y in zip(a, b))
    return _old_ite(c, a, b)

import sys, time, itertools
sys.path.insert(0, "/tmp/probe")
import z3
from proto import *
from groupby_lib.groupby import numba as nf

MIN_INT = -2**63
F64 = z3.Float64()

def is_null_shim(x):
    if is_sym(x):
        if isinstance(x, z3.FPRef): return z3.fpIsNaN(x)
        if z3.is_int(x): return x == MIN_INT
        if z3.is_bool(x): return False
        raise TypeError(x.sort())
    if isinstance(x, float): return x != x
    if isinstance(x, bool): return False
    if isinstance(x, int): return x == MIN_INT
    raise TypeError(x)

class NP:
    nan = float("nan"); inf = float("inf")
    int16 = "int16"; int64 = "int64"
    @staticmethod
    def full(shape, fill, dtype=None):
        if isinstance(shape, int): shape = (shape,)
        n = 1
        for s in shape: n *= s
        kind = 'i' if (dtype in ("int64", "int16") or isinstance(fill, int) and not isinstance(fill, bool)) else 'f'
        if isinstance(fill, z3.FPRef): kind = 'F'
        wrap = (-2**15, 2**15-1) if dtype == "int16" else None
        return SArr([fill]*n, tuple(shape), kind, wrap)
    @staticmethod
    def zeros(shape, dtype=None):
        if dtype in (None, "float64"):
            return NP.full(shape, 0.0, dtype)
        return NP.full(shape, 0, dtype)

def make(kernel_name, red_name, N, G, valkind="fp", indexer=False):
    rt = RT()
    shim = {"is_null": is_null_shim, "np": NP}
    gbr = convert(nf._group_by_reduce.py_func, rt, shim)
    red = convert(getattr(nf.ScalarFuncs, red_name).py_func, rt, shim)
    keys = [z3.Int(f"k{i}") for i in range(N)]
    if valkind == "fp":
        vals = [z3.FP(f"v{i}", F64) for i in range(N)]
        init = z3.fpNaN(F64)
    elif valkind == "int":
        vals = [z3.Int(f"v{i}") for i in range(N)]
        init = MIN_INT
    pre = [z3.And(k >= -1, k < G) for k in keys]
    if valkind == "int":
        pre += [z3.And(v >= MIN_INT, v < 2**63) for v in vals]
    gk = SArr(list(keys), (N,), 'i')
    va = SArr(list(vals), (N,), 'F' if valkind == "fp" else 'i')
    if "sum" in red_name:
        init = z3.FPVal(0.0, F64) if valkind == "fp" else 0
    target = SArr([init]*G, (G,), va.kind)
    t0 = time.time()
    res = gbr(gk, va, target, red)
    t1 = time.time()
    tgt, cnt = res
    return rt, pre, keys, vals, tgt, cnt, t1 - t0

def spec_max(keys, vals, g, N, want_max=True):
    """declarative: r is NaN iff no non-null member; else r is member and >= all members"""
    member = [z3.And(keys[i] == g, z3.Not(z3.fpIsNaN(vals[i]))) for i in range(N)]
    def ok(r):
        none = z3.Not(z3.Or(*member))
        ge = z3.And(*[z3.Implies(member[i], (r >= vals[i]) if want_max else (r <= vals[i])) for i in range(N)])
        isel = z3.Or(*[z3.And(member[i], z3.fpEQ(r, vals[i])) for i in range(N)])
        return z3.If(none, z3.fpIsNaN(r), z3.And(ge, isel))
    return ok

def run_max(N, G, red="nanmax"):
    rt, pre, keys, vals, tgt, cnt, tsym = make("gbr", red, N, G)
    s = z3.Solver()
    s.add(*pre)
    bad = []
    for g in range(G):
        ok = spec_max(keys, vals, g, N, want_max=(red == "nanmax"))(tgt.cells[g])
        cspec = z3.Sum(*[z3.If(z3.And(keys[i] == g, z3.Not(z3.fpIsNaN(vals[i]))), 1, 0) for i in range(N)])
        bad.append(z3.Not(z3.And(ok, cnt.cells[g] == cspec)))
    s.add(z3.Or(*bad))
    t0 = time.time()
    r = s.check()
    t1 = time.time()
    print(f"{red} N={N} G={G}: symexec {tsym:.2f}s solve {t1-t0:.2f}s -> {r}; obligations={len(rt.obligations)} stores={rt.nstores}")
    if str(r) == "sat":
        m = s.model()
        print("  keys", [m.eval(k) for k in keys], "vals", [m.eval(v) for v in vals], "tgt", [m.eval(c) for c in tgt.cells])

if __name__ == "__main__":
    for N, G in [(2, 2), (3, 2), (4, 2)]:
        run_max(N, G, "nanmax")
    pass

"""Probe 2: shadow import incl. factorization.py + core.py; run chunk/pointer methods of the real GroupBy on a stub instance."""
import ast, sys, types, inspect, textwrap, functools, importlib, time
import numpy as real_np
import numba as real_nb
import z3
sys.path.insert(0, "/tmp/probe")
from proto import SArr, SF, RT, UNDEF, is_sym, to_z3_bool, IfConv, ite, conc_bool
import proto

RT_ = RT()
MIN_INT = -2**63

class A(SArr):
    ndim = 1
    def __init__(self, cells, dtype):
        dtype = real_np.dtype(dtype)
        super().__init__(list(cells), (len(cells),), dtype.kind)
        self.dtype = dtype
    def __getitem__(self, idx):
        if isinstance(idx, slice): return A(self.cells[idx], self.dtype)
        if isinstance(idx, A):
            if idx.dtype.kind == 'b':
                assert all(isinstance(c, bool) for c in idx.cells), "symbolic bool index"
                return A([c for c, m in zip(self.cells, idx.cells) if m], self.dtype)
            return A([self.load(i) for i in idx.cells], self.dtype)
        if isinstance(idx, real_np.ndarray): return A([self.cells[int(i)] for i in idx], self.dtype)
        return self.load(idx)
    def __setitem__(self, idx, val):
        if idx is None or (isinstance(idx, slice) and idx == slice(None)):
            vs = val.cells if isinstance(val, SArr) else [val] * len(self.cells)
            self.cells[:] = list(vs); return
        if isinstance(idx, A) and idx.dtype.kind in "iu":
            vs = val.cells if isinstance(val, SArr) else [val] * len(idx.cells)
            for i, v in zip(idx.cells, vs):
                self.store(i, v, True, RT_)
            return
        if isinstance(idx, A) and idx.dtype.kind == 'b':
            vs = val.cells if isinstance(val, SArr) else [val] * len(self.cells)
            for j, (m, v) in enumerate(zip(idx.cells, vs)):
                self.cells[j] = ite(m, v, self.cells[j])
            return
        self.store(idx, val, True, RT_)
    def view(self, dt): return A(self.cells, dt)
    def astype(self, dt):
        dt = real_np.dtype(dt)
        if dt.kind == 'f' and self.dtype.kind != 'f': return A([SF.of(c) for c in self.cells], dt)
        return A(list(self.cells), dt)
    def copy(self): return A(list(self.cells), self.dtype)
    def nonzero(self):
        assert all(isinstance(c, bool) for c in self.cells), "symbolic nonzero"
        return (A([j for j, c in enumerate(self.cells) if c], "int64"),)
    def _ew(self, o, f, dt=None):
        oc = o.cells if isinstance(o, SArr) else [o] * len(self.cells)
        return A([f(a, b) for a, b in zip(self.cells, oc)], dt or self.dtype)
    def __add__(self, o): return self._ew(o, lambda a, b: a + b)
    def __radd__(self, o): return self._ew(o, lambda a, b: b + a)
    def __iadd__(self, o): return self._ew(o, lambda a, b: a + b)
    def __lt__(self, o): return self._ew(o, lambda a, b: a < b, "bool")
    def __truediv__(self, o): return A([SF.of(a) / SF.of(b) for a, b in zip(self.cells, o.cells)], "float64")
    def min(self): raise NotImplementedError

class NPShim:
    ndarray = A
    nan = float("nan"); inf = float("inf")
    def __getattr__(self, name): return getattr(real_np, name)
    def full(self, shape, fill, dtype=None):
        n = shape if isinstance(shape, (int, real_np.integer)) else shape[0]
        if dtype is None:
            dtype = "float64" if isinstance(fill, (float, SF)) else ("bool" if isinstance(fill, bool) else "int64")
        dtype = real_np.dtype(dtype)
        if dtype.kind == 'f': fill = SF.of(float(fill) if not isinstance(fill, SF) else fill)
        elif dtype.kind == 'b': fill = bool(fill)
        elif dtype.kind in 'iu' and not is_sym(fill): fill = int(fill)
        elif dtype.kind in 'mM': fill = MIN_INT
        return A([fill] * int(n), dtype)
    def zeros(self, shape, dtype=None): return self.full(shape, 0, dtype or "float64")
    def array_split(self, arr, n):
        if not isinstance(arr, A): return real_np.array_split(arr, n)
        if isinstance(n, (int, real_np.integer)):
            L = len(arr); q, r = divmod(L, int(n)); sizes = [q + 1] * r + [q] * (int(n) - r)
        else:
            cuts = [0] + [int(x) for x in n] + [len(arr)]
            sizes = [b - a for a, b in zip(cuts, cuts[1:])]
        out = []; p = 0
        for s in sizes: out.append(arr[p:p + s]); p += s
        return out
    def asarray(self, x):
        if isinstance(x, FakeChunked): return self.concatenate(x.chunks)
        return x
    def concatenate(self, xs):
        xs = list(xs)
        if not isinstance(xs[0], A): return real_np.concatenate(xs)
        return A([c for x in xs for c in x.cells], xs[0].dtype)
    def isnan(self, x): return x.nan if isinstance(x, SF) else (x != x)
NP = NPShim()

class KernelObj:
    def __init__(self, pyfunc, ns):
        self.py_func = pyfunc; self.ns = ns; self._conv = None
        functools.update_wrapper(self, pyfunc)
    def __get__(self, obj, typ=None): return self          # behaves like a staticmethod payload
    def __call__(self, *a, **k):
        if self._conv is None:
            src = textwrap.dedent(inspect.getsource(self.py_func))
            tree = ast.parse(src); tree.body[0] = IfConv().visit(tree.body[0]); ast.fix_missing_locations(tree)
            g = self.ns; g.setdefault("__rt", RT_); g.setdefault("__rt_UNDEF", UNDEF)
            loc = {}
            exec(compile(tree, f"<ifconv {self.py_func.__name__}>", "exec"), g, loc)
            self._conv = loc[self.py_func.__name__]
        return self._conv(*a, **k)

class NBShim:
    types = real_nb.types; prange = range; bool_ = bool
    def __init__(self, ns): self._ns = ns
    def njit(self, *a, **k):
        if a and callable(a[0]) and not k: return KernelObj(a[0], self._ns)
        return lambda f: KernelObj(f, self._ns)
    class typed:
        class Dict:
            @staticmethod
            def empty(*a): return {}

class NumbaList(list): pass
OVERLOADS = {}
def overload(target, **kw):
    def deco(t): OVERLOADS.setdefault(target.__name__, []).append(t); return t
    return deco
def nb_type_of(x):
    if isinstance(x, (SF, float)): return real_nb.types.float64
    if isinstance(x, bool) or (is_sym(x) and z3.is_bool(x)): return real_nb.types.boolean
    return real_nb.types.int64
def make_dispatch(name, ns):
    def dispatch(*args):
        for t in OVERLOADS[name]:
            impl = t(*[nb_type_of(a) for a in args])
            if impl is not None: return KernelObj(impl, ns)(*args)
        raise TypeError(name)
    return dispatch

class OutsideModel(Exception): pass
class Stub:
    def __init__(self, n): self._n = n
    def __getattr__(self, a): return Stub(self._n + "." + a)
    def __call__(self, *a, **k): raise OutsideModel(self._n)
class _S: pass
class FakeIndex(_S):
    def __init__(self, n): self.n = n; self.names = [None]; self.nlevels = 1
    def __len__(self): return self.n
class FakeChunked(_S):
    def __init__(self, chunks): self.chunks = list(chunks)
    def __len__(self): return sum(len(c) for c in self.chunks)
class FakeSeries(_S):
    def __init__(self, arr, index=None, dtype=None, copy=None, name=None): self.arr = arr; self.index = index; self.name = name
    def rename(self, name): self.name = name; return self
class FakeFrame(_S):
    def __init__(self, data, copy=None, index=None): self.data = dict(data); self.columns = list(self.data)
    def __getitem__(self, c): return self.data[c]
class PDShim:
    Series = FakeSeries; DataFrame = FakeFrame; Index = FakeIndex
    class Categorical(_S): pass
    class MultiIndex(_S): pass
    class RangeIndex(FakeIndex): pass
    class api:
        class types:
            @staticmethod
            def is_bool_dtype(x): return isinstance(x, A) and x.dtype.kind == 'b'
    def __getattr__(self, a): return Stub("pd." + a)
class PLShim:
    class Series(_S): pass
    class DataFrame(_S): pass
    class LazyFrame(_S): pass
    class DataType(_S): pass
    def __getattr__(self, a): return Stub("pl." + a)
class PAShim:
    ChunkedArray = FakeChunked
    class Array(_S): pass
    @staticmethod
    def chunked_array(chunks): return FakeChunked(chunks)
    def __getattr__(self, a): return Stub("pa." + a)

SHADOW = {}
class ModProxy:
    def __init__(self, ns): self.__dict__ = ns

def resolve_import(node, ns, pkg):
    real_ok = {"concurrent.futures", "operator", "os", "functools", "inspect", "typing", "multiprocessing", "collections.abc"}
    third = {"numpy": NP, "pandas": PDShim(), "polars": PLShim(), "pyarrow": PAShim()}
    if isinstance(node, ast.Import):
        for al in node.names:
            top = al.name
            if top == "numba": ns[al.asname or top] = NBShim(ns)
            elif top in third: ns[al.asname or top] = third[top]
            elif top in real_ok:
                m = importlib.import_module(top)
                ns[al.asname or top.split(".")[0]] = importlib.import_module(top.split(".")[0]) if not al.asname else m
            else: raise ImportError(top)
        return
    mod = ("." * node.level) + (node.module or "")
    for al in node.names:
        name, asn = al.name, al.asname or al.name
        if mod in real_ok: ns[asn] = getattr(importlib.import_module(mod), name)
        elif mod == "numba.typed" and name == "List": ns[asn] = NumbaList
        elif mod == "numba.core.extending" and name == "overload": ns[asn] = overload
        elif mod == "pandas.core.algorithms": ns[asn] = Stub("factorize_array")
        elif mod == "pandas.core": ns[asn] = Stub("pandas.core." + name)
        elif mod in ("..util", "groupby_lib.util", ".util"): ns[asn] = SHADOW["util"][name]
        elif mod == ".factorization": ns[asn] = SHADOW["factorization"][name]
        elif mod == "." and name == "numba": ns[asn] = ModProxy(SHADOW["gbnumba"])
        elif mod == ".." and name == "nanops": ns[asn] = None
        else: raise ImportError(f"{mod}:{name}")

def shadow_import(path, key):
    tree = ast.parse(open(path).read())
    ns = {"__name__": "shadow." + key, "__builtins__": __builtins__}
    SHADOW[key] = ns
    body = []
    for node in tree.body:
        if isinstance(node, (ast.Import, ast.ImportFrom)): resolve_import(node, ns, key)
        else: body.append(node)
    tree.body = body
    for n in ast.walk(tree):
        if isinstance(n, (ast.FunctionDef, ast.AsyncFunctionDef)):
            n.returns = None
            for a in n.args.args + n.args.kwonlyargs + n.args.posonlyargs + [x for x in (n.args.vararg, n.args.kwarg) if x]:
                a.annotation = None
    class StripAnn(ast.NodeTransformer):
        def visit_AnnAssign(self, node):
            if node.value is None: return None
            return ast.copy_location(ast.Assign(targets=[node.target], value=node.value), node)
    tree = StripAnn().visit(tree); ast.fix_missing_locations(tree)
    exec(compile(tree, path, "exec"), ns)
    return ns

def load_all():
    util = shadow_import("/repo/groupby_lib/util.py", "util")
    util["is_null"] = make_dispatch("is_null", util)
    def _val_to_numpy(val, as_list=False):
        if isinstance(val, FakeChunked): return NumbaList(val.chunks) if as_list else NP.concatenate(val.chunks)
        if isinstance(val, NumbaList): return val if as_list else val[0]
        return NumbaList([val]) if as_list else val
    util["_val_to_numpy"] = _val_to_numpy
    util["parallel_map"] = lambda func, arg_list, **kw: [func(*a) for a in list(arg_list)]
    # functions inside shadow util that call _val_to_numpy resolve it through the (live) namespace -> patched
    shadow_import("/repo/groupby_lib/groupby/numba.py", "gbnumba")
    shadow_import("/repo/groupby_lib/groupby/factorization.py", "factorization")
    core = shadow_import("/repo/groupby_lib/groupby/core.py", "core")
    return core

def same(a, b):
    if isinstance(a, SF) or isinstance(b, SF): return SF.of(a).same(b)
    return a == b

if __name__ == "__main__":
    core = load_all()
    GB = core["GroupBy"]
    print("shadow core loaded:", GB, flush=True)
    G = 3
    lens = (3, 2); uniq = (2, 2)            # two chunks, rows per chunk, local uniques per chunk
    N = sum(lens)
    local = [[z3.Int(f"l{c}_{i}") for i in range(lens[c])] for c in range(2)]
    ptr = [[z3.Int(f"p{c}_{u}") for u in range(uniq[c])] for c in range(2)]
    pre = []
    for c in range(2):
        pre += [z3.And(x >= -1, x < uniq[c]) for x in local[c]]
        pre += [z3.And(p >= 0, p < G) for p in ptr[c]] + [z3.Distinct(*ptr[c])]
    vals = [SF(z3.Bool(f"n{i}"), z3.Real(f"v{i}")) for i in range(N)]
    glob = []
    for c in range(2):
        for x in local[c]:
            e = z3.IntVal(-1)
            for u in range(uniq[c]): e = z3.If(x == u, ptr[c][u], e)
            glob.append(e)

    def chunked_state():
        gb = object.__new__(GB)
        gb._group_ikey = FakeChunked([A(local[0], "int64"), A(local[1], "int64")])
        gb._group_key_pointers = [A(ptr[0], "int64"), A(ptr[1], "int64")]
        gb._result_index = FakeIndex(G); gb._sort = False; gb._index_is_sorted = True; gb._key_index = None
        return gb
    def flat_state():
        gb = object.__new__(GB)
        gb._group_ikey = A(glob, "int64"); gb._group_key_pointers = None
        gb._result_index = FakeIndex(G); gb._sort = False; gb._index_is_sorted = True; gb._key_index = None
        return gb

    for fn in ["sum", "min", "max", "first", "last", "count"]:
        t0 = time.time()
        (rc, cc), = chunked_state()._apply_gb_func_across_chunked_group_keys(fn, [A(vals, "float64")], None)
        (rf, cf), = flat_state()._apply_gb_func_across_chunked_group_keys(fn, [A(vals, "float64")], None)
        s = z3.Solver(); s.add(*pre)
        s.add(z3.Or(*[z3.Not(same(rc.cells[g], rf.cells[g])) for g in range(G)] + [cc.cells[g] != cf.cells[g] for g in range(G)]))
        r = s.check()
        print(f"chunked+pointers vs contiguous, {fn}: {r} ({time.time()-t0:.2f}s total)", flush=True)
        if str(r) == "sat":
            m = s.model(); print("   local", [[m.eval(x, True) for x in ch] for ch in local], "ptr", [[m.eval(x, True) for x in ch] for ch in ptr], "nan", [m.eval(v.nan, True) for v in vals])

    # count_ikey and unify: abstraction preserved?
    gb = chunked_state()
    cnt_before = gb.count_ikey()
    gb._unify_group_key_chunks()
    after = gb._group_ikey
    s = z3.Solver(); s.add(*pre); s.add(z3.Or(*[after.cells[i] != glob[i] for i in range(N)]))
    r = s.check(); print("unify preserves global codes:", r)
    if str(r) == "sat":
        m = s.model(); print("   local", [[m.eval(x, True) for x in ch] for ch in local], "ptr", [[m.eval(x, True) for x in ch] for ch in ptr], "after", [m.eval(c, True) for c in after.cells])
    cnt_after = gb.count_ikey()
    s = z3.Solver(); s.add(*pre); s.add(z3.Or(*[cnt_before.cells[g] != cnt_after.cells[g] for g in range(G)]))
    r = s.check(); print("count_ikey same before/after unify:", r)

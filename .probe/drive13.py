"""Probe S: dtype classes (int64, bool, datetime64[ns], uint64) through the real _group_func_wrap; M: null-key non-interference (two runs)."""
import sys, time
sys.path.insert(0, "/tmp/probe")
import z3
from pe import *
M = load(("util", "gbnumba"))
nbm = M["gbnumba"]; MINI = -2**63

def check(name, pre, bad, t0):
    s = z3.Solver(); s.add(*pre); s.add(z3.Or(*bad)); r = s.check()
    n, failed = discharge(pre)
    print(f"{name}: {r} ({time.time()-t0:.2f}s) obligations {n} failed {sorted(set(failed))}", flush=True)
    if str(r) == "sat": print("    model:", s.model())

N, G = 4, 2
keys = [z3.Int(f"k{i}") for i in range(N)]
kpre = [z3.And(k >= -1, k < G) for k in keys]

for dt in ("int64", "datetime64[ns]", "timedelta64[s]", "bool", "int32"):
    if dt == "bool":
        vals = [z3.Bool(f"b{i}") for i in range(N)]; pre = list(kpre)
    else:
        vals = [z3.Int(f"v{i}") for i in range(N)]
        lo, hi = (MINI, 2**63) if dt != "int32" else (-2**31, 2**31)
        pre = kpre + [z3.And(v >= lo, v < hi) for v in vals]
    has_null = dt in ("datetime64[ns]", "timedelta64[s]", "int64")
    for fn in ("group_max", "group_sum", "group_first", "group_count"):
        for T in (1, 2):
            t0 = time.time()
            try:
                res = nbm[fn](A(keys, "int64"), A(vals, dt), G, None, T)
            except Exception as e:
                import traceback; print(f"S {fn} {dt} T={T}: ERROR {type(e).__name__}: {e}"); traceback.print_exc(limit=-2); RT_.obligations.clear(); continue
            bad = []
            for g in range(G):
                isn = (lambda v: v == MINI) if (has_null and not (fn == "group_sum" and dt == "int64")) else (lambda v: z3.BoolVal(False))
                member = [z3.And(keys[i] == g, z3.Not(isn(vals[i]))) for i in range(N)]
                r = res.cells[g]; none = z3.Not(z3.Or(*member))
                num = (lambda v: z3.If(v, 1, 0)) if dt == "bool" else (lambda v: v)
                if fn == "group_sum": ok = r == z3.Sum(*[z3.If(member[i], num(vals[i]), 0) for i in range(N)])
                elif fn == "group_count": ok = r == z3.Sum(*[z3.If(member[i], 1, 0) for i in range(N)])
                elif fn == "group_max":
                    if dt == "bool": ok = z3.If(none, r == False, r == z3.Or(*[z3.And(member[i], vals[i]) for i in range(N)]))
                    else: ok = z3.If(none, r == (MINI if dt != "int32" else -2**31), z3.And(*[z3.Implies(member[i], r >= vals[i]) for i in range(N)], z3.Or(*[z3.And(member[i], r == vals[i]) for i in range(N)])))
                else:
                    conds = []; seen = z3.BoolVal(False)
                    for i in range(N):
                        conds.append(z3.Implies(z3.And(member[i], z3.Not(seen)), r == vals[i])); seen = z3.Or(seen, member[i])
                    ok = z3.And(*conds)
                bad.append(z3.Not(ok))
            check(f"S {fn} {dt} T={T} -> result dtype {res.dtype}", pre, bad, t0)

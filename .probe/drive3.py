import sys, time
sys.path.insert(0, "/tmp/probe")
import z3
from proto import *
from drive2 import NP, is_null_shim, MIN_INT
from groupby_lib.groupby import numba as nf

class NB:
    prange = range

def run(red, N, split, G):
    rt = RT()
    shim = {"is_null": is_null_shim, "np": NP, "nb": NB}
    gbr = convert(nf._group_by_reduce.py_func, rt, shim)
    redf = convert(getattr(nf.ScalarFuncs, red).py_func, rt, shim)
    rap = convert(nf.reduce_array_pair.py_func, rt, shim)
    keys = [z3.Int(f"k{i}") for i in range(N)]
    pre = [z3.And(k >= -1, k < G) for k in keys]
    vals = [SF(z3.Bool(f"n{i}"), z3.Real(f"v{i}")) for i in range(N)]
    init = lambda: SArr([SF(True, z3.RealVal(0))]*G, (G,), 'f')
    whole, _ = gbr(SArr(list(keys), (N,), 'i'), SArr(list(vals), (N,), 'f'), init(), redf)
    a, ca = gbr(SArr(keys[:split], (split,), 'i'), SArr(vals[:split], (split,), 'f'), init(), redf)
    b, cb = gbr(SArr(keys[split:], (N-split,), 'i'), SArr(vals[split:], (N-split,), 'f'), init(), redf)
    comb = rap(a, b, redf)   # as in combine_chunk_results_for_factorized_key: counts=None
    s = z3.Solver(); s.add(*pre)
    s.add(z3.Or(*[z3.Not(whole.cells[g].same(comb.cells[g])) for g in range(G)]))
    t0 = time.time(); r = s.check(); t1 = time.time()
    print(f"{red} N={N} split={split} G={G}: {r} in {t1-t0:.2f}s", flush=True)
    if str(r) == "sat":
        m = s.model()
        print("   keys", [m.eval(k) for k in keys], "nan", [m.eval(v.nan) for v in vals], "vals", [m.eval(v.v) for v in vals])
        print("   whole", [(m.eval(c.nan), m.eval(c.v)) for c in whole.cells], "comb", [(m.eval(c.nan), m.eval(c.v)) for c in comb.cells])

for red in ["nanmin", "nanmax", "first", "last", "nansum"]:
    run(red, 4, 2, 2)

import numpy as np, pandas as pd, pyarrow as pa, warnings
warnings.filterwarnings("ignore")
from groupby_lib.groupby import numba as nf
from groupby_lib.groupby.core import GroupBy
from groupby_lib import ema, ema_grouped
def t(name, f):
    try: print(name, "->", f())
    except BaseException as e: print(name, "RAISED", type(e).__name__, str(e)[:120])
codes = np.array([0, 0, 1, 1]); 
ts = np.array([144115188075987952+1, 5, 7, 9], dtype="M8[ns]")
t("rolling_max ts", lambda: nf.rolling_max(codes, ts, 2, 2, 1).view("int64"))
t("rolling_shift ts", lambda: nf.rolling_shift(codes, ts, 2, 1).view("int64"))
vals = np.array([np.nan, np.nan, 3.0, 1.0]); c2 = np.array([1, 1, 0, 1])
for fn in ("group_min", "group_max", "group_first", "group_last", "group_sum", "group_count", "group_mean"):
    t(fn + " 1thr", lambda: getattr(nf, fn)(c2, vals, 2, n_threads=1))
    t(fn + " 2thr", lambda: getattr(nf, fn)(c2, vals, 2, n_threads=2))
t("weight_code_sum last null", lambda: GroupBy([np.array([1., 1., 2.]), np.array([5., np.nan, 5.])]).group_ikey)
t("ema_grouped null key", lambda: ema_grouped(np.array([0, -1, 1, 1]), 2, np.array([1., 100., 2., 3.]), alpha=0.5))
t("ema_grouped hl 2.5", lambda: ema_grouped(np.array([0, 0, 0]), 1, np.array([1., 2., 3.]), halflife=2.5))
t("ema hl 2.5", lambda: ema(np.array([1., 2., 3.]), halflife=2.5))
big = np.zeros(70000, dtype=np.int64)
t("nth big", lambda: GroupBy(big).nth(np.arange(70000), 0, keep_input_index=True))
t("head big", lambda: len(GroupBy(big).head(np.arange(70000), 40000, keep_input_index=True)))
k = pa.chunked_array([pa.array([3., np.nan, 1.]), pa.array([1., 2., 3.])])
gb = GroupBy(k)
t("chunked ikey", lambda: (gb.group_ikey, gb._group_key_pointers, gb.result_index))
t("chunked sum", lambda: gb.sum(np.arange(6.)).to_dict())
t("chunked transform sum", lambda: gb.sum(np.arange(6.), transform=True).tolist())
t("chunked sum after", lambda: gb.sum(np.arange(6.)).to_dict())
gb2 = GroupBy(np.array([1., np.nan, 1.]))
t("copy ctor", lambda: GroupBy(gb2).sum(np.arange(3.)))
t("margins", lambda: gb2.sum(np.arange(3.), margins=True))
t("cumsum td skipna False", lambda: nf.cumsum(np.array([0,0,0]), np.array([1, "NaT", 2], dtype="m8[ns]"), 1, skip_na=False))
t("allnull group unsorted", lambda: GroupBy(np.array([2, 1, 2])).sum(np.array([1., np.nan, 2.])))
import groupby_lib.nanops as no
t("nanmin thr>len", lambda: no.nanmin(np.array([3., 1., 2.]), n_threads=5))
t("nanmax allnan block", lambda: no.nanmax(np.array([np.nan, np.nan, 2., 1.]), n_threads=2))

import sys, time
sys.path.insert(0, "/tmp/probe")
import z3
from pe import *
M = load(("util", "gbnumba", "factorization", "core"))
core = M["core"]; GB = core["GroupBy"]

G = 2; lens = (3, 2); uniq = (2, 2); N = sum(lens)
local = [[z3.Int(f"l{c}_{i}") for i in range(lens[c])] for c in range(2)]
ptr = [[z3.Int(f"p{c}_{u}") for u in range(uniq[c])] for c in range(2)]
pre = []
for c in range(2):
    pre += [z3.And(x >= -1, x < uniq[c]) for x in local[c]]
    pre += [z3.And(p >= 0, p < G) for p in ptr[c]] + [z3.Distinct(*ptr[c])]
vals = [SF(z3.Bool(f"n{i}"), z3.Real(f"v{i}")) for i in range(N)]
glob = []
for c in range(2):
    for x in local[c]:
        e = z3.IntVal(-1)
        for u in range(uniq[c]): e = z3.If(x == u, ptr[c][u], e)
        glob.append(e)

def stub(chunked):
    gb = object.__new__(GB)
    if chunked:
        gb._group_ikey = FakeChunked([A(local[0], "int64"), A(local[1], "int64")])
        gb._group_key_pointers = [A(ptr[0], "int64"), A(ptr[1], "int64")]
    else:
        gb._group_ikey = A(glob, "int64"); gb._group_key_pointers = None
    gb._result_index = FakeIndex(G); gb._sort = False; gb._index_is_sorted = True; gb._key_index = None
    # cuts: argument preprocessing and pandas conversion are pass-throughs on the stub instance
    gb._preprocess_arguments = lambda values, mask: ([None], [values], [values.dtype], None)
    gb._convert_arr_to_pandas_series = lambda arr, orig_type, index: arr
    gb._maybe_squeeze_to_1d = lambda result, values, n: result[result.columns[0]]
    return gb

def spec(fn, g):
    member = [z3.And(glob[i] == g, z3.Not(vals[i].nan)) for i in range(N)]
    cnt = z3.Sum(*[z3.If(m, 1, 0) for m in member]); tot = z3.Sum(*[z3.If(member[i], vals[i].v, 0) for i in range(N)])
    if fn == "sum": return lambda r: z3.And(z3.Not(zb(to_z3_bool(r.nan))), r.v == tot)
    if fn == "mean": return lambda r: z3.If(cnt == 0, zb(to_z3_bool(r.nan)), z3.And(z3.Not(zb(to_z3_bool(r.nan))), r.v * z3.ToReal(cnt) == tot))
    if fn == "count": return lambda r: r == cnt
    if fn == "max": return lambda r: z3.If(cnt == 0, zb(to_z3_bool(r.nan)), z3.And(z3.Not(zb(to_z3_bool(r.nan))), *[z3.Implies(member[i], r.v >= vals[i].v) for i in range(N)], z3.Or(*[z3.And(member[i], r.v == vals[i].v) for i in range(N)])))

for chunked in (False, True):
    for fn in ("sum", "max", "count", "mean"):
        t0 = time.time()
        try:
            out = stub(chunked)._apply_gb_reduction(fn, A(vals, "float64"), None, True)
        except Exception as e:
            import traceback; traceback.print_exc(limit=4); print(f"G transform {fn} chunked={chunked}: ERROR {type(e).__name__}: {e}"); RT_.obligations.clear(); continue
        bad = []
        for i in range(N):
            r = out.cells[i]
            per_group = z3.Or(*[z3.And(glob[i] == g, spec(fn, g)(r if fn == "count" else SF.of(r))) for g in range(G)])
            neutral = (r == 0) if fn == "count" else (z3.And(z3.Not(zb(to_z3_bool(SF.of(r).nan))), SF.of(r).v == 0) if fn == "sum" else zb(to_z3_bool(SF.of(r).nan)))
            bad.append(z3.Not(z3.If(glob[i] < 0, neutral, per_group)))
        s = z3.Solver(); s.add(*pre); s.add(z3.Or(*bad)); r = s.check()
        n, failed = discharge(pre)
        print(f"G transform {fn} chunked={chunked}: {r} ({time.time()-t0:.2f}s) obligations {n} failed {sorted(set(failed))}", flush=True)
        if str(r) == "sat":
            m = s.model(); print("    local", [[m.eval(x, True) for x in ch] for ch in local], "ptr", [[m.eval(x, True) for x in ch] for ch in ptr], "nan", [m.eval(v.nan, True) for v in vals], "vals", [m.eval(v.v, True) for v in vals])
            print("    out", [(m.eval(zb(to_z3_bool(SF.of(c).nan)), True), m.eval(SF.of(c).v, True)) if fn != "count" else m.eval(c, True) for c in out.cells])

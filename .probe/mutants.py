"""Design-time experiment: which candidate mutants survive the pinned test suite? (scratch copies under /tmp/mut, removed afterwards)"""
import os, sys, subprocess, shutil, json, re, time
from concurrent.futures import ThreadPoolExecutor

NB = "groupby_lib/groupby/numba.py"; CORE = "groupby_lib/groupby/core.py"; FZ = "groupby_lib/groupby/factorization.py"
EM = "groupby_lib/emas.py"; NO = "groupby_lib/nanops.py"; UT = "groupby_lib/util.py"

MUTANTS = {
 "M0": None,
 "M1": (NB, "def nanmax(cur_max, next_val, count):\n        if is_null(next_val):\n            return cur_max, count\n        elif count:\n            if next_val > cur_max:",
            "def nanmax(cur_max, next_val, count):\n        if is_null(next_val):\n            return cur_max, count\n        elif count:\n            if next_val < cur_max:"),
 "M2": (NB, "        elif count:\n            return cur_first, count + 1", "        elif count:\n            return next_val, count + 1"),
 "M4": (NB, "            key = group_key[i]\n            if key < 0:\n                continue\n            target[key], count[key] = reduce_func(target[key], values[i], count[key])\n\n    return target, count",
            "            key = group_key[i]\n            target[key], count[key] = reduce_func(target[key], values[i], count[key])\n\n    return target, count"),
 "M6": (NB, "splits = np.cumsum(lengths[:-1])", "splits = np.cumsum(lengths[1:])"),
 "M8": (NB, '"sum" if counting or "sum" in reduce_func_name else reduce_func_name,', "reduce_func_name,"),
 "M9": (NB, 'dtype = "uint64" if np_type.kind == "u" else "int64"', "dtype = np_type"),
 "M10": (NB, "rng = range(len(group_key) - 1, -1, -1)\n        n = -n - 1", "rng = range(len(group_key) - 2, -1, -1)\n        n = -n - 1"),
 "M12": (NB, "    if not forward:\n        out = out[:, ::-1]\n", ""),
 "M13": (NB, "                    group_sums[key] -= old_val\n                    group_non_null[key] -= 1\n", "                    group_sums[key] -= old_val\n"),
 "M15": (NB, "            need_recalc = pos == pos_of_current_best[key]\n            need_recalc = True\n", "            need_recalc = pos == pos_of_current_best[key]\n"),
 "M16": (NB, "for j, v in enumerate(arr[i + 1 :], i):", "for j, v in enumerate(arr[i + 2 :], i):"),
 "M19": (NB, 'name = "nan" + operation if skip_na else operation', 'name = operation if skip_na else "nan" + operation'),
 "M21": (EM, "            residual_weights[k] += 1\n            residuals[k] += x\n\n        residuals[k] *= beta\n        residual_weights[k] *= beta\n",
             "            residual_weights[k] += 1\n            residuals[k] += x\n            residuals[k] *= beta\n            residual_weights[k] *= beta\n\n"),
 "M23": (EM, "        halflife = _halflife_to_int(halflife)\n        alpha = 1 - np.exp(-np.log(2) / halflife)", "        halflife = _halflife_to_int(halflife)\n        alpha = 1 - np.exp(-np.log(2) * halflife)"),
 "M26": (FZ, "uniques[group_id] = codes[i]", "uniques[i] = codes[i]"),
 "M27": (FZ, "        elif x > prev:\n            labels[n_labels] = x", "        elif x >= prev:\n            labels[n_labels] = x"),
 "M28": (CORE, "                    pos = current_pos[k]\n                    indexer[pos] = i\n                    current_pos[k] += 1", "                    current_pos[k] += 1\n                    pos = current_pos[k] - 1\n                    indexer[pos - 0] = i if pos > 0 else i"),
 "M29": (CORE, "                        len(pointer) + 1\n                        if pointer is not None", "                        len(pointer)\n                        if pointer is not None"),
 "M30": (CORE, "                count[pointer] += counts_one_value[j][:-1]  # ignore null group\n", ""),
 "M31": (CORE, "slice_ = slice(i * len(group_keys), (i + 1) * len(group_keys))", "slice_ = slice(i * n_values, i * n_values + len(group_keys))"),
 "M34": (CORE, "            if cum_length > start:\n                break", "            if cum_length >= start:\n                break"),
 "M35": (CORE, "                    count[pointer] += c", "                    count[pointer] = c"),
 "M37": (NO, "        chunk_reduction = reduce_func_name", '        chunk_reduction = "sum"'),
 "M38": (UT, "        results = [None] * len(arg_list)", "        results = []"),
 # additional candidates aimed at the blind spots the properties name
 "M41": (NB, "                if not is_null(to_remove):\n                    group_non_null[key] -= 1", "                if not is_null(to_remove):\n                    group_non_null[key] -= 0"),
 "M42": (NB, "            if group_counts[key] >= window:\n                if want_shift:", "            if group_counts[key] > window - 1 and pos >= 0:\n                if want_shift:"),   # equivalent (control: must stay silent)
 "M43": (NB, "            if masked and not mask[i]:\n                # For masked values, pass through the current accumulator without updating\n                if last_seen >= 0:\n                    target[i] = target[last_seen]\n                continue",
              "            if masked and not mask[i]:\n                # For masked values, pass through the current accumulator without updating\n                target[i] = target[last_seen]\n                continue"),
 "M44": (CORE, "        if self._group_key_pointers is not None:\n            chunks = [\n                p[k] for p, k in zip(self._group_key_pointers, self._group_ikey.chunks)\n            ]",
               "        if self._group_key_pointers is not None:\n            chunks = [\n                p[k] for p, k in zip(self._group_key_pointers[::-1], self._group_ikey.chunks)\n            ]"),
 "M45": (NB, "            if seen[k] == n:\n                assert out[k] == -1\n                out[k] = i", "            if seen[k] >= n:\n                out[k] = i"),
 "M46": (EM, "        if np.isnan(x) or (masked and not mask[i]):\n            out[i] = last_seen[k]\n        else:\n            out[i] = (x + residuals[k]) / (1 + residual_weights[k])\n            residual_weights[k] += 1\n            residuals[k] += x\n\n        residuals[k] *= beta",
             "        if np.isnan(x) or (masked and not mask[i]):\n            out[i] = last_seen[k]\n        else:\n            out[i] = (x + residuals[k]) / (1 + residual_weights[k])\n            residual_weights[k] += 1\n            residuals[k] += x\n\n        residuals[k - 0] *= beta"),  # equivalent control
}
MUTANTS["M38b"] = (UT, "                results[index] = future.result()", "                results.append(future.result())")

def apply(root, spec):
    if spec is None: return
    specs = spec if isinstance(spec, list) else [spec]
    for f, old, new in specs:
        p = os.path.join(root, f); s = open(p).read()
        assert s.count(old) == 1, (f, old[:50], s.count(old))
        open(p, "w").write(s.replace(old, new))

def run(mid):
    root = f"/tmp/mut/{mid}"
    shutil.rmtree(root, ignore_errors=True)
    subprocess.run(["rsync", "-a", "--exclude", ".git", "--exclude", "__pycache__", "/repo/", root + "/"], check=True)
    spec = MUTANTS[mid]
    if mid == "M38": spec = [MUTANTS["M38"], MUTANTS["M38b"]]
    try:
        apply(root, spec)
    except AssertionError as e:
        return mid, "APPLY-FAILED", str(e)
    t0 = time.time()
    env = dict(os.environ, PYTHONPATH=root, NUMBA_CACHE_DIR=root + "/.nbcache", PYTHONDONTWRITEBYTECODE="1")
    p = subprocess.run(["/venv/bin/python", "-m", "pytest", "-q", "-p", "no:cacheprovider", "--timeout=900", "-rf", "tests"],
                       cwd=root, env=env, capture_output=True, text=True)
    failed = sorted(set(re.findall(r"^FAILED (\S+)", p.stdout, re.M)))
    tail = p.stdout.strip().splitlines()[-1] if p.stdout.strip() else p.stderr[-300:]
    shutil.rmtree(root, ignore_errors=True)
    return mid, failed, f"{tail} [{time.time()-t0:.0f}s]"

if __name__ == "__main__":
    ids = [m for m in MUTANTS if m != "M38b"]
    if len(sys.argv) > 1: ids = sys.argv[1:]
    os.makedirs("/tmp/mut", exist_ok=True)
    out = {}
    with ThreadPoolExecutor(max_workers=13) as ex:
        for mid, failed, info in ex.map(run, ids):
            out[mid] = dict(failed=failed, info=info)
            print(mid, info, "n_failed=", len(failed) if isinstance(failed, list) else failed, flush=True)
    json.dump(out, open("/tmp/probe/mutant_results.json", "w"), indent=1)
    base = set(out.get("M0", {}).get("failed", []))
    for mid, r in out.items():
        if isinstance(r["failed"], list):
            new = sorted(set(r["failed"]) - base)
            print(f"{mid}: {'SURVIVES the suite' if not new else 'killed by ' + str(len(new)) + ' tests, e.g. ' + new[0]}")
    shutil.rmtree("/tmp/mut", ignore_errors=True)

"""Probe: _find_first_or_last_n (2-D output, symbolic column index, reversed view) and _build_group_sorted_indexer_numba."""
import sys, time, itertools
sys.path.insert(0, "/tmp/probe")
import z3
from pe import *
import pe
M = load(("util", "gbnumba", "factorization", "core"))
nbm = M["gbnumba"]; GB = M["core"]["GroupBy"]

_old_getitem = A.__getitem__
def getitem(self, idx):
    if isinstance(idx, tuple) and len(idx) == 2 and idx[0] == slice(None) and idx[1] == slice(None, None, -1):
        r, c = self.shape
        return A([self.cells[i * c + (c - 1 - j)] for i in range(r) for j in range(c)], self.dtype, (r, c))
    return _old_getitem(self, idx)
A.__getitem__ = getitem

def nth_pos(keys, g, j, N, forward=True):
    """z3: position of the j-th (0-based) row of group g in scan order, or -1"""
    order = range(N) if forward else range(N - 1, -1, -1)
    e = z3.IntVal(-1)
    for i in reversed(list(order)):
        before = [keys[l] == g for l in order if (l < i if forward else l > i)]
        rank = z3.Sum(*[z3.If(b, 1, 0) for b in before]) if len(before) > 1 else (z3.If(before[0], 1, 0) if before else z3.IntVal(0))
        e = z3.If(z3.And(keys[i] == g, rank == j), i, e)
    return e

N, G = 5, 2
keys = [z3.Int(f"k{i}") for i in range(N)]; pre = [z3.And(k >= -1, k < G) for k in keys]
for forward in (True, False):
    for n in (0, 1, 2, 3):
        t0 = time.time()
        out = nbm["_find_first_or_last_n"](A(keys, "int64"), G, n, None, forward)
        bad = []
        for g in range(G):
            for j in range(n):
                cell = out.cells[g * n + j]
                # forward: column j = j-th row; backward: after reversal column n-1-j = j-th row from the end
                exp = nth_pos(keys, g, j if forward else n - 1 - j, N, forward)
                bad.append(cell != exp)
        s = z3.Solver(); s.add(*pre)
        r = "unsat (vacuous n=0)" if not bad else (s.add(z3.Or(*bad)) or s.check())
        nob, failed = discharge(pre)
        print(f"find_first_or_last_n forward={forward} n={n}: {r} ({time.time()-t0:.2f}s) obligations {nob} failed {sorted(set(failed))}", flush=True)

# counting sort: null positions enumerated (output length = number of non-null rows), group assignment symbolic
N, G = 4, 2
tot = 0; t0 = time.time(); worst = "unsat"
for nulls in itertools.product([False, True], repeat=N):
    ks = [(-1 if nulls[i] else z3.Int(f"k{i}")) for i in range(N)]
    pre = [z3.And(k >= 0, k < G) for k in ks if is_sym(k)]
    counts = [z3.Sum(*[z3.If(k == g, 1, 0) for k in ks if is_sym(k)] + [z3.IntVal(0), z3.IntVal(0)]) for g in range(G)]
    nvalid = sum(1 for x in nulls if not x)
    class NPZ(type(NP)):
        def zeros(self, shape, dtype=None):
            if is_sym(shape): shape = nvalid          # logical length known from the enumerated null pattern
            return super().zeros(shape, dtype)
    M["core"]["np"] = NPZ()
    idx = GB._build_group_sorted_indexer_numba(NumbaList([A(ks, "int64")]), A(counts, "int64"), None, None)
    M["core"]["np"] = NP
    bad = []
    # permutation of the non-null rows, ascending within each group, groups in order
    for p in range(nvalid):
        cell = idx.cells[p]
        # expected: rows sorted by (group, position)
        rank_of = lambda i: z3.Sum(*[z3.If(z3.Or(ks[l] < ks[i], z3.And(ks[l] == ks[i], l < i)) if True else False, 1, 0) for l in range(N) if not nulls[l] and l != i] + [z3.IntVal(0), z3.IntVal(0)])
        exp = z3.IntVal(-1)
        for i in range(N):
            if not nulls[i]: exp = z3.If(rank_of(i) == p, i, exp)
        bad.append(cell != exp)
    if bad:
        s = z3.Solver(); s.add(*pre); s.add(z3.Or(*bad)); r = str(s.check())
        if r != "unsat": worst = r
    nob, failed = discharge(pre); tot += 1
    if failed: worst = f"obligations failed {failed}"
print(f"_build_group_sorted_indexer_numba N={N} G={G}: {tot} null patterns, verdict {worst} ({time.time()-t0:.2f}s)")

"""Probe: known-finding class predicate + re-solve with the predicate negated (finding 1: empty first partial in the merge)."""
import sys, time
sys.path.insert(0, "/tmp/probe")
import z3
from pe import *
M = load(("util", "gbnumba")); nbm = M["gbnumba"]
N, G, T = 5, 2, 2
keys = [z3.Int(f"k{i}") for i in range(N)]; pre = [z3.And(k >= -1, k < G) for k in keys]
vals = [SF(z3.Bool(f"n{i}"), z3.Real(f"v{i}")) for i in range(N)]
import numpy as np
blocks = [list(b) for b in np.array_split(np.arange(N), T)]
for fn in ("group_min", "group_max", "group_first"):
    one = nbm[fn](A(keys, "int64"), A(vals, "float64"), G, None, 1)
    two = nbm[fn](A(keys, "int64"), A(vals, "float64"), G, None, T)
    viol = z3.Or(*[z3.Not(same(one.cells[g], two.cells[g])) for g in range(G)])
    valid_in = lambda g, blk: z3.Or(*[z3.And(keys[i] == g, z3.Not(vals[i].nan)) for i in blk])
    # class predicate: some group has no valid member in block 0 but has one in a later block
    klass = z3.Or(*[z3.And(z3.Not(valid_in(g, blocks[0])), z3.Or(*[valid_in(g, b) for b in blocks[1:]])) for g in range(G)])
    s = z3.Solver(); s.add(*pre, viol); r1 = s.check()
    inclass = None
    if str(r1) == "sat": inclass = z3.is_true(s.model().eval(klass, True))
    s2 = z3.Solver(); s2.add(*pre, viol, z3.Not(klass)); r2 = s2.check()
    s3 = z3.Solver(); s3.add(*pre, klass, z3.Not(viol)); r3 = s3.check()
    print(f"{fn}: violation {r1} (model in class: {inclass}); violation outside the class: {r2}; class member without violation: {r3}")
    RT_.obligations.clear()

"""Throw-away probe: 'shadow import' of the real module sources under symbolic-aware shims."""
import ast, sys, types, inspect, textwrap, functools
import numpy as real_np
import numba as real_nb
import z3
sys.path.insert(0, "/tmp/probe")
import proto
from proto import SArr, SF, RT, UNDEF, is_sym, to_z3_bool, IfConv

RT_ = RT()
MIN_INT = -2**63

# ------------------------------------------------------------------ array proxy with dtype + numpy-ish API
class A(SArr):
    def __init__(self, cells, dtype, shape=None):
        dtype = real_np.dtype(dtype)
        super().__init__(list(cells), shape or (len(cells),), dtype.kind)
        self.dtype = dtype
    ndim = 1
    def __getitem__(self, idx):
        if isinstance(idx, slice):
            return A(self.cells[idx], self.dtype)
        if isinstance(idx, A) and idx.dtype.kind in "iu":
            return A([self.load(i) for i in idx.cells], self.dtype)
        return self.load(idx)
    def view(self, dt):
        return A(self.cells, dt)        # shares cells list (int64 view of M8)
    def astype(self, dt):
        dt = real_np.dtype(dt)
        if dt.kind == 'f' and self.dtype.kind != 'f':
            return A([SF.of(c) for c in self.cells], dt)
        return A(list(self.cells), dt)
    def copy(self):
        return A(list(self.cells), self.dtype)
    def nonzero(self):
        raise NotImplementedError("symbolic nonzero")
    def _ew(self, o, f):
        oc = o.cells if isinstance(o, SArr) else [o] * len(self.cells)
        return A([f(a, b) for a, b in zip(self.cells, oc)], self.dtype)
    def __add__(self, o): return self._ew(o, lambda a, b: a + b)
    def __radd__(self, o): return self._ew(o, lambda a, b: b + a)
    def __truediv__(self, o):
        return A([SF.of(a) / SF.of(b) for a, b in zip(self.cells, o.cells)], "float64")

class NPShim:
    ndarray = A
    nan = float("nan"); inf = float("inf")
    def __getattr__(self, name):
        return getattr(real_np, name)
    def full(self, shape, fill, dtype=None):
        n = shape if isinstance(shape, int) else shape[0]
        if dtype is None:
            dtype = "float64" if isinstance(fill, (float, SF)) else ("bool" if isinstance(fill, bool) else "int64")
        dtype = real_np.dtype(dtype)
        if dtype.kind == 'f': fill = SF.of(float(fill) if not isinstance(fill, SF) else fill)
        elif dtype.kind in 'iu' and not is_sym(fill): fill = int(fill)
        elif dtype.kind in 'mM': fill = MIN_INT;
        return A([fill] * n, dtype)
    def zeros(self, shape, dtype=None):
        return self.full(shape, 0, dtype or "float64")
    def array_split(self, arr, n):
        if isinstance(n, int):
            L = len(arr); q, r = divmod(L, n)
            sizes = [q + 1] * r + [q] * (n - r)
            out = []; p = 0
            for s in sizes: out.append(arr[p:p + s]); p += s
            return out
        raise NotImplementedError
    def asarray(self, x):
        return x
    def concatenate(self, xs):
        return A([c for x in xs for c in x.cells], xs[0].dtype)
    def isnan(self, x):
        return x.nan if isinstance(x, SF) else (x != x)

NP = NPShim()

class KernelObj:
    """what @nb.njit returns in the shadow world: callable running the if-converted source"""
    def __init__(self, pyfunc, ns):
        self.py_func = pyfunc; self.ns = ns; self._conv = None
        functools.update_wrapper(self, pyfunc)
    def __call__(self, *a, **k):
        if self._conv is None:
            src = textwrap.dedent(inspect.getsource(self.py_func))
            tree = ast.parse(src)
            tree.body[0] = IfConv().visit(tree.body[0])
            ast.fix_missing_locations(tree)
            g = self.ns          # shadow module namespace (live)
            g.setdefault("__rt", RT_); g.setdefault("__rt_UNDEF", UNDEF)
            loc = {}
            exec(compile(tree, f"<ifconv {self.py_func.__name__}>", "exec"), g, loc)
            self._conv = loc[self.py_func.__name__]
        return self._conv(*a, **k)

class NBShim:
    types = real_nb.types
    typed = types_ns = None
    prange = range
    bool_ = bool
    def njit(self, *a, **k):
        if a and callable(a[0]) and not k:
            return KernelObj(a[0], self._ns)
        def deco(f): return KernelObj(f, self._ns)
        return deco

class NumbaList(list):
    pass

OVERLOADS = {}
def overload(target, **kw):
    def deco(template):
        OVERLOADS.setdefault(target.__name__, []).append(template)
        return template
    return deco

def nb_type_of(x):
    if isinstance(x, SF) or isinstance(x, float): return real_nb.types.float64
    if isinstance(x, bool) or (is_sym(x) and z3.is_bool(x)): return real_nb.types.boolean
    return real_nb.types.int64

def make_dispatch(name, ns):
    def dispatch(*args):
        for tmpl in OVERLOADS[name]:
            impl = tmpl(*[nb_type_of(a) for a in args])
            if impl is not None:
                # impl is a plain python function defined inside the (shadow) template: its globals are the shadow ns
                return KernelObj(impl, ns)(*args)
        raise TypeError(f"no overload of {name} for {args}")
    return dispatch

class Stub:
    def __init__(self, name): self._n = name
    def __getattr__(self, a): return Stub(self._n + "." + a)
    def __call__(self, *a, **k): raise NotImplementedError(self._n)
    def __or__(self, o): return self
    def __ror__(self, o): return self
    def __getitem__(self, i): return self

class _S: pass
class PDShim:
    class Series(_S): pass
    class Index(_S): pass
    class Categorical(_S): pass
    class DataFrame(_S): pass
    class MultiIndex(_S): pass
    def __getattr__(self, a): return Stub("pd." + a)
class PLShim:
    class Series(_S): pass
    class DataFrame(_S): pass
    class LazyFrame(_S): pass
    def __getattr__(self, a): return Stub("pl." + a)
class PAShim:
    class ChunkedArray(_S): pass
    class Array(_S): pass
    def __getattr__(self, a): return Stub("pa." + a)

def shadow_import(path, modname, extra):
    src = open(path).read()
    tree = ast.parse(src)
    body = []
    for node in tree.body:
        if isinstance(node, (ast.Import, ast.ImportFrom)):
            continue                   # all imports are satisfied from the pre-seeded namespace
        body.append(node)
    tree.body = body
    ns = {"__name__": modname, "__builtins__": __builtins__}
    nb = NBShim(); nb._ns = ns
    import concurrent.futures, operator, os, typing
    from functools import reduce, wraps
    from inspect import signature
    ns.update(dict(np=NP, nb=nb, pd=PDShim(), pl=PLShim(), pa=PAShim(), NumbaList=NumbaList, overload=overload,
                   concurrent=concurrent, operator=operator, os=os, reduce=reduce, wraps=wraps, signature=signature,
                   inspect=inspect, cast=typing.cast))
    for n in ("Any Callable List Mapping Optional Tuple TypeVar Union").split():
        ns[n] = getattr(typing, n)
    ns.update(extra)
    # keep source lines available to inspect.getsource for functions compiled from this file
    code = compile(tree, path, "exec")
    exec(code, ns)
    return ns

if __name__ == "__main__":
    util = shadow_import("/repo/groupby_lib/util.py", "shadow.util", {})
    util["is_null"] = make_dispatch("is_null", util)
    # shadow _val_to_numpy: pass-through on proxies (stub of container normalisation, documented cut)
    def _val_to_numpy(val, as_list=False):
        if isinstance(val, NumbaList): return val if as_list else val[0]
        return NumbaList([val]) if as_list else val
    util["_val_to_numpy"] = _val_to_numpy
    def parallel_map(func, arg_list, **kw):
        return [func(*a) for a in list(arg_list)]
    util["parallel_map"] = parallel_map
    names = "ArrayType1D NumbaReductionOps _cast_timestamps_to_ints _null_value_for_numpy_type _scalar_func_decorator _val_to_numpy check_data_inputs_aligned is_null parallel_map".split()
    extra = {n: util[n] for n in names}
    extra["nanops"] = None
    nbm = shadow_import("/repo/groupby_lib/groupby/numba.py", "shadow.gbnumba", extra)
    print("shadow modules loaded; group_min =", nbm["group_min"])

    import time
    N, G = 4, 2
    keys = [z3.Int(f"k{i}") for i in range(N)]
    pre = [z3.And(k >= -1, k < G) for k in keys]
    vals = [SF(z3.Bool(f"n{i}"), z3.Real(f"v{i}")) for i in range(N)]
    for fn in ["group_min", "group_max", "group_first", "group_last", "group_sum", "group_count"]:
        for nthr in (2, 3):
            one = nbm[fn](A(keys, "int64"), A(vals, "float64"), G, None, 1)
            two = nbm[fn](A(keys, "int64"), A(vals, "float64"), G, None, nthr)
            s = z3.Solver(); s.add(*pre)
            def same(a, b):
                if isinstance(a, SF) or isinstance(b, SF): return SF.of(a).same(b)
                return a == b
            s.add(z3.Or(*[z3.Not(same(one.cells[g], two.cells[g])) for g in range(G)]))
            t0 = time.time(); r = s.check()
            msg = ""
            if str(r) == "sat":
                m = s.model()
                msg = f" keys={[m.eval(k, True) for k in keys]} nan={[m.eval(v.nan, True) for v in vals]}"
            print(f"{fn} n_threads={nthr} vs 1: {r} ({time.time()-t0:.2f}s){msg}", flush=True)

"""Probe: relational harnesses. C06 non-interference (two runs differing only at null-key rows) on rolling_sum and cummax;
C05 mask == filter-first on cumsum and rolling_max with enumerated boolean masks."""
import sys, time, itertools
sys.path.insert(0, "/tmp/probe")
import z3
from pe import *
M = load(("util", "gbnumba")); nbm = M["gbnumba"]

N, G, W = 6, 2, 2
keys = [z3.Int(f"k{i}") for i in range(N)]; pre = [z3.And(k >= -1, k < G) for k in keys]
va = [SF(z3.Bool(f"na{i}"), z3.Real(f"a{i}")) for i in range(N)]
vb = [SF(z3.Bool(f"nb{i}"), z3.Real(f"b{i}")) for i in range(N)]
agree = [z3.Implies(keys[i] >= 0, z3.And(va[i].nan == vb[i].nan, va[i].v == vb[i].v)) for i in range(N)]
for name, call in [("rolling_sum", lambda v: nbm["rolling_sum"](A(keys, "int64"), A(v, "float64"), G, W, 1)),
                   ("rolling_max", lambda v: nbm["rolling_max"](A(keys, "int64"), A(v, "float64"), G, W, 1)),
                   ("cummax", lambda v: run_paths(lambda: nbm["cummax"](A(keys, "int64"), A(v, "float64"), G))),
                   ("group_first", lambda v: nbm["group_first"](A(keys, "int64"), A(v, "float64"), G))]:
    t0 = time.time()
    ra, rb = call(va), call(vb)
    if isinstance(ra, list):      # forked glue paths: pair up paths with identical decisions (same keys => same decisions)
        bad = []
        for (pca, xa), (pcb, xb) in zip(ra, rb):
            bad.append(z3.And(*pca, *pcb, z3.Or(*[z3.Not(same(x, y)) for x, y in zip(xa.cells, xb.cells)])))
    else:
        rows = range(len(ra.cells))
        bad = [z3.Not(same(ra.cells[i], rb.cells[i])) for i in rows]
    s = z3.Solver(); s.add(*pre, *agree); s.add(z3.Or(*bad)); r = s.check()
    nob, failed = discharge(pre)
    print(f"C06 non-interference {name} N={N}: {r} ({time.time()-t0:.2f}s) obligations {nob} failed {sorted(set(failed))}", flush=True)

# C05: mask == filter-first, boolean masks enumerated, data symbolic
N = 5
keys = [z3.Int(f"k{i}") for i in range(N)]; pre = [z3.And(k >= -1, k < G) for k in keys]
vals = [SF(z3.Bool(f"n{i}"), z3.Real(f"v{i}")) for i in range(N)]
for name, fn in [("cumsum", lambda k, v, m: nbm["cumsum"](A(k, "int64"), A(v, "float64"), G, m)),
                 ("rolling_max", lambda k, v, m: nbm["rolling_max"](A(k, "int64"), A(v, "float64"), G, W, 1, m))]:
    t0 = time.time(); nq = 0; verdicts = set()
    for bits in itertools.product([False, True], repeat=N):
        sel = [i for i in range(N) if bits[i]]
        if not sel: continue
        bad = []
        for pcm, rm in run_paths(lambda: fn(keys, vals, A(list(bits), "bool"))) if name == "cumsum" else [([], fn(keys, vals, A(list(bits), "bool")))]:
            for pcf, rf in run_paths(lambda: fn([keys[i] for i in sel], [vals[i] for i in sel], None)) if name == "cumsum" else [([], fn([keys[i] for i in sel], [vals[i] for i in sel], None))]:
                diff = z3.Or(*[z3.And(keys[i] >= 0, z3.Not(same(rm.cells[i], rf.cells[r]))) for r, i in enumerate(sel)])
                bad.append(z3.And(*pcm, *pcf, diff))
        s = z3.Solver(); s.add(*pre); s.add(z3.Or(*bad)); verdicts.add(str(s.check())); nq += 1
        RT_.obligations.clear()
    print(f"C05 mask==filter {name} N={N}: {nq} masks, verdicts {verdicts} ({time.time()-t0:.2f}s)", flush=True)

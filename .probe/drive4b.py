import sys, time, cProfile, pstats
sys.path.insert(0, "/tmp/probe")
import z3
from proto import *
from drive2 import NP, is_null_shim
from groupby_lib.groupby import numba as nf
N, G, W, MP = int(sys.argv[1]), 2, 2, 1
rt = RT()
shim = {"is_null": is_null_shim, "np": NP}
k = convert(nf._rolling_sum_or_mean_1d.py_func, rt, shim)
keys = [z3.Int(f"k{i}") for i in range(N)]
vals = [SF(z3.Bool(f"n{i}"), z3.Real(f"v{i}")) for i in range(N)]
mask = [z3.Bool(f"m{i}") for i in range(N)]
t0 = time.time()
pr = cProfile.Profile(); pr.enable()
out = k(SArr(list(keys), (N,), 'i'), [SArr(list(vals), (N,), 'f')], G, W, MP, SArr(list(mask), (N,), 'b'), SF(True, z3.RealVal(0)), False)
pr.disable()
print("symexec", time.time() - t0)
pstats.Stats(pr).sort_stats("cumulative").print_stats(12)
print("size of out[-1].v sexpr:", len(out.cells[-1].v.sexpr()))

import sys, time
sys.path.insert(0, "/tmp/probe")
import z3
import proto
from proto import *
from groupby_lib.groupby import numba as nf
MIN_INT = -2**63

def is_null_shim(x):
    if isinstance(x, SF): return x.nan
    if is_sym(x):
        if z3.is_int(x): return x == MIN_INT
        if z3.is_bool(x): return False
    if isinstance(x, float): return x != x
    if isinstance(x, bool): return False
    if isinstance(x, int): return x == MIN_INT
    raise TypeError(x)

class NP:
    nan = float("nan"); inf = float("inf")
    int16 = "int16"; int64 = "int64"
    @staticmethod
    def full(shape, fill, dtype=None):
        if isinstance(shape, int): shape = (shape,)
        n = 1
        for s in shape: n *= s
        kind = 'i' if (dtype in ("int64", "int16") or isinstance(fill, int) and not isinstance(fill, bool)) else 'f'
        wrap = (-2**15, 2**15-1) if dtype == "int16" else None
        if kind == 'f': fill = SF.of(fill)
        return SArr([fill]*n, tuple(shape), kind, wrap)
    @staticmethod
    def zeros(shape, dtype=None):
        if dtype in (None, "float64"): return NP.full(shape, 0.0, dtype)
        return NP.full(shape, 0, dtype)

def run(red, N, G, kind="f"):
    rt = RT()
    shim = {"is_null": is_null_shim, "np": NP}
    gbr = convert(nf._group_by_reduce.py_func, rt, shim)
    redf = convert(getattr(nf.ScalarFuncs, red).py_func, rt, shim)
    keys = [z3.Int(f"k{i}") for i in range(N)]
    pre = [z3.And(k >= -1, k < G) for k in keys]
    if kind == "f":
        vals = [SF(z3.Bool(f"n{i}"), z3.Real(f"v{i}")) for i in range(N)]
        null = lambda v: v.nan
        init = SF(True, z3.RealVal(0)) if "sum" not in red else SF(False, z3.RealVal(0))
        val_of = lambda v: v.v
    else:
        vals = [z3.Int(f"v{i}") for i in range(N)]
        pre += [z3.And(v >= MIN_INT, v < 2**63) for v in vals]
        null = lambda v: v == MIN_INT
        init = MIN_INT if "sum" not in red else 0
        val_of = lambda v: v
    gk = SArr(list(keys), (N,), 'i'); va = SArr(list(vals), (N,), kind)
    target = SArr([init]*G, (G,), kind)
    t0 = time.time()
    tgt, cnt = gbr(gk, va, target, redf)
    tsym = time.time() - t0
    s = z3.Solver(); s.add(*pre)
    bad = []
    for g in range(G):
        member = [z3.And(keys[i] == g, z3.Not(to_z3_bool(null(vals[i])))) for i in range(N)]
        r = tgt.cells[g]
        cspec = z3.Sum(*[z3.If(m, 1, 0) for m in member])
        none = z3.Not(z3.Or(*member))
        if red in ("nanmax", "nanmin"):
            cmp = (lambda a, b: a >= b) if red == "nanmax" else (lambda a, b: a <= b)
            if kind == "f":
                ok = z3.If(none, to_z3_bool(r.nan),
                           z3.And(z3.Not(to_z3_bool(r.nan)), *[z3.Implies(member[i], cmp(r.v, vals[i].v)) for i in range(N)],
                                  z3.Or(*[z3.And(member[i], r.v == vals[i].v) for i in range(N)])))
            else:
                ok = z3.If(none, r == MIN_INT, z3.And(*[z3.Implies(member[i], cmp(r, vals[i])) for i in range(N)], z3.Or(*[z3.And(member[i], r == vals[i]) for i in range(N)])))
        elif red == "nansum":
            tot = z3.Sum(*[z3.If(member[i], val_of(vals[i]), 0) for i in range(N)])
            ok = z3.And(z3.Not(to_z3_bool(r.nan)), r.v == tot) if kind == "f" else r == tot
        elif red == "first":
            # first non-null member in row order
            conds = []
            for i in range(N):
                earlier = z3.Or(*[member[j] for j in range(i)]) if i else z3.BoolVal(False)
                eq = (z3.And(z3.Not(to_z3_bool(r.nan)), r.v == vals[i].v)) if kind == "f" else r == vals[i]
                conds.append(z3.Implies(z3.And(member[i], z3.Not(earlier)), eq))
            isnull = to_z3_bool(r.nan) if kind == "f" else r == MIN_INT
            ok = z3.And(z3.Implies(none, isnull), *conds)
        bad.append(z3.Not(z3.And(ok, cnt.cells[g] == cspec)))
    s.add(z3.Or(*bad))
    t0 = time.time(); res = s.check(); t1 = time.time()
    print(f"{red:8s} kind={kind} N={N} G={G}: symexec {tsym:.2f}s solve {t1-t0:.2f}s -> {res}", flush=True)
    if str(res) == "sat":
        m = s.model()
        print("  keys", [m.eval(k) for k in keys])
    return res

if __name__ == "__main__":
    for red in ["nanmax", "nanmin", "nansum", "first"]:
        for N, G in [(4, 2), (6, 3), (8, 3)]:
            run(red, N, G, "f")
    for red in ["nanmax", "nansum", "first"]:
        run(red, 6, 3, "i")

import sys, time
sys.path.insert(0, "/tmp/probe")
import z3
from proto import *
from drive2 import NP, is_null_shim, MIN_INT
from groupby_lib.groupby import numba as nf

def run(N, G, W, MP, want_mean=False, masked=True):
    rt = RT()
    shim = {"is_null": is_null_shim, "np": NP}
    k = convert(nf._rolling_sum_or_mean_1d.py_func, rt, shim)
    keys = [z3.Int(f"k{i}") for i in range(N)]
    pre = [z3.And(x >= -1, x < G) for x in keys]
    vals = [SF(z3.Bool(f"n{i}"), z3.Real(f"v{i}")) for i in range(N)]
    mask = [z3.Bool(f"m{i}") for i in range(N)] if masked else None
    t0 = time.time()
    out = k(SArr(list(keys), (N,), 'i'), [SArr(list(vals), (N,), 'f')], G, W, MP, SArr(list(mask), (N,), 'b') if masked else None, SF(True, z3.RealVal(0)), want_mean)
    tsym = time.time() - t0
    s = z3.Solver(); s.add(*pre)
    bad = []
    for i in range(N):
        sel = lambda j: z3.And(keys[j] == keys[i], mask[j] if masked else True)
        live = z3.And(keys[i] >= 0, mask[i] if masked else True)
        inwin = []
        for j in range(i + 1):
            later = z3.Sum(*[z3.If(sel(l), 1, 0) for l in range(j + 1, i + 1)]) if j < i else z3.IntVal(0)
            inwin.append(z3.And(sel(j), later < W))
        nn = [z3.And(inwin[j], z3.Not(vals[j].nan)) for j in range(i + 1)]
        cnt = z3.Sum(*[z3.If(c, 1, 0) for c in nn]) if len(nn) > 1 else z3.If(nn[0], 1, 0)
        tot = z3.Sum(*[z3.If(nn[j], vals[j].v, 0) for j in range(i + 1)]) if len(nn) > 1 else z3.If(nn[0], vals[0].v, 0)
        r = out.cells[i]
        exp_v = tot / z3.ToReal(cnt) if want_mean else tot
        ok = z3.If(z3.And(live, cnt >= MP), z3.And(z3.Not(to_z3_bool(r.nan)), r.v == exp_v), to_z3_bool(r.nan))
        bad.append(z3.Not(ok))
    s.add(z3.Or(*bad))
    t0 = time.time(); res = s.check(); t1 = time.time()
    print(f"rolling_{'mean' if want_mean else 'sum'} N={N} G={G} W={W} MP={MP} masked={masked}: symexec {tsym:.2f}s solve {t1-t0:.2f}s -> {res}; obligations {len(rt.obligations)}", flush=True)
    if str(res) == "sat":
        m = s.model()
        print("   keys", [m.eval(x, True) for x in keys], "nan", [m.eval(v.nan, True) for v in vals], "vals", [m.eval(v.v, True) for v in vals], "mask", [m.eval(x, True) for x in mask] if masked else None)
        print("   out", [(m.eval(to_z3_bool(c.nan), True), m.eval(c.v, True)) for c in out.cells])

run(4, 2, 2, 1)
run(5, 2, 2, 2)
run(6, 2, 2, 1)
run(6, 2, 3, 2)
run(6, 3, 2, 1, want_mean=True)
run(7, 2, 3, 1)

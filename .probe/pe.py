"""Consolidated throw-away probe engine (design validation only).
shadow import of real sources + if-conversion (while, guarded sequences, return-in-loop) + MATH domain."""
import os, ast, sys, inspect, textwrap, functools, importlib, time, itertools
import numpy as real_np
import numba as real_nb
import z3
sys.path.insert(0, "/tmp/probe")
import proto
from proto import SF, UNDEF, Undef, is_sym, to_z3_bool, conc_bool, lift2
from proto2 import RT2, IfConv2, IfConv3, GuardedSeq, Item

MIN_INT = -2**63

_pite = proto.ite
def ite(c, a, b):
    if isinstance(a, (A, SymLen)) or isinstance(b, (A, SymLen)):
        cb = conc_bool(c)
        if cb is True: return a
        if cb is False: return b
        if isinstance(a, Undef): return b
        if isinstance(b, Undef): return a
        if isinstance(a, SymLen) or isinstance(b, SymLen):
            def norm(x, ref):
                if isinstance(x, SymLen): return x
                L = len(ref.arr.cells); pad = [ref.arr.cells[0]] * (L - len(x.cells))
                return SymLen(A(list(x.cells) + pad, x.dtype), len(x.cells))
            a2 = norm(a, b if isinstance(b, SymLen) else a); b2 = norm(b, a if isinstance(a, SymLen) else b)
            return SymLen(ite(c, a2.arr, b2.arr), ite(c, a2.n, b2.n))
        if a.cells is b.cells: return a
        if a.shape != b.shape and a.ndim == 1 and b.ndim == 1:
            L = max(len(a.cells), len(b.cells)); fill = (a.cells + b.cells)[0]
            pa_ = SymLen(A(list(a.cells) + [fill] * (L - len(a.cells)), a.dtype), len(a.cells))
            pb_ = SymLen(A(list(b.cells) + [fill] * (L - len(b.cells)), b.dtype), len(b.cells))
            return SymLen(ite(c, pa_.arr, pb_.arr), ite(c, pa_.n, pb_.n))
        assert a.shape == b.shape
        return A([ite(c, x, y) for x, y in zip(a.cells, b.cells)], a.dtype, a.shape)
    if isinstance(a, tuple) or isinstance(b, tuple):
        cb = conc_bool(c)
        if cb is True: return a
        if cb is False: return b
        if isinstance(a, Undef): return b
        if isinstance(b, Undef): return a
        return tuple(ite(c, x, y) for x, y in zip(a, b))
    return _pite(c, a, b)

class RT3(RT2):
    def cur(self):
        if not self.frames: return self.guards[-1]
        return super().cur()
    def assign(self, old, new):
        # dead-after-return relaxation for scalar locals: ignore the 'returned' flag
        f = self.frames[-1]
        parts = [self.guards[-1]]
        if f.loops: parts.append(self.not_(f.loops[-1]))
        return ite(self.and_all(parts), new, old)
    def do_return(self, v):
        f = self.frames[-1]; g = self.cur()
        f.retval = ite(g, v, f.retval)
        cb = conc_bool(g)
        if cb is True: f.returned = True
        elif cb is None: f.returned = g if conc_bool(f.returned) is False else z3.Or(to_z3_bool(f.returned), g)

RT_ = RT3()

class SymLen:
    """prefix view arr[:n] with symbolic n (only as a returned value)"""
    def __init__(self, arr, n): self.arr = arr; self.n = n

proto.ite = ite          # RT methods look ite up in proto's module namespace

class A:
    """array proxy: concrete shape (1-D or 2-D), numpy dtype, flat cells"""
    def __init__(self, cells, dtype, shape=None):
        self.cells = cells if isinstance(cells, list) else list(cells)
        self.dtype = real_np.dtype(dtype)
        self.shape = tuple(shape) if shape is not None else (len(self.cells),)
        self.kind = self.dtype.kind; self.wrap = None
    @property
    def ndim(self): return len(self.shape)
    def __len__(self): return self.shape[0]
    def __iter__(self):
        if self.ndim == 1: return iter(self.cells)
        return iter([self[r] for r in range(self.shape[0])])
    @property
    def T(self):
        r, c = self.shape
        return A([self.cells[i * c + j] for j in range(c) for i in range(r)], self.dtype, (c, r))
    def _norm(self, i, n):
        if is_sym(i): return z3.If(i < 0, i + n, i)
        return i + n if i < 0 else i
    def load(self, idx):
        if self.ndim == 2 and not isinstance(idx, tuple):
            r, c = self.shape
            if not is_sym(idx):
                i = self._norm(int(idx), r); return A(self.cells[i * c:(i + 1) * c], self.dtype, (c,))
            i = self._norm(idx, r)
            RT_.check("bounds", z3.And(i >= 0, i < r))
            out = []
            for col in range(c):
                e = self.cells[(r - 1) * c + col]
                for row in range(r - 2, -1, -1): e = ite(i == row, self.cells[row * c + col], e)
                out.append(e)
            return A(out, self.dtype, (c,))
        if isinstance(idx, tuple):
            r, c = self.shape; i, j = idx
            flat = self._norm(i, r) * c + self._norm(j, c); n = r * c
        else:
            n = self.shape[0]; flat = self._norm(idx, n)
        if not is_sym(flat):
            if not (0 <= flat < n): RT_.check("bounds", False); return self.cells[0] if self.cells else 0
            return self.cells[flat]
        flat = z3.simplify(flat)
        RT_.check("bounds", z3.And(flat >= 0, flat < n))
        if n == 0: return 0
        e = self.cells[n - 1]
        for k in range(n - 2, -1, -1): e = ite(flat == k, self.cells[k], e)
        return e
    def store(self, idx, val, guard, rt):
        if self.ndim == 2 and not isinstance(idx, tuple):      # row store
            vs = val.cells if isinstance(val, A) else [val] * self.shape[1]
            for col, v in enumerate(vs): self.store((idx, col), v, guard, rt)
            return
        if isinstance(idx, tuple):
            r, c = self.shape; i, j = idx
            flat = self._norm(i, r) * c + self._norm(j, c); n = r * c
        else:
            n = self.shape[0]; flat = self._norm(idx, n)
        if self.kind == 'f': val = SF.of(val)
        if not is_sym(flat):
            if not (0 <= flat < n): rt.obligations.append(("bounds", guard, False)); return
            self.cells[flat] = ite(guard, val, self.cells[flat]); return
        flat = z3.simplify(flat)
        rt.obligations.append(("bounds", guard, z3.And(flat >= 0, flat < n)))
        for k in range(n):
            self.cells[k] = ite(rt.and_all([guard, flat == k]), val, self.cells[k])
    def __getitem__(self, idx):
        if isinstance(idx, slice):
            if is_sym(idx.stop): return SymLen(self, idx.stop)
            assert self.ndim == 1
            if is_sym(idx.start):
                return (GuardedSeq([(self.cells[p], idx.start <= p) for p in range(len(self.cells))]), idx.start)
            return A(self.cells[idx], self.dtype)
        if isinstance(idx, A):
            if idx.dtype.kind == 'b':
                assert all(isinstance(c, bool) for c in idx.cells), "symbolic bool index"
                return A([c for c, m in zip(self.cells, idx.cells) if m], self.dtype)
            return A([self.load(i) for i in idx.cells], self.dtype)
        if isinstance(idx, real_np.ndarray): return A([self.cells[int(i)] for i in idx], self.dtype)
        return self.load(idx)
    def __setitem__(self, idx, val):       # native (glue) stores: guard True
        if idx is None or (isinstance(idx, slice) and idx == slice(None)):
            self.cells[:] = list(val.cells if isinstance(val, A) else [val] * len(self.cells)); return
        if isinstance(idx, A) and idx.dtype.kind in "iu":
            vs = val.cells if isinstance(val, A) else [val] * len(idx.cells)
            for i, v in zip(idx.cells, vs): self.store(i, v, True, RT_)
            return
        if isinstance(idx, A) and idx.dtype.kind == 'b':
            vs = val.cells if isinstance(val, A) else [val] * len(self.cells)
            for j, (m, v) in enumerate(zip(idx.cells, vs)):
                if self.kind == 'f': v = SF.of(v)
                self.cells[j] = ite(m, v, self.cells[j])
            return
        self.store(idx, val, True, RT_)
    def view(self, dt): return A(self.cells, dt, self.shape)
    def astype(self, dt):
        dt = real_np.dtype(dt)
        if dt.kind == 'f' and self.kind != 'f': return A([SF.of(c) for c in self.cells], dt, self.shape)
        return A(list(self.cells), dt, self.shape)
    def copy(self): return A(list(self.cells), self.dtype, self.shape)
    def nonzero(self):
        if all(isinstance(c, bool) for c in self.cells):
            return (A([j for j, c in enumerate(self.cells) if c], "int64"),)
        return (GuardedSeq([(j, c) for j, c in enumerate(self.cells)]),)
    def _ew(self, o, f, dt=None):
        oc = o.cells if isinstance(o, A) else [o] * len(self.cells)
        return A([f(a, b) for a, b in zip(self.cells, oc)], dt or self.dtype, self.shape)
    def __add__(self, o): return self._ew(o, lambda a, b: a + b)
    def __radd__(self, o): return self._ew(o, lambda a, b: b + a)
    def __sub__(self, o): return self._ew(o, lambda a, b: a - b)
    def __lt__(self, o): return self._ew(o, lambda a, b: a < b, "bool")
    def __gt__(self, o): return self._ew(o, lambda a, b: a > b, "bool")
    def __truediv__(self, o): return A([SF.of(a) / SF.of(b) for a, b in zip(self.cells, o.cells)], "float64")

class NPShim:
    ndarray = A
    nan = float("nan"); inf = float("inf")
    def __getattr__(self, name): return getattr(real_np, name)
    def _shape(self, shape):
        if isinstance(shape, (int, real_np.integer)): return (int(shape),)
        return tuple(int(s) for s in shape)
    def full(self, shape, fill, dtype=None):
        shape = self._shape(shape); n = 1
        for s in shape: n *= s
        if dtype is None:
            dtype = "float64" if isinstance(fill, (float, SF)) else ("bool" if isinstance(fill, bool) else "int64")
        dtype = real_np.dtype(dtype)
        if dtype.kind == 'f': fill = SF.of(float(fill) if not isinstance(fill, SF) else fill)
        elif dtype.kind == 'b': fill = bool(fill)
        elif dtype.kind in 'iu' and not is_sym(fill): fill = int(fill)
        elif dtype.kind in 'mM': fill = MIN_INT
        return A([fill] * n, dtype, shape)
    def zeros(self, shape, dtype=None): return self.full(shape, 0, dtype or "float64")
    def empty(self, shape, dtype=None): return self.full(shape, 0, dtype or "float64")
    def zeros_like(self, a, dtype=None): return self.full(a.shape, 0, dtype or a.dtype)
    def array_split(self, arr, n):
        if not isinstance(arr, A): return real_np.array_split(arr, n)
        if isinstance(n, (int, real_np.integer)):
            L = len(arr); q, r = divmod(L, int(n)); sizes = [q + 1] * r + [q] * (int(n) - r)
        else:
            cuts = [0] + [int(x) for x in n] + [len(arr)]; sizes = [b - a for a, b in zip(cuts, cuts[1:])]
        out = []; p = 0
        for s in sizes: out.append(arr[p:p + s]); p += s
        return out
    def asarray(self, x, dtype=None):
        if dtype is not None: return real_np.asarray(x, dtype=dtype)
        if isinstance(x, FakeChunked): return self.concatenate(x.chunks)
        if isinstance(x, (list, tuple)) and x and isinstance(x[0], (SF,)) : return A(list(x), "float64")
        if isinstance(x, (A, SF)) or is_sym(x): return x
        return real_np.asarray(x)
    array = asarray
    def concatenate(self, xs):
        xs = list(xs)
        if not isinstance(xs[0], A): return real_np.concatenate(xs)
        return A([c for x in xs for c in x.cells], xs[0].dtype)
    def isnan(self, x): return x.nan if isinstance(x, SF) else (x != x)
    def where(self, c, a, b):
        n = len(c.cells)
        ac = a.cells if isinstance(a, A) else [a] * n; bc = b.cells if isinstance(b, A) else [b] * n
        return A([ite(cc, x, y) for cc, x, y in zip(c.cells, ac, bc)], (a if isinstance(a, A) else b).dtype)
    def issubdtype(self, a, b): return real_np.issubdtype(a, b)
NP = NPShim()

def shim_enumerate(it, start=0):
    if isinstance(it, tuple) and len(it) == 2 and isinstance(it[0], GuardedSeq):
        gs, s0 = it
        return GuardedSeq([((start + (p - s0), v), g) for p, (v, g) in enumerate(gs.items)])
    if isinstance(it, GuardedSeq):
        raise NotImplementedError("enumerate of guarded seq needs a rank")
    return enumerate(it, start)

_builtin_range = range
def shim_range(*a):
    if not any(is_sym(x) for x in a): return _builtin_range(*a)
    if len(a) == 2 and is_sym(a[0]) and not is_sym(a[1]):
        return GuardedSeq([(j, a[0] <= j) for j in _builtin_range(0, a[1])])      # assumes start >= 0 (obligation)
    raise NotImplementedError("symbolic range")

class KernelObj:
    def __init__(self, pyfunc, ns):
        self.py_func = pyfunc; self.ns = ns; self._conv = None
        functools.update_wrapper(self, pyfunc)
    def __get__(self, obj, typ=None): return self
    def __call__(self, *a, **k):
        if self._conv is None:
            src = textwrap.dedent(inspect.getsource(self.py_func))
            tree = ast.parse(src); tree.body[0] = IfConv3().visit(tree.body[0]); ast.fix_missing_locations(tree)
            g = self.ns; g["__rt"] = RT_; g["__rt_UNDEF"] = UNDEF; g["range"] = shim_range
            loc = {}
            exec(compile(tree, f"<ifconv {self.py_func.__name__}>", "exec"), g, loc)
            self._conv = loc[self.py_func.__name__]
        return self._conv(*a, **k)

class NBShim:
    types = real_nb.types; prange = range; bool_ = bool
    def __init__(self, ns): self._ns = ns
    def njit(self, *a, **k):
        if a and callable(a[0]) and not k: return KernelObj(a[0], self._ns)
        return lambda f: KernelObj(f, self._ns)
    class typed:
        class Dict:
            @staticmethod
            def empty(*a): return {}

class NumbaList(list): pass
OVERLOADS = {}
def overload(target, **kw):
    def deco(t): OVERLOADS.setdefault(target.__name__, []).append(t); return t
    return deco
class _ArrT:
    def __init__(self, dtype): self.dtype = dtype
def nb_type_of(x):
    if isinstance(x, A):
        return _ArrT({'f': real_nb.types.float64, 'i': real_nb.types.int64, 'b': real_nb.types.boolean, 'u': real_nb.types.uint64}[x.kind])
    if isinstance(x, (SF, float)): return real_nb.types.float64
    if isinstance(x, bool) or (is_sym(x) and z3.is_bool(x)): return real_nb.types.boolean
    return real_nb.types.int64
def make_dispatch(name, ns, fallback=None):
    orig = ns[name]
    def dispatch(*args):
        for t in OVERLOADS[name]:
            impl = t(*[nb_type_of(a) for a in args])
            if impl is dispatch: impl = orig
            if impl is not None: return KernelObj(impl, ns)(*args)
        raise TypeError(name)
    return dispatch

class OutsideModel(Exception): pass
class Stub:
    def __init__(self, n): self._n = n
    def __getattr__(self, a): return Stub(self._n + "." + a)
    def __call__(self, *a, **k): raise OutsideModel(self._n)
class _S: pass
class FakeIndex(_S):
    def __init__(self, n): self.n = n; self.names = [None]; self.nlevels = 1
    def __len__(self): return self.n
class FakeChunked(_S):
    def __init__(self, chunks): self.chunks = list(chunks)
    def __len__(self): return sum(len(c) for c in self.chunks)
class FakeSeries(_S):
    def __init__(self, arr=None, index=None, dtype=None, copy=None, name=None): self.arr = arr; self.index = index; self.name = name
    def rename(self, name): self.name = name; return self
class FakeFrame(_S):
    def __init__(self, data=None, copy=None, index=None): self.data = dict(data); self.columns = list(self.data)
    def __getitem__(self, c): return self.data[c]
class PDShim:
    Series = FakeSeries; DataFrame = FakeFrame; Index = FakeIndex
    class Categorical(_S): pass
    class MultiIndex(_S): pass
    class RangeIndex(FakeIndex): pass
    class api:
        class types:
            @staticmethod
            def is_bool_dtype(x): return isinstance(x, A) and x.dtype.kind == 'b'
    def __getattr__(self, a): return Stub("pd." + a)
class PLShim:
    class Series(_S): pass
    class DataFrame(_S): pass
    class LazyFrame(_S): pass
    class DataType(_S): pass
    def __getattr__(self, a): return Stub("pl." + a)
class PAShim:
    ChunkedArray = FakeChunked
    class Array(_S): pass
    @staticmethod
    def chunked_array(chunks): return FakeChunked(chunks)
    def __getattr__(self, a): return Stub("pa." + a)

SHADOW = {}
class ModProxy:
    def __init__(self, ns): self.__dict__ = ns

REAL_OK = {"concurrent.futures", "operator", "os", "functools", "inspect", "typing", "multiprocessing", "collections.abc"}
def resolve_import(node, ns):
    third = {"numpy": NP, "pandas": PDShim(), "polars": PLShim(), "pyarrow": PAShim()}
    if isinstance(node, ast.Import):
        for al in node.names:
            top = al.name
            if top == "numba": ns[al.asname or top] = NBShim(ns)
            elif top in third: ns[al.asname or top] = third[top]
            elif top in REAL_OK:
                importlib.import_module(top); ns[al.asname or top.split(".")[0]] = importlib.import_module(top if al.asname else top.split(".")[0])
            else: raise ImportError(top)
        return
    mod = ("." * node.level) + (node.module or "")
    for al in node.names:
        name, asn = al.name, al.asname or al.name
        if mod in REAL_OK: ns[asn] = getattr(importlib.import_module(mod), name)
        elif mod == "numba.typed" and name == "List": ns[asn] = NumbaList
        elif mod == "numba.core.extending" and name == "overload": ns[asn] = overload
        elif mod.startswith("pandas."): ns[asn] = Stub(mod + "." + name)
        elif mod in ("..util", "groupby_lib.util", ".util"): ns[asn] = SHADOW["util"][name]
        elif mod == ".factorization": ns[asn] = SHADOW["factorization"][name]
        elif mod == "." and name == "numba": ns[asn] = ModProxy(SHADOW["gbnumba"])
        elif mod == ".." and name == "nanops": ns[asn] = None
        else: raise ImportError(f"{mod}:{name}")

def shadow_import(path, key):
    tree = ast.parse(open(path).read())
    ns = {"__name__": "shadow." + key, "__builtins__": __builtins__}
    SHADOW[key] = ns
    body = []
    for node in tree.body:
        if isinstance(node, (ast.Import, ast.ImportFrom)): resolve_import(node, ns)
        else: body.append(node)
    tree.body = body
    for n in ast.walk(tree):
        if isinstance(n, (ast.FunctionDef, ast.AsyncFunctionDef)):
            n.returns = None
            for a in n.args.args + n.args.kwonlyargs + n.args.posonlyargs + [x for x in (n.args.vararg, n.args.kwarg) if x]:
                a.annotation = None
    class StripAnn(ast.NodeTransformer):
        def visit_AnnAssign(self, node):
            if node.value is None: return None
            return ast.copy_location(ast.Assign(targets=[node.target], value=node.value), node)
    tree = StripAnn().visit(tree); ast.fix_missing_locations(tree)
    ns["enumerate"] = shim_enumerate
    exec(compile(tree, path, "exec"), ns)
    return ns

def load(which=("util", "gbnumba", "factorization", "core", "emas", "nanops")):
    util = shadow_import(os.environ.get("REPO_ROOT", "/repo") + "/groupby_lib/util.py", "util")
    util["is_null"] = make_dispatch("is_null", util)
    util["_get_first_non_null"] = make_dispatch("_get_first_non_null", util)
    def _val_to_numpy(val, as_list=False):
        if isinstance(val, FakeChunked): return NumbaList(val.chunks) if as_list else NP.concatenate(val.chunks)
        if isinstance(val, NumbaList): return val if as_list else val[0]
        return NumbaList([val]) if as_list else val
    util["_val_to_numpy"] = _val_to_numpy
    util["parallel_map"] = lambda func, arg_list, **kw: [func(*a) for a in list(arg_list)]
    out = {"util": util}
    paths = {"gbnumba": "groupby/numba.py", "factorization": "groupby/factorization.py", "core": "groupby/core.py", "emas": "emas.py", "nanops": "nanops.py"}
    for k in which:
        if k == "util": continue
        out[k] = shadow_import(os.environ.get("REPO_ROOT", "/repo") + "/groupby_lib/" + paths[k], k)
    return out

def same(a, b):
    if isinstance(a, SF) or isinstance(b, SF): return SF.of(a).same(b)
    return a == b

def zb(x): return x if is_sym(x) else z3.BoolVal(bool(x))

def discharge(pre, rt=RT_, label=""):
    """check all side obligations collected so far; returns (n, failed list)"""
    failed = []
    for kind, g, c in rt.obligations:
        s = z3.Solver(); s.add(*pre); s.add(zb(g) if not isinstance(g, bool) else z3.BoolVal(g)); s.add(z3.Not(zb(to_z3_bool(c)) if not isinstance(c, bool) else z3.BoolVal(c)))
        if str(s.check()) != "unsat": failed.append(kind)
    n = len(rt.obligations); rt.obligations.clear()
    return n, failed


# ---------------------------------------------------------------- forking for symbolic branches in native glue
class FC:
    decisions = []; pos = 0; pc = []; pending = []
_orig_bool = z3.ExprRef.__bool__
def _fork_bool(self):
    try:
        return _orig_bool(self)
    except z3.Z3Exception:
        pass
    s = z3.simplify(self)
    if z3.is_true(s): return True
    if z3.is_false(s): return False
    if FC.pos < len(FC.decisions): d = FC.decisions[FC.pos]
    else:
        d = True; FC.decisions.append(True); FC.pending.append(FC.decisions[:-1] + [False])
    FC.pos += 1
    FC.pc.append(self if d else z3.Not(self))
    return d
z3.ExprRef.__bool__ = _fork_bool

def run_paths(fn):
    work = [[]]; out = []
    while work:
        dec = work.pop()
        FC.decisions = list(dec); FC.pos = 0; FC.pc = []; FC.pending = []
        r = fn()
        out.append((list(FC.pc), r))
        work.extend(FC.pending)
    return out

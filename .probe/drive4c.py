import sys, time
sys.path.insert(0, "/tmp/probe")
import z3
import proto
from proto import *
from drive2 import NP, is_null_shim
from groupby_lib.groupby import numba as nf

def build(N, G, W, MP, masked, wrap16):
    rt = RT()
    class NP2(NP):
        @staticmethod
        def full(shape, fill, dtype=None):
            a = NP.full(shape, fill, dtype)
            if not wrap16: a.wrap = None
            return a
        @staticmethod
        def zeros(shape, dtype=None):
            a = NP.zeros(shape, dtype)
            if not wrap16: a.wrap = None
            return a
    shim = {"is_null": is_null_shim, "np": NP2}
    k = convert(nf._rolling_sum_or_mean_1d.py_func, rt, shim)
    keys = [z3.Int(f"k{i}") for i in range(N)]
    pre = [z3.And(x >= -1, x < G) for x in keys]
    vals = [SF(z3.Bool(f"n{i}"), z3.Real(f"v{i}")) for i in range(N)]
    mask = [z3.Bool(f"m{i}") for i in range(N)] if masked else None
    out = k(SArr(list(keys), (N,), 'i'), [SArr(list(vals), (N,), 'f')], G, W, MP, SArr(list(mask), (N,), 'b') if masked else None, SF(True, z3.RealVal(0)), False)
    bad = []
    for i in range(N):
        sel = lambda j: z3.And(keys[j] == keys[i], mask[j] if masked else True)
        live = z3.And(keys[i] >= 0, mask[i] if masked else True)
        inwin = []
        for j in range(i + 1):
            later = z3.Sum(*[z3.If(sel(l), 1, 0) for l in range(j + 1, i + 1)]) if j < i else z3.IntVal(0)
            inwin.append(z3.And(sel(j), later < W))
        nn = [z3.And(inwin[j], z3.Not(vals[j].nan)) for j in range(i + 1)]
        cnt = z3.Sum(*[z3.If(c, 1, 0) for c in nn]) if len(nn) > 1 else z3.If(nn[0], 1, 0)
        tot = z3.Sum(*[z3.If(nn[j], vals[j].v, 0) for j in range(i + 1)]) if len(nn) > 1 else z3.If(nn[0], vals[0].v, 0)
        r = out.cells[i]
        ok = z3.If(z3.And(live, cnt >= MP), z3.And(z3.Not(to_z3_bool(r.nan)), r.v == tot), to_z3_bool(r.nan))
        bad.append(z3.Not(ok))
    return pre, bad

N = int(sys.argv[1]); masked = sys.argv[2] == "m"; wrap16 = sys.argv[3] == "w"; mode = sys.argv[4]
pre, bad = build(N, 2, 2, 1, masked, wrap16)
if mode == "one":
    s = z3.Solver(); s.set("timeout", 120000); s.add(*pre); s.add(z3.Or(*bad))
    t0 = time.time(); r = s.check(); print(f"N={N} masked={masked} wrap={wrap16} one-query: {r} {time.time()-t0:.2f}s")
elif mode == "per":
    tot = 0
    for i, b in enumerate(bad):
        s = z3.Solver(); s.set("timeout", 120000); s.add(*pre); s.add(b)
        t0 = time.time(); r = s.check(); dt = time.time() - t0; tot += dt
        print(f"  row {i}: {r} {dt:.2f}s")
    print(f"N={N} masked={masked} wrap={wrap16} per-row total {tot:.2f}s")
elif mode == "smt2":
    s = z3.Solver(); s.add(*pre); s.add(z3.Or(*bad))
    open(f"/tmp/probe/roll_{N}.smt2", "w").write("(set-logic ALL)\n" + s.sexpr() + "\n(check-sat)\n")

"""Replays on the real, numba-compiled groupby_lib (a fresh, non-forked process):
  python -m gbverif.replay <violation.json>            re-run one saved counterexample
  python -m gbverif.replay --batch in.json out.json    replay candidates found by the solver
  python -m gbverif.replay --validate PROP SEED TIER out.json   translator validation"""
import importlib
import json
import sys
import traceback


def _mod(prop):
    return importlib.import_module(f"gbverif.props.{prop.lower()}")


def main(argv):
    if argv and argv[0] == "--batch":
        data = json.load(open(argv[1]))
        mod = _mod(data["prop"])
        out = []
        for c in data["candidates"]:
            try:
                viol, detail = mod.replay(c["case"], c["inputs"], c) if mod.replay.__code__.co_argcount >= 3 else mod.replay(c["case"], c["inputs"])
                out.append({"violates": bool(viol), "detail": detail})
            except Exception as e:      # noqa: BLE001
                out.append({"violates": False, "detail": f"replay crashed: {type(e).__name__}: {e}\n{traceback.format_exc()[-800:]}", "crashed": True})
        from .harness import jsonable
        json.dump(jsonable(out), open(argv[2], "w"))
        return 0
    if argv and argv[0] == "--validate":
        prop, seed, tier, outp = argv[1], int(argv[2]), argv[3], argv[4]
        mod = _mod(prop)
        from .harness import jsonable
        try:
            from .shadow import Engine
            r = mod.validate(Engine(), seed, tier)
        except Exception as e:      # noqa: BLE001
            r = {"cases": 0, "mismatches": [], "error": f"translator validation crashed: {type(e).__name__}: {e}\n{traceback.format_exc()[-1200:]}"}
        json.dump(jsonable(r), open(outp, "w"))
        return 0
    if not argv:
        print(__doc__)
        return 2
    data = json.load(open(argv[0]))
    mod = _mod(data["property"])
    cand = {"kind": data.get("kind"), "labels": data.get("labels")}
    viol, detail = mod.replay(data["case"], data["inputs"], cand) if mod.replay.__code__.co_argcount >= 3 else mod.replay(data["case"], data["inputs"])
    print(json.dumps({"property": data["property"], "query": data.get("query"), "reproduces": bool(viol), "detail": detail}, indent=1, default=str))
    return 1 if viol else 0


if __name__ == "__main__":
    sys.exit(main(sys.argv[1:]))

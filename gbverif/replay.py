"""Replays on the real, numba-compiled groupby_lib (a fresh, non-forked process):
  python -m gbverif.replay <violation.json>            re-run one saved counterexample
  python -m gbverif.replay --batch in.json out.json    replay candidates found by the solver
  python -m gbverif.replay --validate PROP SEED TIER out.json   translator validation"""
import importlib
import json
import sys
import traceback


def _mod(prop):
    return importlib.import_module(f"gbverif.props.{prop.lower()}")


def force_pyfunc():
    """GBVERIF_PYFUNC=1: run the library's array kernels as their own Python source (dispatcher.py_func) so that an
    out-of-bounds access - undefined behaviour in the compiled code - raises IndexError.  Scalar reducers stay compiled."""
    import functools
    from numba.core.dispatcher import Dispatcher

    def mk(d):
        def w(*a, **k):
            return d.py_func(*a, **k)
        functools.update_wrapper(w, d.py_func)
        w.py_func = d.py_func
        return w
    mods = [importlib.import_module(m) for m in ("groupby_lib.util", "groupby_lib.groupby.numba", "groupby_lib.emas", "groupby_lib.nanops",
                                                 "groupby_lib.groupby.factorization", "groupby_lib.groupby.core")]
    cache = {}
    for mod in mods:
        for name, obj in list(vars(mod).items()):
            if isinstance(obj, Dispatcher):
                cache.setdefault(id(obj), mk(obj))
                setattr(mod, name, cache[id(obj)])
            elif isinstance(obj, type) and obj.__module__ == mod.__name__ and obj.__name__ != "ScalarFuncs" and obj.__name__ != "NumbaReductionOps":
                for an, av in list(vars(obj).items()):
                    inner = av.__func__ if isinstance(av, staticmethod) else av
                    if isinstance(inner, Dispatcher):
                        cache.setdefault(id(inner), mk(inner))
                        setattr(obj, an, staticmethod(cache[id(inner)]))


def main(argv):
    import os
    if os.environ.get("GBVERIF_PYFUNC") == "1":
        force_pyfunc()
    if argv and argv[0] == "--batch":
        data = json.load(open(argv[1]))
        mod = _mod(data["prop"])
        out = []
        for c in data["candidates"]:
            try:
                viol, detail = mod.replay(c["case"], c["inputs"], c) if mod.replay.__code__.co_argcount >= 3 else mod.replay(c["case"], c["inputs"])
                out.append({"violates": bool(viol), "detail": detail})
            except Exception as e:      # noqa: BLE001
                out.append({"violates": False, "detail": f"replay crashed: {type(e).__name__}: {e}\n{traceback.format_exc()[-800:]}", "crashed": True})
        from .harness import jsonable
        json.dump(jsonable(out), open(argv[2], "w"))
        return 0
    if argv and argv[0] == "--validate":
        prop, seed, tier, outp = argv[1], int(argv[2]), argv[3], argv[4]
        mod = _mod(prop)
        from .harness import jsonable
        try:
            from .shadow import Engine
            r = mod.validate(Engine(), seed, tier)
        except Exception as e:      # noqa: BLE001
            r = {"cases": 0, "mismatches": [], "error": f"translator validation crashed: {type(e).__name__}: {e}\n{traceback.format_exc()[-1200:]}"}
        json.dump(jsonable(r), open(outp, "w"))
        return 0
    if not argv:
        print(__doc__)
        return 2
    data = json.load(open(argv[0]))
    mod = _mod(data["property"])
    cand = {"kind": data.get("kind"), "labels": data.get("labels")}
    viol, detail = mod.replay(data["case"], data["inputs"], cand) if mod.replay.__code__.co_argcount >= 3 else mod.replay(data["case"], data["inputs"])
    print(json.dumps({"property": data["property"], "query": data.get("query"), "reproduces": bool(viol), "detail": detail}, indent=1, default=str))
    return 1 if viol else 0


if __name__ == "__main__":
    sys.exit(main(sys.argv[1:]))

"""Models of numpy / numba / pandas / pyarrow / polars / concurrent.futures seen by the shadow-imported code."""
import ast
import functools
import itertools
import math
import numpy as real_np
import numba as real_nb
import z3
from .values import (SF, UNDEF, Unsupported, OutsideModel, MIN_INT, is_sym, conc_bool, b_and, b_or, b_not, ite,
                     isnan, sym_abs, to_z3_bool)
from .runtime import current, GuardedSeq, RTProxy
from .values import to_real as to_real_
from .symarray import A, SymLen, coerce, fdiv, fsqrt
from . import ifconv

_builtin_range = range
_builtin_enumerate = enumerate
_builtin_abs = abs
_builtin_min = min
_builtin_max = max
_builtin_int = int


# ------------------------------------------------------------------ builtins seen by shadow code
def shim_range(*a):
    if not any(is_sym(x) for x in a):
        return _builtin_range(*[_builtin_int(x) for x in a])
    if len(a) == 2 and is_sym(a[0]) and not is_sym(a[1]):
        current().check("range_start_nonneg", a[0] >= 0)
        return GuardedSeq([(j, a[0] <= j) for j in _builtin_range(0, _builtin_int(a[1]))])
    raise Unsupported("range with symbolic stop/step")


def shim_enumerate(it, start=0):
    if isinstance(it, GuardedSeq):
        if it.start is None:
            raise Unsupported("enumerate of a guarded sequence without a rank")
        return GuardedSeq([((start + (p - it.start), v), g) for p, (v, g) in _builtin_enumerate(it.items)])
    return _builtin_enumerate(it, start)


def shim_abs(x):
    return sym_abs(x)


def shim_int(x=0, *a):
    if is_sym(x):
        if z3.is_int(x):
            from .runtime import FC, concretize
            if FC.active and not current().frames:
                # int() in glue produces a real Python number (it goes into slice(), range(), sizes): one path per possible value
                return concretize(x, -64, 64)
            return x
        return SF(False, x).to_int() if z3.is_real(x) else z3.If(x, z3.IntVal(1), z3.IntVal(0))
    if isinstance(x, SF):
        return x.to_int()
    return _builtin_int(x, *a)


def shim_min(*a, **k):
    if len(a) > 1 and any(is_sym(x) for x in a):
        acc = a[0]
        for x in a[1:]:
            acc = ite(x < acc, x, acc)
        return acc
    return _builtin_min(*a, **k)


def shim_max(*a, **k):
    if len(a) > 1 and any(is_sym(x) for x in a):
        acc = a[0]
        for x in a[1:]:
            acc = ite(x > acc, x, acc)
        return acc
    return _builtin_max(*a, **k)


# ------------------------------------------------------------------ numpy
def _dim(x):
    if is_sym(x):
        sx = z3.simplify(x)
        if z3.is_int_value(sx):
            return sx.as_long()
        rt = current()
        hints = getattr(rt, "size_hints", None)
        if not hints:
            from .runtime import FC, concretize
            if FC.active:
                return concretize(x)             # forking run: one path per size the inputs can produce
            raise Unsupported("array size depends on symbolic data (enumerate what determines it)")
        # the harness knows the size (e.g. number of non-null rows of an enumerated null pattern): checked as an obligation
        rt.check("size_hint", x == hints[0])
        return int(hints[0])
    return int(x)


def _shape(shape):
    if isinstance(shape, (int, real_np.integer)) or is_sym(shape):
        return (_dim(shape),)
    return tuple(_dim(s) for s in shape)


def _infer_dtype(fill):
    if isinstance(fill, real_np.generic):
        return fill.dtype
    if isinstance(fill, (float, SF)):
        return real_np.dtype("float64")
    if isinstance(fill, bool):
        return real_np.dtype("bool")
    if is_sym(fill):
        return real_np.dtype("bool") if z3.is_bool(fill) else (real_np.dtype("float64") if z3.is_real(fill) else real_np.dtype("int64"))
    return real_np.dtype("int64")


def _is_modelled(x):
    return isinstance(x, (A, SF, SymLen, FakeChunked, FakeSeries)) or is_sym(x)


def _contains_modelled(x):
    if _is_modelled(x):
        return True
    if isinstance(x, (list, tuple)):
        return any(_contains_modelled(y) for y in x)
    return False


class _GuardedUfunc:
    """a NumPy ufunc without an element-wise model: usable on concrete metadata; on proxies only the methods modelled here"""
    def __init__(self, name, uf):
        self._name = name
        self._uf = uf

    def _guard(self, what, a, k):
        if any(_contains_modelled(x) for x in a) or any(_contains_modelled(x) for x in k.values()):
            raise Unsupported(f"np.{self._name}{what} on symbolic data (no model)")

    def __call__(self, *a, **k):
        self._guard("", a, k)
        return self._uf(*a, **k)

    def reduceat(self, arr, indices, *a, **k):
        if not isinstance(arr, A):
            self._guard(".reduceat", (arr, indices) + a, k)
            return self._uf.reduceat(arr, indices, *a, **k)
        out_dtype = k.pop("dtype", None)
        if self._name != "add" or a or k or arr.ndim != 1:
            raise Unsupported(f"np.{self._name}.reduceat on symbolic data (no model)")
        if out_dtype is not None:
            arr = arr.astype(out_dtype)
        idx = indices.cells if isinstance(indices, A) else [int(i) for i in real_np.asarray(indices).ravel()]
        if any(is_sym(i) for i in idx):
            raise Unsupported("np.add.reduceat at symbolic offsets")
        idx = [int(i) for i in idx]
        n = len(arr)
        cells = arr.cells
        out = []
        for j, lo in enumerate(idx):
            if not 0 <= lo < n:
                raise IndexError(f"index {lo} out-of-bounds in add.reduceat [0, {n})")
            hi = idx[j + 1] if j + 1 < len(idx) else n
            if lo < hi:
                acc = cells[lo]
                for c in cells[lo + 1:hi]:
                    acc = acc + c
                out.append(acc)
            else:
                out.append(cells[lo])          # NumPy's documented quirk: an empty segment yields arr[lo]
        return A(out, arr.dtype)

    def __getattr__(self, a):
        m = getattr(self._uf, a)
        if callable(m):
            def guarded(*args, **kw):
                self._guard("." + a, args, kw)
                return m(*args, **kw)
            return guarded
        return m


class NPShim:
    ndarray = A
    nan = float("nan")
    inf = float("inf")

    def __getattr__(self, name):
        obj = getattr(real_np, name)
        if isinstance(obj, real_np.ufunc):
            return _GuardedUfunc(name, obj)
        if callable(obj) and not isinstance(obj, type):
            # a numpy function without a model: fine on concrete metadata, but never let a proxy leak into real numpy
            def guarded(*a, **k):
                if any(_contains_modelled(x) for x in a) or any(_contains_modelled(x) for x in k.values()):
                    raise Unsupported(f"np.{name} on symbolic data (no model)")
                return obj(*a, **k)
            guarded.__name__ = name
            return guarded
        return obj

    def full(self, shape, fill, dtype=None):
        shape = _shape(shape)
        n = 1
        for s in shape:
            n *= s
        dtype = real_np.dtype(dtype) if dtype is not None else _infer_dtype(fill)
        return A([fill] * n, dtype, shape)

    def zeros(self, shape, dtype=None):
        dtype = real_np.dtype(dtype if dtype is not None else "float64")
        return self.full(shape, False if dtype.kind == "b" else 0, dtype)

    def ones(self, shape, dtype=None):
        return self.full(shape, 1, dtype or "float64")

    def empty(self, shape, dtype=None):
        """uninitialised memory: arbitrary (fresh symbolic) contents in symbolic runs, zeros in concrete runs"""
        dtype = real_np.dtype(dtype if dtype is not None else "float64")
        shape = _shape(shape)
        n = 1
        for s in shape:
            n *= s
        rt = current()
        if not getattr(rt, "symbolic", True):
            return self.zeros(shape, dtype)
        cells = []
        for _ in _builtin_range(n):
            if dtype.kind == "f":
                cells.append(SF(rt.fresh("gnan", "Bool"), rt.fresh("g", "Real")))
            elif dtype.kind == "b":
                cells.append(rt.fresh("g", "Bool"))
            else:
                v = rt.fresh("g", "Int")
                if dtype.kind in "mM":
                    lo, hi = MIN_INT, 2**63 - 1
                else:
                    info = real_np.iinfo(dtype)
                    lo, hi = int(info.min), int(info.max)
                rt.pre.append(z3.And(v >= lo, v <= hi))
                cells.append(v)
        return A(cells, dtype, shape)

    def zeros_like(self, a, dtype=None):
        return self.zeros(a.shape, dtype or a.dtype)

    def empty_like(self, a, dtype=None):
        return self.empty(a.shape, dtype or a.dtype)

    def full_like(self, a, fill, dtype=None):
        return self.full(a.shape, fill, dtype or a.dtype)

    def ndim(self, x):
        if isinstance(x, A):
            return x.ndim
        if isinstance(x, (SF,)) or is_sym(x):
            return 0
        if isinstance(x, (FakeChunked, FakeSeries)):
            return 1
        return real_np.ndim(x)

    def shape(self, x):
        return x.shape if isinstance(x, A) else real_np.shape(x)

    def array_split(self, arr, n):
        if isinstance(arr, GuardedSeq):
            raise Unsupported("array_split of a data-dependent selection (enumerate the mask)")
        if not isinstance(arr, A):
            return real_np.array_split(arr, n)
        L = len(arr)
        if isinstance(n, (int, real_np.integer)):
            n = int(n)
            if n <= 0:
                raise ValueError("number sections must be larger than 0.")
            q, r = divmod(L, n)
            sizes = [q + 1] * r + [q] * (n - r)
            cuts = list(itertools.accumulate(sizes))[:-1]
        else:
            cc = n.cells if isinstance(n, A) else list(n)
            if any(is_sym(c) for c in cc):
                from .runtime import FC, concretize
                if not FC.active:
                    raise Unsupported("array_split at symbolic offsets")
                cc = [concretize(c, 0, L) for c in cc]
            cuts = [int(c) for c in cc]
        bounds = [0] + cuts + [L]
        return [arr[bounds[i]:bounds[i + 1]] for i in _builtin_range(len(bounds) - 1)]

    def asarray(self, x, dtype=None):
        if isinstance(x, FakeChunked):
            return self.concatenate(x.chunks)
        if isinstance(x, FakeSeries):
            return x.arr
        if isinstance(x, A):
            return x if dtype is None or real_np.dtype(dtype) == x.dtype else x.astype(dtype)
        if isinstance(x, SF) or is_sym(x):
            return x
        if isinstance(x, (list, tuple)) and x and _contains_modelled(x):
            if all(isinstance(y, A) for y in x):
                return self.vstack(list(x))
            dt = real_np.dtype(dtype) if dtype is not None else _infer_dtype(x[0] if not isinstance(x[0], int) or isinstance(x[0], bool) else
                                                                                next((y for y in x if isinstance(y, (SF, float))), x[0]))
            return A(list(x), dt)
        return real_np.asarray(x, dtype=dtype)

    def array(self, x, dtype=None, **kw):
        r = self.asarray(x, dtype)
        return r.copy() if isinstance(r, A) and r is x else r

    def concatenate(self, xs):
        xs = list(xs)
        if not xs or not any(isinstance(x, A) for x in xs):
            return real_np.concatenate(xs)
        xs = [x if isinstance(x, A) else A(list(real_np.asarray(x).tolist()), real_np.asarray(x).dtype) for x in xs]
        dt = xs[0].dtype
        for x in xs[1:]:
            if x.dtype != dt:
                dt = real_np.promote_types(dt, x.dtype)
        return A([c for x in xs for c in x.cells], dt)

    def vstack(self, xs):
        xs = list(xs)
        if not any(isinstance(x, A) for x in xs):
            return real_np.vstack(xs)
        n = len(xs[0])
        dt = xs[0].dtype
        for x in xs[1:]:
            dt = real_np.promote_types(dt, x.dtype)
        return A([c for x in xs for c in x.cells], dt, (len(xs), n))

    def cumsum(self, x, axis=None, dtype=None, out=None):
        if out is not None:
            raise Unsupported("np.cumsum(out=...)")
        if isinstance(x, (list, tuple)) and x and all(isinstance(y, A) and y.ndim == 1 for y in x):
            n = len(x[0])
            if any(len(y) != n for y in x):
                raise ValueError("setting an array element with a sequence (ragged)")
            dt = real_np.result_type(*[y.dtype for y in x])
            x = A([c for y in x for c in y.cells], dt, (len(x), n))
        if isinstance(x, A):
            if dtype is not None:
                x = x.astype(dtype)
            if x.ndim == 1:
                if axis not in (None, 0, -1):
                    raise ValueError("axis out of bounds")
                return x.cumsum()
            if x.ndim == 2:
                r, c = x.shape
                cells = x.cells
                if axis is None:
                    return A(list(cells), x.dtype).cumsum()
                rows = [A(cells[i * c:(i + 1) * c], x.dtype) for i in range(r)]
                if axis in (0, -2):
                    acc = [rows[0]] if r else []
                    for rr in rows[1:]:
                        acc.append(acc[-1] + rr)
                    outrows = acc
                else:
                    outrows = [rr.cumsum() for rr in rows]
                dt = outrows[0].dtype if outrows else x.dtype
                return A([cc for rr in outrows for cc in rr.cells], dt, (r, c))
            raise Unsupported("np.cumsum on > 2 dimensions")
        if isinstance(x, (list, tuple)) and any(is_sym(y) for y in x):
            return A(list(x), "int64").cumsum()
        return real_np.cumsum(x, axis=axis, dtype=dtype)

    def cumprod(self, x):
        if _contains_modelled(x):
            raise Unsupported("cumprod of symbolic data")
        return real_np.cumprod(x)

    def arange(self, *a, **k):
        if any(is_sym(x) for x in a):
            raise Unsupported("arange with symbolic bound")
        r = real_np.arange(*a, **k)
        return A([int(v) for v in r], r.dtype)

    def repeat(self, a, counts):
        cc = counts.cells if isinstance(counts, A) else (list(counts) if not isinstance(counts, (int, real_np.integer)) else counts)
        if isinstance(cc, list):
            if any(is_sym(c) for c in cc):
                raise Unsupported("repeat with symbolic counts (enumerate the codes)")
            cells = a.cells if isinstance(a, A) else list(a)
            out = []
            for c, k in zip(cells, cc):
                out.extend([c] * int(k))
            return A(out, a.dtype if isinstance(a, A) else "int64")
        cells = a.cells if isinstance(a, A) else list(a)
        return A([c for c in cells for _ in _builtin_range(int(cc))], a.dtype if isinstance(a, A) else "int64")

    def isnan(self, x):
        if isinstance(x, A):
            return A([isnan(c) for c in x.cells], "bool", x.shape)
        return isnan(x)

    def where(self, c, a, b):
        if not isinstance(c, A):
            return real_np.where(c, a, b)
        n = c.size
        ac = a.cells if isinstance(a, A) else [a] * n
        bc = b.cells if isinstance(b, A) else [b] * n
        dt = a.dtype if isinstance(a, A) else (b.dtype if isinstance(b, A) else _infer_dtype(a))
        return A([ite(cc, x, y) for cc, x, y in zip(c.cells, ac, bc)], dt, c.shape)

    def exp(self, x):
        return current().model_exp(x) if hasattr(current(), "model_exp") else _no_exp(x)

    def log(self, x):
        return current().model_log(x) if hasattr(current(), "model_log") else _no_log(x)

    def sqrt(self, x):
        if isinstance(x, A):
            return x ** 0.5
        return fsqrt(x)

    def abs(self, x):
        return sym_abs(x)

    def sum(self, x, *a, **k):
        if isinstance(x, A) and (a or k):
            return _np_axis_reduce(x, "sum", *a, **k)
        return x.sum() if isinstance(x, A) else real_np.sum(x, *a, **k)

    def min(self, x, *a, **k):
        return _np_axis_reduce(x, "min", *a, **k) if isinstance(x, A) else real_np.min(x, *a, **k)

    def max(self, x, *a, **k):
        return _np_axis_reduce(x, "max", *a, **k) if isinstance(x, A) else real_np.max(x, *a, **k)

    def mean(self, x, *a, **k):
        return _np_axis_reduce(x, "mean", *a, **k) if isinstance(x, A) else real_np.mean(x, *a, **k)

    amin = min
    amax = max

    def nansum(self, x, *a, **k):
        if isinstance(x, FakeSeries):
            x = x.arr
        if not isinstance(x, A):
            return real_np.nansum(x, *a, **k)
        if a or k:
            raise Unsupported("np.nansum with axis / options on symbolic data")
        from .values import isnan as _isnan, total as _total
        if x.dtype.kind == "f":
            return _total([ite(_isnan(c), 0.0, c) for c in x.cells], 0.0)
        return _total(list(x.cells), 0)          # integers have no NaN: the int64 null sentinel is NOT skipped by NumPy

    def median(self, x, *a, **k):
        if isinstance(x, A):
            raise Unsupported("np.median on symbolic data")
        return real_np.median(x, *a, **k)

    def resize(self, a, new_shape):
        if not isinstance(a, A):
            return real_np.resize(a, new_shape)
        n = _dim(new_shape) if not isinstance(new_shape, (tuple, list)) else _dim(new_shape[0])
        cells = a.cells
        if not cells:
            return self.zeros(n, a.dtype)
        return A([cells[i % len(cells)] for i in _builtin_range(n)], a.dtype)

    def tile(self, a, reps):
        if not isinstance(a, A):
            return real_np.tile(a, reps)
        return A(a.cells * int(reps), a.dtype)

    def append(self, a, values, axis=None):
        if not isinstance(a, A) and not isinstance(values, A):
            return real_np.append(a, values, axis)
        ac = a.cells if isinstance(a, A) else list(real_np.asarray(a).tolist())
        vc = values.cells if isinstance(values, A) else (list(values) if isinstance(values, (list, tuple)) else [values])
        return A(ac + vc, a.dtype if isinstance(a, A) else values.dtype)

    def flip(self, a, axis=None):
        if not isinstance(a, A):
            return real_np.flip(a, axis)
        return a[::-1]

    def maximum(self, a, b):
        if isinstance(a, A):
            return a._ew(b, lambda x, y: ite(_ltv(x, y), y, x), a.dtype)
        if isinstance(b, A):
            return b._ew(a, lambda x, y: ite(_ltv(x, y), y, x), b.dtype)
        if is_sym(a) or is_sym(b) or isinstance(a, SF) or isinstance(b, SF):
            return ite(_ltv(a, b), b, a)
        return real_np.maximum(a, b)

    def minimum(self, a, b):
        if isinstance(a, A):
            return a._ew(b, lambda x, y: ite(_ltv(y, x), y, x), a.dtype)
        if isinstance(b, A):
            return b._ew(a, lambda x, y: ite(_ltv(y, x), y, x), b.dtype)
        if is_sym(a) or is_sym(b) or isinstance(a, SF) or isinstance(b, SF):
            return ite(_ltv(b, a), b, a)
        return real_np.minimum(a, b)

    def sort(self, x, *a, **k):
        """ascending sort of a 1-D array; symbolic cells go through a compare-exchange network (no forking)"""
        if not isinstance(x, A):
            return real_np.sort(x, *a, **k)
        if x.ndim != 1:
            raise Unsupported("np.sort on 2-D")
        cells = list(x.cells)
        if not any(is_sym(c) or isinstance(c, SF) for c in cells):
            return A(sorted(cells), x.dtype)
        if x.kind == "f":
            raise Unsupported("np.sort of symbolic floats (NaN ordering)")
        n = len(cells)
        for i in _builtin_range(n):
            for j in _builtin_range(n - 1 - i):
                a_, b_ = cells[j], cells[j + 1]
                sw = b_ < a_
                cells[j], cells[j + 1] = ite(sw, b_, a_), ite(sw, a_, b_)
        return A(cells, x.dtype)

    def argsort(self, x, *a, **k):
        if isinstance(x, A):
            return x.argsort()
        return real_np.argsort(x, *a, **k)

    def unique(self, x, return_inverse=False, **kw):
        if kw:
            raise Unsupported("np.unique options " + ",".join(kw))
        if isinstance(x, FakeSeries):
            x = x.arr
        if not isinstance(x, A):
            return real_np.unique(x, return_inverse=return_inverse)
        cells = x.cells
        if not any(is_sym(c) or isinstance(c, SF) for c in cells):
            u, inv = real_np.unique(real_np.array(cells), return_inverse=True)
            ua = A([v.item() for v in u], x.dtype)
            return (ua, A([int(i) for i in inv], "int64")) if return_inverse else ua
        if x.dtype.kind == "f":
            raise Unsupported("np.unique of symbolic floats")
        # symbolic integers: the order and the equalities are decided by forking (glue under run_paths)
        uniq = []          # sorted list of representative cells
        ident = []         # per element: the representative it equals
        for c in cells:
            placed = False
            for k_, u in enumerate(uniq):
                if bool(c == u):
                    ident.append(u)
                    placed = True
                    break
                if bool(c < u):
                    uniq.insert(k_, c)
                    ident.append(c)
                    placed = True
                    break
            if not placed:
                uniq.append(c)
                ident.append(c)
        ua = A(list(uniq), x.dtype)
        if not return_inverse:
            return ua
        inv = [next(k_ for k_, u in enumerate(uniq) if u is r) for r in ident]
        return ua, A(inv, "int64")

    def issubdtype(self, a, b):
        return real_np.issubdtype(a, b)

    class _ErrState:
        def __init__(self, **kw): pass
        def __enter__(self): return self
        def __exit__(self, *a): return False

    def errstate(self, **kw):
        return NPShim._ErrState()

    int64 = None   # set below (np.int64 subclass that passes symbolic scalars through)


class _SInt64(real_np.int64):
    def __new__(cls, x=0):
        if is_sym(x) or isinstance(x, SF):
            return coerce(x, real_np.dtype("int64"))
        return real_np.int64(x)


NPShim.int64 = _SInt64


class _SFloat64(real_np.float64):
    def __new__(cls, x=0.0):
        if is_sym(x) or isinstance(x, SF):
            return SF.of(x)
        return real_np.float64(x)


NPShim.float64 = _SFloat64


def _ltv(a, b):
    if isinstance(b, SF) and not isinstance(a, SF):
        return SF.of(a).lt(b)
    return a < b


def _no_exp(x):
    if isinstance(x, (SF, A)) or is_sym(x):
        raise Unsupported("np.exp on symbolic data without an exp model")
    return math.exp(x)


def _no_log(x):
    if isinstance(x, (SF, A)) or is_sym(x):
        raise Unsupported("np.log on symbolic data without a log model")
    return math.log(x)


# ------------------------------------------------------------------ numba
class _ChainNS(dict):
    """module namespace of a shadow module plus the closure variables of one function (globals() of the converted code)"""
    def __init__(self, base, extra):
        dict.__init__(self, extra)
        self._base = base

    def __missing__(self, k):
        return self._base[k]

    def __contains__(self, k):
        return dict.__contains__(self, k) or k in self._base


class KernelObj:
    """stands for an @nb.njit function: lazily if-converts the function's own source and runs it"""
    def __init__(self, pyfunc, shadow):
        self.py_func = pyfunc
        self.shadow = shadow          # ShadowModule
        self._conv = None
        functools.update_wrapper(self, pyfunc)

    def __get__(self, obj, typ=None):
        return self

    def converted(self):
        if self._conv is None:
            sm = self.shadow.engine.module_of(self.py_func)
            node = sm.find_funcdef(self.py_func)
            ns = sm.ns
            clo = getattr(self.py_func, "__closure__", None)
            if clo:
                # an implementation returned by an @overload template may close over values computed from the argument types
                ns = _ChainNS(sm.ns, dict(zip(self.py_func.__code__.co_freevars, [c.cell_contents for c in clo])))
            self._conv = ifconv.convert(node, sm.relpath, ns, None)
            sm.encoded.add(sm.relpath + "::" + self.py_func.__qualname__.replace("<locals>.", ""))
        return self._conv

    def __call__(self, *a, **k):
        # numba dispatches @overload templates on the TYPE of a scalar; terms of the solver carry no machine type, so integer scalars
        # inside a kernel that received an unsigned value array are typed as that array's element type (inherited by nested kernels)
        hint = None
        for x in list(a) + list(k.values()):
            xs = x if isinstance(x, (list, tuple)) else [x]
            for y in xs:
                if isinstance(y, A) and y.dtype.kind == "u":
                    hint = real_nb.from_dtype(y.dtype)
        if hint is None:
            return self.converted()(*a, **k)
        _INT_SCALAR_HINT.append(hint)
        try:
            return self.converted()(*a, **k)
        finally:
            _INT_SCALAR_HINT.pop()


_INT_SCALAR_HINT = []


class NBShim:
    types = real_nb.types
    prange = staticmethod(shim_range)
    bool_ = bool
    int64 = real_nb.int64
    float64 = real_nb.float64

    def __init__(self, shadow):
        self._shadow = shadow

        class typed:
            class Dict:
                @staticmethod
                def empty(key_type=None, value_type=None, *a):
                    return TypedDictModel(key_type, value_type)
            List = NumbaList
        self.typed = typed

    def njit(self, *a, **k):
        if a and callable(a[0]) and not k:
            return KernelObj(a[0], self._shadow)
        return lambda f: KernelObj(f, self._shadow)

    jit = njit

    def __getattr__(self, name):
        return getattr(real_nb, name)


class NumbaList(list):
    pass


def _wrap_to(nbtype, x):
    """a value stored under a numba integer type: silently wrapped to its width (what the typed containers do)"""
    bw = getattr(nbtype, "bitwidth", 64)
    if nbtype is None or bw >= 64 or not (is_sym(x) or isinstance(x, int)):
        return x
    span = 2 ** bw
    lo = -(2 ** (bw - 1)) if getattr(nbtype, "signed", True) else 0
    if is_sym(x):
        return ((x - lo) % span) + lo
    return (int(x) - lo) % span + lo


class TypedDictModel:
    """numba.typed.Dict as an association list of guarded entries: lookups are if-then-else chains over the keys written so far,
    keys and values are wrapped to the declared integer width, reading a missing key is an obligation"""
    def __init__(self, key_type, value_type):
        self.key_type = key_type
        self.value_type = value_type
        self.entries = []          # (key, value, guard) in insertion order; later entries win

    def __len__(self):
        if not self.entries:
            return 0
        if all(conc_bool(g) is True for _, _, g in self.entries) and not any(is_sym(k) for k, _, _ in self.entries):
            return len({k for k, _, _ in self.entries})
        raise Unsupported("len() of a typed dict with symbolic contents")

    def sym_contains(self, k):
        kk = _wrap_to(self.key_type, k)
        return b_or(*[b_and(g, key == kk) for key, _, g in self.entries]) if self.entries else False

    def __contains__(self, k):
        return bool(self.sym_contains(k))

    def __getitem__(self, k):
        kk = _wrap_to(self.key_type, k)
        rt = current()
        rt.check("dict_key", self.sym_contains(k))
        out = 0
        for key, val, g in self.entries:
            out = ite(b_and(g, key == kk), val, out)
        return out

    def store(self, k, v, guard, rt):
        self.entries.append((_wrap_to(self.key_type, k), _wrap_to(self.value_type, v), guard))

    def __setitem__(self, k, v):
        self.store(k, v, True, current())


class _ArrT:
    def __init__(self, dtype):
        self.dtype = dtype
        self.ndim = 1


_NB_OF_KIND = {"f": real_nb.types.float64, "i": real_nb.types.int64, "u": real_nb.types.uint64, "b": real_nb.types.boolean,
               "m": real_nb.types.int64, "M": real_nb.types.int64}


def nb_type_of(x):
    if isinstance(x, A):
        if x.kind == "f" and x.dtype.itemsize == 4:
            return _ArrT(real_nb.types.float32)
        return _ArrT(_NB_OF_KIND[x.kind])
    if isinstance(x, (SF, float)):
        return real_nb.types.float64
    if isinstance(x, bool) or (is_sym(x) and z3.is_bool(x)):
        return real_nb.types.boolean
    if isinstance(x, int) or is_sym(x):
        return _INT_SCALAR_HINT[-1] if _INT_SCALAR_HINT else real_nb.types.int64
    if isinstance(x, real_np.generic):
        return real_nb.typeof(x)
    raise Unsupported(f"numba type of {type(x).__name__}")


class Overloads:
    def __init__(self):
        self.templates = {}

    def overload(self, target, **kw):
        def deco(t):
            self.templates.setdefault(target.__name__, []).append(t)
            return t
        return deco

    def make_dispatch(self, name, shadow):
        orig = shadow.ns[name]
        templates = self.templates.get(name, [])
        cache = {}

        def dispatch(*args):
            for t in templates:
                tys = [nb_type_of(a) for a in args]
                impl = t(*tys)
                if impl is dispatch:
                    impl = orig
                if impl is not None:
                    clo = tuple(repr(c.cell_contents) for c in (getattr(impl, "__closure__", None) or ()))
                    k = id(impl) if impl is orig else (t.__name__, impl.__code__.co_firstlineno, clo)
                    if k not in cache:
                        cache[k] = KernelObj(impl, shadow)
                    return cache[k](*args)
            raise Unsupported(f"no overload of {name} for {[type(a).__name__ for a in args]}")
        dispatch.__name__ = name
        dispatch.__wrapped_generic__ = orig
        return dispatch


# ------------------------------------------------------------------ pandas / pyarrow / polars construction-only fakes
class Stub:
    def __init__(self, n):
        self._n = n

    def __getattr__(self, a):
        if a.startswith("__"):
            raise AttributeError(a)
        return Stub(self._n + "." + a)

    def __call__(self, *a, **k):
        raise OutsideModel(self._n)


class _S:
    pass


class FakeIndex(_S):
    def __init__(self, n=0, names=None):
        self.n = n if isinstance(n, int) else len(n)
        self.names = names or [None]
        self.nlevels = len(self.names)
        self.name = self.names[0]

    def __len__(self):
        return self.n

    def __getitem__(self, i):
        return self

    def equals(self, o):
        return True


class FakeRangeIndex(FakeIndex):
    """pd.RangeIndex: labels start, start+step, ...; start and step may be symbolic integers.  Taking positions gives the labels
    start + step * position (negative positions count from the end, as in pandas)"""
    def __init__(self, start=0, stop=None, step=1, name=None, n=None):
        if n is None:
            if stop is None:
                start, stop = 0, start
            if isinstance(start, int) and isinstance(stop, int) and isinstance(step, int):
                n = len(range(start, stop, step))
            else:
                n = _dim(stop) if isinstance(start, int) and start == 0 and isinstance(step, int) and step == 1 else None
                if n is None:
                    raise OutsideModel("pd.RangeIndex with symbolic bounds")
        FakeIndex.__init__(self, n, [name])
        self.start, self.step = start, step

    def equals(self, o):
        if isinstance(o, FakeRangeIndex):
            return bool(b_and(len(o) == len(self), self.start == o.start, self.step == o.step) if len(self) else len(o) == 0)
        return FakeIndex.equals(self, o)

    def __getitem__(self, k):
        if isinstance(k, (int, real_np.integer)):
            return self.start + self.step * (int(k) + self.n if k < 0 else int(k))
        if isinstance(k, FakeSeries):
            k = k.arr
        if isinstance(k, A) and k.dtype.kind in "iu":
            cur = current()
            cells = []
            for p in k.cells:
                cur.check("bounds", b_and(p >= -self.n, p < self.n))
                cells.append(self.start + self.step * ite(p < 0, p + self.n, p))
            return SymLabelIndex(cells, self.name)
        raise OutsideModel(f"RangeIndex[{type(k).__name__}]")


class SymLabelIndex(FakeIndex):
    """an index whose (integer) labels are terms: what taking symbolic positions from a RangeIndex gives, or pd.Index(int array)"""
    def __init__(self, cells, name=None):
        FakeIndex.__init__(self, len(cells), [name])
        self.cells = list(cells)

    def __getitem__(self, k):
        if isinstance(k, (int, real_np.integer)):
            return self.cells[k]
        raise OutsideModel("indexing an index of symbolic labels")


def _concrete_key(k):
    """a row selector made concrete: ('slice', s) | ('bool', [..]) | ('int', [..]); symbolic booleans fork (glue runs)"""
    if isinstance(k, slice):
        return "slice", k
    if isinstance(k, FakeSeries):
        k = k.arr
    if isinstance(k, A):
        if k.kind == "b":
            return "bool", [bool(c) for c in k.cells]          # bool(z3 term) forks under run_paths
        if any(is_sym(c) for c in k.cells):
            raise Unsupported("symbolic integer row selector on a labelled pandas object")
        return "int", [int(c) for c in k.cells]
    if isinstance(k, (list, real_np.ndarray)):
        arr = real_np.asarray(k)
        return ("bool", [bool(x) for x in arr]) if arr.dtype.kind == "b" else ("int", [int(x) for x in arr])
    raise OutsideModel(f"row selector {type(k).__name__}")


def _select(seq_len, key):
    kind, k = key
    if kind == "slice":
        return list(range(seq_len))[k]
    if kind == "bool":
        if len(k) != seq_len:
            raise IndexError("Boolean index has wrong length")
        return [i for i, b in enumerate(k) if b]
    out = []
    for i in k:
        j = i + seq_len if i < 0 else i
        if not 0 <= j < seq_len:
            raise IndexError("positional indexers are out-of-bounds")
        out.append(j)
    return out


class LIndex(FakeIndex):
    """contract model of a flat pandas Index with concrete, pairwise distinct labels (group labels of a directly constructed state)"""
    def __init__(self, labels, name=None, categorical=False):
        self.categorical = categorical
        self.labels = list(labels)
        self.n = len(self.labels)
        self.names = [name]
        self.nlevels = 1
        self.name = name

    @property
    def dtype(self):
        if self.categorical:
            return PDShim.CategoricalDtype()
        return real_np.dtype("int64") if all(isinstance(x, int) for x in self.labels) else (
            real_np.dtype("float64") if all(isinstance(x, (int, float)) for x in self.labels) else real_np.dtype("O"))

    @property
    def is_monotonic_increasing(self):
        return all(a <= b for a, b in zip(self.labels, self.labels[1:]))

    @property
    def is_monotonic_decreasing(self):
        return all(a >= b for a, b in zip(self.labels, self.labels[1:]))

    @property
    def is_unique(self):
        return len(set(self.labels)) == len(self.labels)

    @property
    def has_duplicates(self):
        return not self.is_unique

    def argsort(self, *a, **k):
        return A([int(i) for i in sorted(range(self.n), key=lambda i: self.labels[i])], "int64")

    def __getitem__(self, k):
        if isinstance(k, (int, real_np.integer)):
            return self.labels[k]
        rows = _select(self.n, _concrete_key(k))
        return LIndex([self.labels[i] for i in rows], self.name, self.categorical)

    def __iter__(self):
        return iter(self.labels)

    def equals(self, o):
        return isinstance(o, LIndex) and o.labels == self.labels

    def locate(self, lab):
        """label lookup the way pandas does it: numbers match numerically, anything else by equality"""
        for i, x in enumerate(self.labels):
            if x == lab and isinstance(x, (int, float)) == isinstance(lab, (int, float)):
                return i
        return None


class FakeChunked(_S):
    def __init__(self, chunks):
        self.chunks = list(chunks)
        self.null_count = 0        # pyarrow counts Arrow nulls; integer codes carry none

    def __len__(self):
        return sum(len(c) for c in self.chunks)

    def to_numpy(self, zero_copy_only=True, **kw):
        parts = [c.arr if hasattr(c, "arr") and not isinstance(c, A) else c for c in self.chunks]
        if not all(isinstance(x, A) for x in parts):
            raise OutsideModel("ChunkedArray.to_numpy on these chunks")
        return A([cell for x in parts for cell in x.cells], parts[0].dtype if parts else "float64")

    @property
    def dtype(self):
        raise AttributeError("dtype")      # pa.ChunkedArray has .type, not .dtype

    @property
    def type(self):
        return self.chunks[0].dtype

    def __getitem__(self, sl):
        if not isinstance(sl, slice):
            raise OutsideModel("ChunkedArray.__getitem__ with non-slice")
        n = len(self)
        start, stop, step = sl.indices(n)
        if step != 1:
            raise OutsideModel("ChunkedArray slice with step")
        out = []
        off = 0
        for c in self.chunks:
            lo = _builtin_max(start - off, 0)
            hi = _builtin_min(stop - off, len(c))
            if hi > lo:
                out.append(c[lo:hi])
            off += len(c)
        if not out:
            out = [self.chunks[0][0:0]]
        return FakeChunked(out)


class FakeSeries(_S):
    def __init__(self, arr=None, index=None, dtype=None, copy=None, name=None):
        if isinstance(arr, FakeSeries):
            arr = arr.arr
        self.arr = arr
        self.index = index
        self.name = name
        self.dtype_arg = dtype

    def __len__(self):
        return len(self.arr)

    @property
    def dtype(self):
        return self.arr.dtype

    @property
    def values(self):
        return self.arr

    def rename(self, name):
        self.name = name
        return self

    def to_numpy(self, *a, **k):
        return self.arr

    def astype(self, dt):
        return FakeSeries(self.arr.astype(dt), self.index, name=self.name)

    def _bin(self, o, f):
        if isinstance(o, FakeSeries) and isinstance(o.index, LIndex) and isinstance(self.index, LIndex) and o.index.labels != self.index.labels:
            # pandas aligns on the union of the labels (sorted when the labels can be compared), missing entries are NaN
            la, lb = list(self.index.labels), list(o.index.labels)
            if len(set(la)) != len(la) or len(set(lb)) != len(lb) or self.arr.dtype.kind not in "fiu" or o.arr.dtype.kind not in "fiu":
                raise OutsideModel("arithmetic between Series with different, non-unique or non-numeric indexes (label alignment)")
            union = la + [x for x in lb if x not in la]
            try:
                union = sorted(union)
            except TypeError:
                pass
            nan = SF.of(float("nan"))
            ca = [SF.of(self.arr.cells[la.index(x)]) if x in la else nan for x in union]
            cb = [SF.of(o.arr.cells[lb.index(x)]) if x in lb else nan for x in union]
            return FakeSeries(f(A(ca, "float64"), A(cb, "float64")), LIndex(union, self.index.name), name=self.name if self.name == o.name else None)
        oa = o.arr if isinstance(o, FakeSeries) else o
        return FakeSeries(f(self.arr, oa), self.index, name=self.name)

    def __add__(self, o): return self._bin(o, lambda a, b: a + b)
    def __sub__(self, o): return self._bin(o, lambda a, b: a - b)
    def __rsub__(self, o): return self._bin(o, lambda a, b: b - a)
    def __mul__(self, o): return self._bin(o, lambda a, b: a * b)
    def __truediv__(self, o): return self._bin(o, lambda a, b: a / b)
    def __rtruediv__(self, o): return self._bin(o, lambda a, b: b / a)
    def __pow__(self, k): return FakeSeries(self.arr ** k, self.index, name=self.name)
    def __floordiv__(self, o):
        """pandas: integer // integer with a zero divisor gives float inf / NaN (0 // 0 = NaN); otherwise the floor quotient.
        A symbolic divisor is a small count: the quotient is a case split over its possible values (division by constants only)."""
        oa = o.arr if isinstance(o, FakeSeries) else o
        if isinstance(oa, A) and oa.dtype.kind in "iu" and self.arr.dtype.kind in "iu" and any(is_sym(c) for c in oa.cells):
            from .values import int_floordiv
            bound = 16
            cells = []
            for a, b in zip(self.arr.cells, oa.cells):
                if not is_sym(b):
                    cells.append(SF.of(int_floordiv(a, int(b))) if int(b) > 0 else (_ for _ in ()).throw(OutsideModel("floor division by a non-positive constant")))
                    continue
                current().check("small_divisor", z3.And(b >= 0, b <= bound))
                q = z3.IntVal(0)
                for k in range(bound, 0, -1):
                    q = z3.If(b == k, int_floordiv(a, k), q)
                zero = b == 0
                a_zero = (a == 0) if is_sym(a) else (a == 0)
                cells.append(SF(b_and(zero, a_zero), to_real_(q), b_and(zero, b_not(a_zero), a > 0), b_and(zero, b_not(a_zero), a < 0)))
            return FakeSeries(A(cells, "float64"), self.index, name=self.name)
        return self._bin(o, lambda a, b: a // b)
    def __gt__(self, o): return self._bin(o, lambda a, b: a > b)
    def __ge__(self, o): return self._bin(o, lambda a, b: a >= b)
    def __lt__(self, o): return self._bin(o, lambda a, b: a < b)
    def __le__(self, o): return self._bin(o, lambda a, b: a <= b)

    def all(self):
        return self.arr.all()

    def isnull(self):
        from .values import isnan as _isnan
        a = self.arr
        if a.dtype.kind != "f":
            if a.dtype.kind in "mM":
                raise OutsideModel("Series.isnull on temporal data")
            return A([False] * len(a), "bool")
        return A([_isnan(c) for c in a.cells], "bool")

    isna = isnull

    def any(self):
        return self.arr.any()

    def __getitem__(self, k):
        if isinstance(self.index, LIndex) and not isinstance(k, slice):
            key = _concrete_key(k)
            if key[0] == "int":
                # pandas >= 3: Series[list of integers] is a LABEL lookup, never positional
                pos = [self.index.locate(i) for i in key[1]]
                if any(p is None for p in pos):
                    raise KeyError(f"{[i for i, p in zip(key[1], pos) if p is None]} not in index")
                return self._rows(pos)
            return self._rows(_select(len(self), key))
        return self.arr[k]

    def _rows(self, pos):
        return FakeSeries(self.arr[real_np.array(pos, dtype=int)], LIndex([self.index.labels[i] for i in pos], self.index.name, self.index.categorical), name=self.name)

    @property
    def iloc(self):
        return _ILoc(self)

    @property
    def loc(self):
        return _Loc(self)

    def __rmul__(self, o): return self._bin(o, lambda a, b: a * b)
    def __radd__(self, o): return self._bin(o, lambda a, b: a + b)

    def sort_index(self, **kw):
        if kw or not isinstance(self.index, LIndex):
            raise OutsideModel("Series.sort_index with options / without a labelled index")
        order = _label_order(self.index.labels)
        return self._rows(order)

    def agg(self, func, *a, **k):
        return _agg_cells(self.arr, func)

    def drop(self, label, **kw):
        if kw or not isinstance(self.index, LIndex):
            raise OutsideModel("Series.drop with options")
        pos = [i for i, lab in enumerate(self.index.labels) if not (lab == label and isinstance(lab, str) == isinstance(label, str))]
        if len(pos) == len(self.index.labels):
            raise KeyError(f"[{label!r}] not found in axis")
        return self._rows(pos)

    def reindex(self, index):
        if not isinstance(self.index, LIndex) or not isinstance(index, LIndex):
            return self
        if index.labels == self.index.labels:
            return FakeSeries(self.arr, index, name=self.name)
        pos = [self.index.locate(lab) for lab in index.labels]
        if any(p is None for p in pos):
            # pandas: labels that are absent become NaN (the result is float64)
            cells = [SF.of(float("nan")) if p is None else SF.of(self.arr.cells[p]) for p in pos]
            return FakeSeries(A(cells, "float64"), LIndex(list(index.labels), index.name, index.categorical), name=self.name)
        return self._rows(pos)


class _ILoc:
    def __init__(self, obj):
        self.obj = obj

    def __getitem__(self, k):
        o = self.obj
        if isinstance(o, FakeFrame):
            if isinstance(k, tuple):
                rows, col = k
                if rows != slice(None) or not isinstance(col, int):
                    raise OutsideModel("DataFrame.iloc with a general 2-D key")
                return o[o.columns[col]]
            if isinstance(k, slice) and isinstance(o.index, LIndex):
                # a slice is a VIEW in pandas: the columns keep sharing their buffers
                idx = o.index[k]
                return FakeFrame({c: FakeSeries((v.arr if isinstance(v, FakeSeries) else v)[k], idx, name=c) for c, v in o.data.items()}, index=idx)
            if not isinstance(o.index, LIndex) and isinstance(k, A) and k.dtype.kind in "iu":
                return o._take(k)
            return o._rows(_select(len(o), _concrete_key(k)))
        if not isinstance(o.index, LIndex):
            return o.arr[k]
        if isinstance(k, slice):
            return FakeSeries(o.arr[k], o.index[k], name=o.name)
        return o._rows(_select(len(o), _concrete_key(k)))


def _label_order(labels):
    if all(isinstance(x, (int, float)) for x in labels) or all(isinstance(x, str) for x in labels):
        return sorted(range(len(labels)), key=lambda i: labels[i])
    raise OutsideModel("sorting an index of mixed label types")


def _agg_cells(arr, func):
    """Series.agg(name) with pandas' skipna=True semantics"""
    from .values import isnan as _isnan
    if func == "sum":
        cells = [ite(_isnan(c), 0.0, c) if arr.dtype.kind == "f" else c for c in arr.cells]
        from .values import total
        return total(cells, 0)
    if func in ("mean", "count"):
        from .values import total
        isn = [(_isnan(c) if arr.dtype.kind == "f" else False) for c in arr.cells]
        cnt = total([ite(n, 0, 1) for n in isn], 0)
        if func == "count":
            return cnt
        sm = total([ite(n, 0.0, c) for n, c in zip(isn, arr.cells)], 0.0)
        return fdiv(sm, cnt)
    if func in ("min", "max"):
        # skipna: NaN cells are skipped, all-NaN (or empty) gives NaN
        cells = [SF.of(c) for c in arr.cells]
        if not cells:
            return SF.of(float("nan"))
        acc = cells[0]
        for c in cells[1:]:
            better = c.lt(acc) if func == "min" else acc.lt(c)
            acc_new = SF(ite(b_and(acc.nan, c.nan), True, False), ite(acc.nan, c.v, ite(c.nan, acc.v, ite(better, c.v, acc.v))))
            acc = acc_new
        return acc
    raise OutsideModel(f"Series.agg({func!r}) on the labelled model")


class _Loc(_ILoc):
    def __setitem__(self, label, value):
        """obj.loc[new label] = value : enlargement by one row (the only label assignment in the sources' margin code)"""
        o = self.obj
        if not isinstance(o.index, LIndex) or not isinstance(label, (str, int, float)):
            raise OutsideModel(".loc assignment on the labelled model needs a scalar label")
        if o.index.locate(label) is not None:
            raise OutsideModel(".loc assignment to an existing label")
        new_index = LIndex(list(o.index.labels) + [label], o.index.name, o.index.categorical)
        if isinstance(o, FakeFrame):
            if isinstance(value, A) and value.ndim == 1 and len(value) == len(o.columns):
                value = FakeSeries(value, LIndex(list(o.columns)))          # positional assignment of an array row
            if not isinstance(value, FakeSeries) or not isinstance(value.index, LIndex) or list(value.index.labels) != list(o.columns):
                raise OutsideModel("row assignment needs a Series indexed by the column names")
            for j, c in enumerate(o.columns):
                v = o.data[c]
                arr = v.arr if isinstance(v, FakeSeries) else v
                o.data[c] = FakeSeries(A(list(arr.cells) + [value.arr.cells[j]], arr.dtype), new_index, name=c)
            o.index = new_index
        else:
            cell = value
            dt = o.arr.dtype if not (o.arr.dtype.kind in "iub" and isinstance(cell, SF)) else real_np.dtype("float64")
            o.arr = A(list(o.arr.cells) + [cell], dt)
            o.index = new_index

    def __getitem__(self, k):
        o = self.obj
        if isinstance(k, (str, int, float)) and not isinstance(k, bool) and isinstance(o.index, LIndex):
            p = o.index.locate(k)
            if p is None:
                raise KeyError(k)
            if isinstance(o, FakeFrame):
                return FakeSeries(A([(o.data[c].arr if isinstance(o.data[c], FakeSeries) else o.data[c]).cells[p] for c in o.columns], "float64"),
                                  LIndex(list(o.columns)), name=k)
            return o.arr.cells[p]
        key = _concrete_key(k)
        if key[0] != "bool":
            raise OutsideModel(".loc with a non-boolean key")
        o = self.obj
        return o._rows(_select(len(o), key))


def _np_plain_reduce(cells, func, kind):
    """NumPy's NON-skipping reductions: a NaN anywhere makes the result NaN (sum, mean, min, max alike)"""
    from .values import isnan as _isnan, total
    if not cells:
        if func == "sum":
            return 0.0 if kind == "f" else 0
        if func == "mean":
            return SF.of(float("nan"))           # numpy: RuntimeWarning, nan
        raise ValueError(f"zero-size array to reduction operation {'minimum' if func == 'min' else 'maximum'} which has no identity")
    if kind != "f":
        if func == "sum":
            return total(list(cells), 0)
        if func == "mean":
            return fdiv(SF.of(total(list(cells), 0)), SF.of(len(cells)))
        acc = cells[0]
        for c in cells[1:]:
            acc = ite(c < acc, c, acc) if func == "min" else ite(acc < c, c, acc)
        return acc
    sfs = [SF.of(c) for c in cells]
    anynan = b_or(*[c.nan for c in sfs])
    if func in ("sum", "mean"):
        v = sfs[0].v
        for c in sfs[1:]:
            v = v + c.v
        if func == "mean":
            v = v / len(sfs)
        return SF(anynan, v)
    v = sfs[0].v
    for c in sfs[1:]:
        v = ite(c.v < v, c.v, v) if func == "min" else ite(v < c.v, c.v, v)
    return SF(anynan, v)


def _np_axis_reduce(x, func, axis=None, **kw):
    if kw:
        raise Unsupported(f"np.{func} with options {sorted(kw)}")
    if any(isinstance(c, SF) and (c.pinf is not False or c.ninf is not False) for c in x.cells):
        raise Unsupported(f"np.{func} over infinities")
    if x.ndim == 1:
        if axis not in (None, 0, -1):
            raise Unsupported("axis out of range")
        return _np_plain_reduce(list(x.cells), func, x.dtype.kind)
    if x.ndim == 2 and axis == 0:
        n, m = x.shape
        dt = x.dtype if func in ("min", "max") or (func == "sum" and x.dtype.kind == "f") else real_np.dtype("float64" if func == "mean" else "int64")
        return A([_np_plain_reduce([x.cells[i * m + j] for i in range(n)], func, x.dtype.kind) for j in range(m)], dt)
    raise Unsupported(f"np.{func} with axis={axis} on a {x.ndim}-D array")


class FakeFrame(_S):
    def to_numpy(self, *a, **k):
        cols = []
        for c in self.columns:
            v = self.data[c]
            cols.append(v.arr if isinstance(v, FakeSeries) else v)
        n = len(self)
        kinds = {c.dtype.kind for c in cols}
        dt = cols[0].dtype if len({c.dtype for c in cols}) == 1 else real_np.dtype("float64")
        if len(kinds) > 1 and not kinds <= set("fiu"):
            raise OutsideModel("DataFrame.to_numpy with mixed kinds")
        cells = []
        for i in range(n):
            for c in cols:
                x = c.cells[i]
                cells.append(SF.of(x) if dt.kind == "f" and not isinstance(x, SF) else x)
        return A(cells, dt, (n, len(cols)))

    def __init__(self, data=None, copy=None, index=None):
        self.data = dict(data)
        self.columns = list(self.data)
        if index is None:
            for v in self.data.values():
                if isinstance(v, FakeSeries) and v.index is not None:
                    index = v.index
                    break
        self.index = index

    def __getitem__(self, c):
        v = self.data[c]
        if isinstance(self.index, LIndex) and not isinstance(v, FakeSeries):
            v = FakeSeries(v, self.index, name=c)
        return v

    def __iter__(self):
        return iter(self.columns)

    def __contains__(self, name):
        return name in self.data

    def sort_index(self, **kw):
        if kw or not isinstance(self.index, LIndex):
            raise OutsideModel("DataFrame.sort_index with options / without a labelled index")
        return self._rows(_label_order(self.index.labels))

    def agg(self, func, *a, **k):
        vals = [_agg_cells(v.arr if isinstance(v, FakeSeries) else v, func) for v in self.data.values()]
        return FakeSeries(A(vals, "float64"), LIndex(list(self.columns)))

    def __truediv__(self, o):
        if not isinstance(o, FakeFrame) or list(o.columns) != list(self.columns):
            raise OutsideModel("frame division needs identically labelled frames")
        return FakeFrame({c: self[c] / o[c] for c in self.columns}, index=self.index)

    @property
    def shape(self):
        return (len(self), len(self.columns))

    def __len__(self):
        return len(next(iter(self.data.values()))) if self.data else 0

    def set_index(self, idx, **kw):
        if kw or not isinstance(idx, FakeIndex) or len(idx) != len(self):
            raise OutsideModel("DataFrame.set_index with anything but an index object of the frame's length")
        return FakeFrame({c: FakeSeries(v.arr if isinstance(v, FakeSeries) else v, idx, name=c) for c, v in self.data.items()}, index=idx)

    def _take(self, k):
        """positional take with an integer array (possibly symbolic positions) on a frame without labelled rows"""
        out = {}
        for c, v in self.data.items():
            arr = v.arr if isinstance(v, FakeSeries) else v
            out[c] = arr[k]
        return FakeFrame(out, index=None)

    def _rows(self, pos):
        if not isinstance(self.index, LIndex):
            raise OutsideModel("row selection on a frame without a labelled index model")
        idx = LIndex([self.index.labels[i] for i in pos], self.index.name, self.index.categorical)
        sel = real_np.array(pos, dtype=int)
        out = {}
        for c in self.columns:
            v = self.data[c]
            arr = v.arr if isinstance(v, FakeSeries) else v
            out[c] = FakeSeries(arr[sel], idx, name=c)
        return FakeFrame(out, index=idx)

    @property
    def iloc(self):
        return _ILoc(self)

    @property
    def loc(self):
        return _Loc(self)


class FakeCategorical(_S):
    def __init__(self, codes, categories):
        self.codes = codes
        self.categories = list(categories.labels) if isinstance(categories, LIndex) else list(categories)

    @classmethod
    def from_codes(cls, codes, categories=None, **kw):
        return cls(codes, categories)


def _make_index(data=None, name=None, **kw):
    """pd.Index(...) : a labelled model for concrete label lists, the length-only model otherwise"""
    if isinstance(data, A) and data.ndim == 1 and not any(is_sym(c) or isinstance(c, SF) for c in data.cells):
        data = list(data.cells)
    if isinstance(data, (list, tuple)) and all(isinstance(x, (str, int, float)) for x in data):
        return LIndex(list(data), name)
    if isinstance(data, A) and data.ndim == 1 and data.dtype.kind in "iu":
        return SymLabelIndex(list(data.cells), name)
    return FakeIndex(data if data is not None else 0)


class _IndexMeta(type):
    def __instancecheck__(cls, obj):
        return isinstance(obj, FakeIndex)

    def __call__(cls, *a, **k):
        return _make_index(*a, **k)


class _IndexFactory(metaclass=_IndexMeta):
    pass


class PDShim:
    Series = FakeSeries
    DataFrame = FakeFrame
    Index = _IndexFactory
    RangeIndex = FakeRangeIndex
    Categorical = FakeCategorical

    class core:
        class base:
            class _POMeta(type):
                def __instancecheck__(cls, obj):
                    return isinstance(obj, (FakeSeries, FakeIndex, FakeFrame, FakeCategorical))

            class PandasObject(metaclass=_POMeta):
                pass

    @staticmethod
    def isna(x):
        from .values import isnan as _isnan
        if isinstance(x, FakeSeries):
            x = x.arr
        if isinstance(x, A):
            if x.dtype.kind == "f":
                return A([_isnan(c) for c in x.cells], "bool")
            if x.dtype.kind in "iub":
                return A([False] * len(x), "bool")
        raise OutsideModel("pd.isna on this kind of object")

    isnull = isna

    class MultiIndex(_S):
        def __init__(self, codes=None, levels=None, names=None, **kw):
            self.codes = codes
            self.levels = levels
            self.names = names

    class CategoricalDtype(_S):
        pass

    class ArrowDtype(_S):
        pass

    class DatetimeIndex(_S):
        pass

    class api:
        class types:
            @staticmethod
            def is_bool_dtype(x):
                if isinstance(x, FakeSeries):
                    x = x.arr
                return isinstance(x, A) and x.dtype.kind == "b"

        class extensions:
            class ExtensionArray(_S):
                pass

            class ExtensionDtype(_S):
                pass

    def __getattr__(self, a):
        if a.startswith("__"):
            raise AttributeError(a)
        return Stub("pd." + a)


class PLShim:
    class Series(_S):
        pass

    class DataFrame(_S):
        pass

    class LazyFrame(_S):
        pass

    class DataType(_S):
        pass

    class Expr(_S):
        pass

    def __getattr__(self, a):
        if a.startswith("__"):
            raise AttributeError(a)
        return Stub("pl." + a)


class _PAArrayBase(_S):
    pass


class FakeArrowInts(_PAArrayBase):
    """the index buffer of a dictionary array"""
    def __init__(self, arr):
        self.arr = arr

    def to_numpy(self, zero_copy_only=True, **kw):
        return self.arr

    def __len__(self):
        return len(self.arr)


class FakeArrowValues(_PAArrayBase):
    """the dictionary of a dictionary array: concrete, pairwise distinct values"""
    def __init__(self, values):
        self.values = list(values)

    def to_pandas(self, types_mapper=None, **kw):
        return list(self.values)

    def to_pylist(self):
        return list(self.values)

    def __len__(self):
        return len(self.values)


class FakeDictArray(_PAArrayBase):
    """contract model of a pyarrow DictionaryArray without nulls: indices (symbolic) into a concrete dictionary"""
    def __init__(self, indices, dictionary):
        self.indices = indices if isinstance(indices, FakeArrowInts) else FakeArrowInts(indices)
        self.dictionary = dictionary if isinstance(dictionary, FakeArrowValues) else FakeArrowValues(dictionary)
        self.null_count = 0

    def __len__(self):
        return len(self.indices)

    def dictionary_encode(self, *a, **k):
        return self                        # already dictionary encoded: pyarrow returns the array unchanged

    def combine_chunks(self):
        return self

    type = "dictionary"


class FakeDictChunked(FakeChunked):
    """contract model of a ChunkedArray of dictionary arrays whose chunks may carry DIFFERENT dictionaries;
    combine_chunks() unifies the dictionaries (values in order of first appearance) and re-maps the indices, as pyarrow does"""
    def __init__(self, chunks):
        self.chunks = list(chunks)
        self.null_count = 0

    @property
    def num_chunks(self):
        return len(self.chunks)

    def chunk(self, i):
        return self.chunks[i]

    @property
    def type(self):
        return "dictionary"

    def dictionary_encode(self, *a, **k):
        return self

    def combine_chunks(self):
        unified = []
        for ch in self.chunks:
            for v in ch.dictionary.values:
                if v not in unified:
                    unified.append(v)
        cells = []
        for ch in self.chunks:
            remap = [unified.index(v) for v in ch.dictionary.values]
            for c in ch.indices.arr.cells:
                e = remap[-1] if remap else 0
                for j in range(len(remap) - 1, -1, -1):
                    e = ite(c == j, remap[j], e)
                cells.append(e)
        return FakeDictArray(A(cells, "int64"), unified)

    def __getitem__(self, sl):
        raise OutsideModel("slicing a dictionary ChunkedArray")


class PAShim:
    ChunkedArray = FakeChunked
    Array = _PAArrayBase
    DictionaryArray = FakeDictArray

    class types:
        @staticmethod
        def is_dictionary(t):
            return isinstance(t, str) and t == "dictionary"

    @staticmethod
    def concat_arrays(arrays, *a, **k):
        arrays = list(arrays)
        if arrays and all(isinstance(x, FakeArrowInts) for x in arrays):
            return FakeArrowInts(A([c for x in arrays for c in x.arr.cells], "int64"))
        raise OutsideModel("pa.concat_arrays on these objects")

    @staticmethod
    def chunked_array(chunks, type=None):
        return FakeChunked(chunks)

    def __getattr__(self, a):
        if a.startswith("__"):
            raise AttributeError(a)
        return Stub("pa." + a)


# ------------------------------------------------------------------ concurrent.futures model
class Schedule:
    """completion order of the futures handed to as_completed: a permutation chooser set by the harness"""
    order = None          # None = submission order; else a tuple giving a permutation of range(k)
    log = []


class _Future:
    def __init__(self, fn, args, kw):
        self._exc = None
        self._res = None
        try:
            self._res = fn(*args, **kw)
        except Exception as e:      # noqa: BLE001 - result() re-raises
            self._exc = e

    def result(self, timeout=None):
        if self._exc is not None:
            raise self._exc
        return self._res


class _Executor:
    def __init__(self, max_workers=None, **kw):
        pass

    def __enter__(self):
        return self

    def __exit__(self, *a):
        return False

    def submit(self, fn, *args, **kw):
        return _Future(fn, args, kw)

    def map(self, fn, *its):
        return [fn(*a) for a in zip(*its)]


def _as_completed(fs, timeout=None):
    fs = list(fs)
    order = Schedule.order
    Schedule.log.append(len(fs))
    if order is None or len(order) != len(fs):
        return iter(fs)
    return iter([fs[i] for i in order])


class _FuturesModel:
    ThreadPoolExecutor = _Executor
    ProcessPoolExecutor = _Executor
    as_completed = staticmethod(_as_completed)


class ConcurrentModel:
    futures = _FuturesModel

"""AST-to-AST if-conversion of a kernel FunctionDef: control flow becomes guarded data flow."""
import ast
import copy
from .values import Unsupported

RT = "__rt"


def _rt_call(attr, *args):
    return ast.Call(func=ast.Attribute(value=ast.Name(id=RT, ctx=ast.Load()), attr=attr, ctx=ast.Load()),
                    args=list(args), keywords=[])


def _lam(body):
    return ast.Lambda(args=ast.arguments(posonlyargs=[], args=[], kwonlyargs=[], kw_defaults=[], defaults=[]), body=body)


def _has_jump(node):
    for n in ast.walk(node):
        if isinstance(n, (ast.Continue, ast.Return, ast.Break, ast.Raise)):
            return True
    return False


class IfConv(ast.NodeTransformer):
    def __init__(self):
        self.counter = 0

    def tmp(self, p):
        self.counter += 1
        return f"__{p}{self.counter}"

    # ------------------------------------------------------------ function
    def convert_function(self, node):
        node = copy.deepcopy(node)
        node.decorator_list = []
        node.returns = None
        allargs = node.args.posonlyargs + node.args.args + node.args.kwonlyargs
        for a in allargs + [x for x in (node.args.vararg, node.args.kwarg) if x]:
            a.annotation = None
        params = {a.arg for a in allargs}
        if node.args.vararg:
            params.add(node.args.vararg.arg)
        if node.args.kwarg:
            params.add(node.args.kwarg.arg)
        assigned = set()
        for n in ast.walk(node):
            if isinstance(n, ast.Name) and isinstance(n.ctx, ast.Store):
                assigned.add(n.id)
            if isinstance(n, (ast.FunctionDef, ast.Lambda, ast.ClassDef, ast.Try, ast.With, ast.Global, ast.Nonlocal,
                              ast.ListComp, ast.DictComp, ast.SetComp, ast.GeneratorExp, ast.Match)) and n is not node:
                raise Unsupported(f"{type(n).__name__} inside kernel {node.name}")
        body = []
        for name in sorted(assigned - params):
            body.append(ast.Assign(targets=[ast.Name(id=name, ctx=ast.Store())], value=ast.Name(id="__rt_UNDEF", ctx=ast.Load())))
        body.append(ast.Expr(_rt_call("enter", ast.Constant(node.name))))
        inner = self.block(node.body)
        # try/finally so that the frame is always popped
        body.append(ast.Try(body=inner + [ast.Return(value=_rt_call("leave"))], handlers=[], orelse=[],
                            finalbody=[ast.Expr(_rt_call("unwind", ast.Constant(node.name)))]))
        node.body = body
        return node

    def block(self, stmts):
        pairs = []
        for s in stmts:
            if isinstance(s, ast.Expr) and isinstance(s.value, ast.Constant) and isinstance(s.value.value, str):
                continue    # docstring
            r = self.visit(s)
            pairs.append((s, r if isinstance(r, list) else ([r] if r is not None else [])))
        return self._wrap_live(pairs) or [ast.Pass()]

    def _wrap_live(self, pairs):
        out = []
        for k, (orig, conv) in enumerate(pairs):
            out.extend(conv)
            if _has_jump(orig) and k + 1 < len(pairs):
                rest = self._wrap_live(pairs[k + 1:])
                out.append(ast.If(test=_rt_call("live"), body=rest or [ast.Pass()], orelse=[]))
                return out
        return out

    # ------------------------------------------------------------ expressions
    def visit_BoolOp(self, node):
        self.generic_visit(node)
        fn = "andl" if isinstance(node.op, ast.And) else "orl"
        return _rt_call(fn, *[_lam(v) for v in node.values])

    def visit_UnaryOp(self, node):
        self.generic_visit(node)
        if isinstance(node.op, ast.Not):
            return _rt_call("not_", node.operand)
        return node

    def visit_IfExp(self, node):
        self.generic_visit(node)
        return _rt_call("ifexp", node.test, _lam(node.body), _lam(node.orelse))

    def visit_Compare(self, node):
        self.generic_visit(node)
        if len(node.ops) == 1:
            if isinstance(node.ops[0], (ast.In, ast.NotIn)):
                # `k in table` must not be coerced to bool by Python: the runtime asks the container
                call = _rt_call("contains", node.comparators[0], node.left)
                return call if isinstance(node.ops[0], ast.In) else _rt_call("notl", call)
            return node
        parts = []
        left = node.left
        for op, right in zip(node.ops, node.comparators):
            parts.append(_lam(ast.Compare(left=left, ops=[op], comparators=[right])))
            left = right
        return _rt_call("andl", *parts)

    def visit_JoinedStr(self, node):
        return ast.Constant("<fstring>")

    def visit_Lambda(self, node):
        raise Unsupported("lambda inside kernel")

    # ------------------------------------------------------------ statements
    def _assign_target(self, tgt, value_expr, how="assign"):
        if isinstance(tgt, ast.Name):
            return [ast.Assign(targets=[ast.Name(id=tgt.id, ctx=ast.Store())],
                               value=_rt_call(how, ast.Name(id=tgt.id, ctx=ast.Load()), value_expr))]
        if isinstance(tgt, ast.Subscript):
            return [ast.Expr(_rt_call("store", self.visit(copy.deepcopy(tgt.value)), self._load(tgt.slice), value_expr))]
        if isinstance(tgt, (ast.Tuple, ast.List)):
            t = self.tmp("t")
            out = [ast.Assign(targets=[ast.Name(id=t, ctx=ast.Store())], value=value_expr)]
            for k, el in enumerate(tgt.elts):
                if isinstance(el, ast.Starred):
                    raise Unsupported("starred assignment")
                out.extend(self._assign_target(el, ast.Subscript(value=ast.Name(id=t, ctx=ast.Load()),
                                                                  slice=ast.Constant(k), ctx=ast.Load()), how))
            return out
        raise Unsupported(f"assignment target {type(tgt).__name__}")

    def _load(self, expr):
        e = copy.deepcopy(expr)
        for n in ast.walk(e):
            if hasattr(n, "ctx"):
                n.ctx = ast.Load()
        return self.visit(e)

    def visit_Assign(self, node):
        val = self.visit(node.value)
        if len(node.targets) == 1:
            return self._assign_target(node.targets[0], val)
        t = self.tmp("m")
        out = [ast.Assign(targets=[ast.Name(id=t, ctx=ast.Store())], value=val)]
        for tg in node.targets:
            out.extend(self._assign_target(tg, ast.Name(id=t, ctx=ast.Load())))
        return out

    def visit_AnnAssign(self, node):
        if node.value is None:
            return None
        return self._assign_target(node.target, self.visit(node.value))

    def visit_AugAssign(self, node):
        val = ast.BinOp(left=self._load(node.target), op=node.op, right=self.visit(node.value))
        return self._assign_target(node.target, val)

    def visit_If(self, node):
        test = self.visit(node.test)
        c = self.tmp("c")
        out = [ast.Assign(targets=[ast.Name(id=c, ctx=ast.Store())], value=_rt_call("cond", test))]

        def arm(stmts, cond_expr):
            body = self.block(stmts)
            return [ast.Try(body=[ast.If(test=_rt_call("push", cond_expr), body=body, orelse=[])], handlers=[], orelse=[],
                            finalbody=[ast.Expr(_rt_call("pop"))])]
        out.extend(arm(node.body, ast.Name(id=c, ctx=ast.Load())))
        if node.orelse:
            out.extend(arm(node.orelse, _rt_call("not_", ast.Name(id=c, ctx=ast.Load()))))
        return out

    def visit_For(self, node):
        if node.orelse:
            raise Unsupported("for-else")
        it = self.visit(node.iter)
        item = self.tmp("it")
        body = self._assign_target(node.target, _rt_call("loop_iter_begin", ast.Name(id=item, ctx=ast.Load())), "assign_iter")
        inner = self.block(node.body)
        body.append(ast.Try(body=inner, handlers=[], orelse=[], finalbody=[ast.Expr(_rt_call("loop_iter_end"))]))
        loop = ast.For(target=ast.Name(id=item, ctx=ast.Store()), iter=_rt_call("iter", it), body=body, orelse=[])
        return [ast.Expr(_rt_call("loop_begin")),
                ast.Try(body=[loop], handlers=[], orelse=[], finalbody=[ast.Expr(_rt_call("loop_end"))])]

    def visit_While(self, node):
        if node.orelse:
            raise Unsupported("while-else")
        test = self.visit(node.test)
        wc = self.tmp("wc")
        w = self.tmp("w")
        body = [ast.Assign(targets=[ast.Name(id=wc, ctx=ast.Store())], value=_rt_call("cond", test)),
                ast.If(test=ast.UnaryOp(op=ast.Not(), operand=_rt_call("while_step", ast.Name(id=wc, ctx=ast.Load()))),
                       body=[ast.Break()], orelse=[])] + self.block(node.body)
        loop = ast.For(target=ast.Name(id=w, ctx=ast.Store()),
                       iter=ast.Call(func=ast.Name(id="__builtin_range", ctx=ast.Load()),
                                     args=[ast.Attribute(value=ast.Name(id=RT, ctx=ast.Load()), attr="unroll", ctx=ast.Load())], keywords=[]),
                       body=body, orelse=[ast.Expr(_rt_call("unwind_check", test))])
        return [ast.Expr(_rt_call("while_begin")),
                ast.Try(body=[loop], handlers=[], orelse=[], finalbody=[ast.Expr(_rt_call("while_end"))])]

    def visit_Continue(self, node):
        return ast.Expr(_rt_call("do_continue"))

    def visit_Break(self, node):
        return ast.Expr(_rt_call("do_break"))

    def visit_Return(self, node):
        v = self.visit(node.value) if node.value else ast.Constant(None)
        return ast.Expr(_rt_call("do_return", v))

    def visit_Assert(self, node):
        return ast.Expr(_rt_call("check", ast.Constant("assert"), self.visit(node.test)))

    def visit_Raise(self, node):
        name = "exc"
        if node.exc is not None:
            e = node.exc.func if isinstance(node.exc, ast.Call) else node.exc
            if isinstance(e, ast.Name):
                name = e.id
        return ast.Expr(_rt_call("do_raise", ast.Constant(name)))

    def visit_Expr(self, node):
        return ast.Expr(self.visit(node.value))

    def visit_Pass(self, node):
        return node

    def visit_Delete(self, node):
        raise Unsupported("del inside kernel")

    def visit_Try(self, node):
        raise Unsupported("try inside kernel")

    def visit_With(self, node):
        raise Unsupported("with inside kernel")


def convert(funcdef, filename, namespace, rt_getter):
    """returns a python function object: the if-converted kernel, executing in `namespace`"""
    conv = IfConv().convert_function(funcdef)
    mod = ast.Module(body=[conv], type_ignores=[])
    ast.fix_missing_locations(mod)
    code = compile(mod, f"<ifconv {filename}:{funcdef.name}>", "exec")
    loc = {}
    g = namespace
    exec(code, g, loc)
    return loc[funcdef.name]

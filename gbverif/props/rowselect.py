"""Harness family for numba._find_nth / _find_first_or_last_n (head, tail, nth positions)."""
import numpy as real_np
import z3
from ..values import is_sym, conc_bool, b_and, b_or, b_not, ite, same, total, Unsupported
from ..symarray import A
from ..harness import jsonable
from .reductions import num, count_true, np_to_cells
from . import common
from . import cumulative as _cum


def case_name(c):
    return f"{c['op']}(n={c['n']})/N={c['N']},G={c['G']}/mask={c['mask']['kind']}"


def build(case, inp):
    N, G = case["N"], case["G"]
    d = {"codes": inp.codes("k", N, G)}
    if case["mask"]["kind"] == "bool_sym":
        d["mask"] = inp.bools("m", N)
    return d


def call(E, case, d):
    nbm = E["gbnumba"]
    codes = A(d["codes"], "int64").tag("input:group_key")
    mask = A(d["mask"], "bool").tag("input:mask") if "mask" in d else None
    G, n = case["G"], case["n"]
    if case["op"] == "nth":
        return nbm["_find_nth"](codes, G, n, mask)
    if case["op"] == "head":
        return nbm["find_first_n"](codes, G, n, mask)
    return nbm["find_last_n"](codes, G, n, mask)


def bads(case, d, out):
    op, N, G, n = case["op"], case["N"], case["G"], case["n"]
    codes = d["codes"]
    sel = d.get("mask", [True] * N)
    bl = []
    if isinstance(out, A):
        shape = out.shape
        res = out.cells
    else:
        res = list(out)
        shape = (G,) if op == "nth" else (G, n)
    exp_shape = (G,) if op == "nth" else (G, n)
    if tuple(shape) != exp_shape:
        return [(f"{op}.shape{tuple(shape)}", True)]
    for g in range(G):
        member = [b_and(sel[i], codes[i] == g) for i in range(N)]
        before = [count_true(member[:i]) for i in range(N)]
        after = [count_true(member[i + 1:]) for i in range(N)]
        if op == "nth":
            cols = [(0, n)]
        else:
            cols = [(c, c if op == "head" else -(n - 1 - c) - 1) for c in range(n)]
        for c, rank in cols:
            r = res[g] if op == "nth" else res[g * n + c]
            if rank >= 0:
                hit = [b_and(member[i], before[i] == rank) for i in range(N)]
            else:
                hit = [b_and(member[i], after[i] == -rank - 1) for i in range(N)]
            okv = ite(b_or(*hit), b_or(*[b_and(hit[i], num(r) == i) for i in range(N)]), num(r) == -1)
            bl.append((f"{op}[g={g},col={c}]", b_not(okv)))
    return bl


def wits(case, d):
    N = case["N"]
    codes = d["codes"]
    out = [("group shorter than n", b_and(codes[0] == 0, *[codes[i] != 0 for i in range(1, N)])),
           ("null-key row between two rows of one group", b_and(codes[0] == 0, codes[1] == -1, codes[2] == 0) if N >= 3 else False),
           ("empty group", b_and(*[codes[i] != 0 for i in range(N)]))]
    if "mask" in d:
        out.append(("masked first row of a group", b_and(codes[0] == 0, b_not(d["mask"][0]), codes[1] == 0, d["mask"][1])))
    return out


def signature(case, labels):
    return f"{case['op']}:n{'<0' if case['n'] < 0 else '>=0'}:mask={case['mask']['kind'] != 'none'}"


def real_call(case, conc):
    import groupby_lib.groupby.numba as rnb
    codes = real_np.array(conc["k"], dtype="int64")
    mask = real_np.array(conc["m"], dtype=bool) if case["mask"]["kind"] == "bool_sym" else None
    G, n = case["G"], case["n"]
    if case["op"] == "nth":
        return rnb._find_nth(codes, G, n, mask)
    if case["op"] == "head":
        return rnb.find_first_n(codes, G, n, mask)
    return rnb.find_last_n(codes, G, n, mask)


def replay(case, conc, cand=None):
    import sys
    me = sys.modules[__name__]
    d = common.concrete_d(me, case, conc)
    try:
        out = real_call(case, conc)
    except Exception as e:      # noqa: BLE001
        return True, f"real call raised {type(e).__name__}: {e}"
    out = real_np.asarray(out)
    o = A(np_to_cells(out), out.dtype, out.shape)
    failed = [lab for lab, b in bads(case, d, o) if conc_bool(b) is True]
    return bool(failed), {"real_output": jsonable(out.tolist()), "failed": failed, "inputs": jsonable(conc)}


def random_concrete(case, rnd):
    N, G = case["N"], case["G"]
    conc = {"k": [rnd.randint(-1, G - 1) for _ in range(N)]}
    if case["mask"]["kind"] == "bool_sym":
        conc["m"] = [rnd.random() < 0.6 for _ in range(N)]
    return conc


def validate_cases(E, cases, seed, n):
    import sys
    return _cum.validate_cases(E, cases, seed, n, fam=sys.modules[__name__])

"""Harness family for numba._find_nth / _find_first_or_last_n (head, tail, nth positions)."""
import numpy as real_np
import z3
from ..values import is_sym, conc_bool, b_and, b_or, b_not, ite, same, total, Unsupported
from ..symarray import A
from ..harness import jsonable
from .reductions import num, count_true, np_to_cells
from . import common
from . import cumulative as _cum


def case_name(c):
    s = f"{c['op']}(n={c['n']})/N={c['N']},G={c['G']}/mask={c['mask']['kind']}"
    if c.get("via"):
        s = f"GroupBy.{s}/{c['via']}" + ("/chunks=" + "+".join(map(str, c["lengths"])) if c.get("lengths") else "")
    return s


def build(case, inp):
    N, G = case["N"], case["G"]
    if case.get("lengths"):
        from .gbcore import ChunkedState
        st = ChunkedState(inp, case["lengths"], [min(L, G) for L in case["lengths"]], G)
        return {"codes": st.global_codes(), "state": st}
    d = {"codes": inp.codes("k", N, G)}
    if case["mask"]["kind"] == "bool_sym":
        d["mask"] = inp.bools("m", N)
    return d


def call_gb(E, case, d):
    """the public GroupBy.head/tail/nth glue on a directly constructed state (contiguous or chunked with per-chunk dictionaries);
    cut: _get_row_selection (the positional take is pandas code) returns the selected positions"""
    from .gbcore import make_gb
    G, n, N = case["G"], case["n"], case["N"]
    if case.get("lengths"):
        st = d["state"]
        gb = make_gb(E, G, chunks=st.chunk_arrays(), pointers=st.pointer_arrays())
    else:
        gb = make_gb(E, G, codes=A(d["codes"], "int64").tag("state:_group_ikey"))
    vals = A([float(i) for i in range(N)], "float64").tag("input:values")
    out = getattr(gb, case["op"])(vals, n, keep_input_index=True)
    arr = out.arr
    shape = getattr(out, "ilocs_shape", None)
    if shape is not None and len(shape) == 2:
        return A(arr.cells, arr.dtype, tuple(shape))
    return arr


def call(E, case, d):
    if case.get("via"):
        return call_gb(E, case, d)
    nbm = E["gbnumba"]
    codes = A(d["codes"], "int64").tag("input:group_key")
    mask = A(d["mask"], "bool").tag("input:mask") if "mask" in d else None
    G, n = case["G"], case["n"]
    if case["op"] == "nth":
        return nbm["_find_nth"](codes, G, n, mask)
    if case["op"] == "head":
        return nbm["find_first_n"](codes, G, n, mask)
    return nbm["find_last_n"](codes, G, n, mask)


def bads(case, d, out):
    op, N, G, n = case["op"], case["N"], case["G"], case["n"]
    codes = d["codes"]
    sel = d.get("mask", [True] * N)
    bl = []
    if isinstance(out, A):
        shape = out.shape
        res = out.cells
    else:
        res = list(out)
        shape = (G,) if op == "nth" else (G, n)
    exp_shape = (G,) if op == "nth" else (G, n)
    if tuple(shape) != exp_shape:
        return [(f"{op}.shape{tuple(shape)}", True)]
    for g in range(G):
        member = [b_and(sel[i], codes[i] == g) for i in range(N)]
        before = [count_true(member[:i]) for i in range(N)]
        after = [count_true(member[i + 1:]) for i in range(N)]
        if op == "nth":
            cols = [(0, n)]
        else:
            cols = [(c, c if op == "head" else -(n - 1 - c) - 1) for c in range(n)]
        for c, rank in cols:
            r = res[g] if op == "nth" else res[g * n + c]
            if rank >= 0:
                hit = [b_and(member[i], before[i] == rank) for i in range(N)]
            else:
                hit = [b_and(member[i], after[i] == -rank - 1) for i in range(N)]
            okv = ite(b_or(*hit), b_or(*[b_and(hit[i], num(r) == i) for i in range(N)]), num(r) == -1)
            bl.append((f"{op}[g={g},col={c}]", b_not(okv)))
    return bl


def wits(case, d):
    N = case["N"]
    codes = d["codes"]
    out = [("group shorter than n", b_and(codes[0] == 0, *[codes[i] != 0 for i in range(1, N)])),
           ("null-key row between two rows of one group", b_and(codes[0] == 0, codes[1] == -1, codes[2] == 0) if N >= 3 else False),
           ("empty group", b_and(*[codes[i] != 0 for i in range(N)]))]
    if "mask" in d:
        out.append(("masked first row of a group", b_and(codes[0] == 0, b_not(d["mask"][0]), codes[1] == 0, d["mask"][1])))
    return out


def signature(case, labels):
    return ("GroupBy." if case.get("via") else "") + f"{case['op']}:n{'<0' if case['n'] < 0 else '>=0'}:mask={case['mask']['kind'] != 'none'}"


def replay_gb(case, conc):
    """real class, same state, public method with keep_input_index=True: the rows returned (index labels = positions) per group"""
    from . import c03 as C3
    G, n, N, op = case["G"], case["n"], case["N"], case["op"]
    if case.get("lengths"):
        loc = [conc[f"l{c}_"] for c in range(len(case["lengths"]))]
        ptr = [conc[f"p{c}_"] for c in range(len(case["lengths"]))]
        codes = [(-1 if x < 0 else p[x]) for l, p in zip(loc, ptr) for x in l]
        gb = C3.real_gb(G, chunks=loc, pointers=ptr)
    else:
        codes = [int(x) for x in conc["k"]]
        gb = C3.real_gb(G, codes=codes)
    vals = real_np.arange(N) * 10.0
    try:
        out = getattr(gb, op)(vals, n, keep_input_index=True)
    except Exception as e:      # noqa: BLE001
        return True, f"real call raised {type(e).__name__}: {e}"
    got = [int(i) for i in out.index]
    exp = []
    for g in range(G):
        rows = [i for i in range(N) if codes[i] == g]
        if op == "head":
            exp += rows[:n] if n > 0 else []
        elif op == "tail":
            exp += rows[len(rows) - n:] if 0 < n <= len(rows) else (rows if n > 0 else [])
        else:
            if -len(rows) <= n < len(rows):
                exp.append(rows[n])
    problems = []
    if sorted(got) != sorted(exp):
        problems.append(f"rows returned {sorted(got)} != rows expected {sorted(exp)}")
    elif got != exp:
        problems.append(f"rows in order {got}, expected group by group {exp}")
    if [float(v) for v in real_np.asarray(out)] != [10.0 * i for i in got]:
        problems.append("values do not belong to the returned index labels")
    return bool(problems), {"problems": problems, "codes": codes, "n": n}


def real_call(case, conc):
    import groupby_lib.groupby.numba as rnb
    codes = real_np.array(conc["k"], dtype="int64")
    mask = real_np.array(conc["m"], dtype=bool) if case["mask"]["kind"] == "bool_sym" else None
    G, n = case["G"], case["n"]
    if case["op"] == "nth":
        return rnb._find_nth(codes, G, n, mask)
    if case["op"] == "head":
        return rnb.find_first_n(codes, G, n, mask)
    return rnb.find_last_n(codes, G, n, mask)


def replay(case, conc, cand=None):
    import sys
    if case.get("via"):
        return replay_gb(case, conc)
    me = sys.modules[__name__]
    d = common.concrete_d(me, case, conc)
    try:
        out = real_call(case, conc)
    except Exception as e:      # noqa: BLE001
        return True, f"real call raised {type(e).__name__}: {e}"
    out = real_np.asarray(out)
    o = A(np_to_cells(out), out.dtype, out.shape)
    failed = [lab for lab, b in bads(case, d, o) if conc_bool(b) is True]
    return bool(failed), {"real_output": jsonable(out.tolist()), "failed": failed, "inputs": jsonable(conc)}


def random_concrete(case, rnd):
    N, G = case["N"], case["G"]
    conc = {"k": [rnd.randint(-1, G - 1) for _ in range(N)]}
    if case["mask"]["kind"] == "bool_sym":
        conc["m"] = [rnd.random() < 0.6 for _ in range(N)]
    return conc


def validate_cases(E, cases, seed, n):
    import sys
    return _cum.validate_cases(E, cases, seed, n, fam=sys.modules[__name__])

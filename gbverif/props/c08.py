"""C08 - cumulative operations are per-group prefix reductions."""
from . import cumulative as F
from . import common

PROP = "C08"


def cases(tier, seed):
    out = []
    N, G = (4, 2) if tier == "quick" else (6, 3)
    dts = ["float64", "int64", "bool", "datetime64[ns]", "timedelta64[ns]", "uint64"] + ([] if tier == "quick" else ["float32", "int32"])
    for op in F.OPS:
        for dt in (dts if op != "cumcount" else ["int64"]):
            if op == "cumsum" and dt.startswith("datetime"):
                continue
            if op in ("cummin", "cummax") and dt == "bool" and False:
                continue
            for mk in ("none", "bool_sym"):
                sk = [True, False] if op == "cumsum" else [True]
                for s in sk:
                    out.append({"op": op, "dtype": dt, "N": N, "G": G, "mask": {"kind": mk}, "skip_na": s,
                                "witness": dt == "float64" and s})
    for op in ("cumsum", "cummax"):
        for comp in ([1, N - 1], [N // 2, N - N // 2], [N - 1, 1]) + (() if tier == "quick" else ([1, 1, N - 2],)):
            for dt in ("float64", "int64"):
                out.append({"op": op, "dtype": dt, "N": N, "G": G, "mask": {"kind": "bool_sym"}, "skip_na": True, "chunks": list(comp)})
    if tier == "thorough":
        for op in ("cumsum", "cummax", "cumcount"):
            out.append({"op": op, "dtype": "float64" if op != "cumcount" else "int64", "N": 8, "G": 3, "mask": {"kind": "none"}, "skip_na": True})
    # the public methods GroupBy.cumsum/cumcount/cummin/cummax on directly constructed states (contiguous; chunked with per-chunk dictionaries)
    for lay in ([None, [2, 2]] if tier == "quick" else [None, [2, 2], [1, 3], [2, 1, 1]]):
        for op in F.OPS:
            for mk in ("none", "bool_sym"):
                for dt in (["int64"] if op == "cumcount" else ["float64", "int64"]):
                    c = {"op": op, "dtype": dt, "N": 4, "G": 2, "mask": {"kind": mk}, "skip_na": True, "via": "GroupBy"}
                    if lay:
                        c["lengths"] = lay
                    out.append(c)
    for c in out:
        c["name"] = F.case_name(c)
    return out


def run_case(E, case):
    return common.run_generic(E, case, PROP, F)


def replay(case, inputs, cand=None):
    return F.replay(case, inputs, cand)


def validate(E, seed, tier):
    return F.validate_cases(E, [c for c in cases("quick", seed) if not c.get("via")], seed, 60 if tier == "quick" else 200)


META = {
    "glue": ['groupby_lib/groupby/numba.py::_apply_cumulative', 'groupby_lib/groupby/numba.py::_build_target_for_groupby', 'groupby_lib/groupby/numba.py::cumcount', 'groupby_lib/groupby/numba.py::cummax', 'groupby_lib/groupby/numba.py::cummin', 'groupby_lib/groupby/numba.py::cumsum'],
    "bounds": {"quick": {"N": 4, "G": 2}, "thorough": {"N": 6, "G": 3, "extra": "N=8 for cumsum/cummax/cumcount float64"}},
    "enumerated": ["dtype", "skip_na", "mask present or not", "the two glue paths of _apply_cumulative (has_null_keys) by fork-and-replay"],
    "symbolic": ["group codes", "values and null flags", "boolean mask bits"],
    "assumptions": ["checked at rows with a non-null key that are selected by the mask (other rows: C05/C06)",
                    "sum of no accepted value is 0; cummin/cummax before the first accepted value is the dtype's null",
                    "skip_na=False is only specified for the running sum (null from the first null on, for dtypes that have a null)",
                    "exact arithmetic for sums; 64-bit wrap-around outside the claim", "NumPy/numba models (DESIGN 3.5)"],
    "outside": ["pandas wrapping in GroupBy._apply_rolling_or_cumulative_func", "N > 6 (8)"],
}

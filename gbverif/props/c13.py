"""C13 - a GroupBy object can be reused: results are history-independent (state-machine steps on directly constructed states)."""
import itertools
import time
import numpy as real_np
import z3
from ..values import SF, MIN_INT, is_sym, conc_bool, b_and, b_or, b_not, ite, same, Unsupported, OutsideModel
from ..symarray import A
from ..models import FakeSeries, FakeChunked, FakeFrame
from ..runtime import run_paths, fresh_runtime, current
from ..harness import Inputs, decide, jsonable, to_float_cells, solve_exists
from .reductions import approx_same, np_to_cells, np_values
from .gbcore import make_gb, ChunkedState, compositions
from .common import MergedRT, fix_nans
from . import c03 as C3

PROP = "C13"
REPS = ("contiguous", "chunked+pointers", "chunked-unified")


# ------------------------------------------------------------------ operations (work on the shadow stub and on the real class alike)
def _arr(x):
    if isinstance(x, FakeSeries):
        return x.arr
    if isinstance(x, FakeFrame):
        return x[x.columns[0]].arr
    return x


def op_sum(gb, v, m, np_=None):
    (res, cnt), = gb._apply_gb_func_across_chunked_group_keys("sum", [v], m)
    return [res[:gb.ngroups], cnt[:gb.ngroups]]


def op_max(gb, v, m, np_=None):
    (res, cnt), = gb._apply_gb_func_across_chunked_group_keys("max", [v], m)
    return [res[:gb.ngroups]]


def op_count_ikey(gb, v, m, np_=None):
    return [gb.count_ikey(m)]


def op_ikey_count_cached(gb, v, m, np_=None):
    return [gb.ikey_count]


def op_transform_sum(gb, v, m, np_=None):
    return [_arr(gb._apply_gb_reduction("sum", v, m, transform=True))]


def op_transform_max(gb, v, m, np_=None):
    return [_arr(gb._apply_gb_reduction("max", v, m, transform=True))]


def op_unify_keep(gb, v, m, np_=None):
    gb._unify_group_key_chunks(keep_chunked=True)
    return []


def op_unify(gb, v, m, np_=None):
    gb._unify_group_key_chunks(keep_chunked=False)
    return []


def op_cumsum(gb, v, m, np_=None):
    return [_arr(gb._apply_rolling_or_cumulative_func("cumsum", v, m, skip_na=True))]


def op_rolling_max(gb, v, m, np_=None):
    return [_arr(gb._apply_rolling_or_cumulative_func("rolling_max", v, m, window=2, min_periods=1))]


def op_has_null_keys(gb, v, m, np_=None):
    return [gb.has_null_keys]


OPS = {"sum": op_sum, "max": op_max, "count_ikey": op_count_ikey, "ikey_count(cached)": op_ikey_count_cached, "transform_sum": op_transform_sum,
       "transform_max": op_transform_max, "unify(keep_chunked)": op_unify_keep, "unify": op_unify, "cumsum": op_cumsum, "rolling_max": op_rolling_max}
CFIRST = ("apply(mask)", "group_sort_indexer", "head", "cumsum", "transform_max", "ema", "unify(keep_chunked)", "count_ikey(mask)")
CSECOND = ("apply", "apply(mask)", "ikey_count", "sum(mask)", "transform_max", "group_sort_indexer", "head", "cumsum")
FIRST = ("sum", "ikey_count(cached)", "transform_sum", "unify(keep_chunked)", "unify", "cumsum", "count_ikey")
SECOND = ("sum", "transform_max", "count_ikey", "cumsum", "rolling_max", "ikey_count(cached)")


def cases(tier, seed):
    out = []
    N, G = (4, 2) if tier == "quick" else (5, 2)
    lays = compositions(N, 2, 2) if tier == "quick" else compositions(N, 3, 2)
    for lengths in lays:
        ln = "+".join(map(str, lengths))
        for keep in (True, False):
            out.append({"kind": "unify_alpha", "lengths": lengths, "N": N, "G": G, "keep": keep,
                        "name": f"unify(keep_chunked={keep}) preserves every row's global code/chunks={ln},G={G}", "witness": True})
        for rep in ("chunked+pointers", "chunked-unified"):
            for op in ("sum", "max", "count_ikey", "transform_sum", "cumsum", "rolling_max"):
                for mk in ("none", "bool_sym"):
                    out.append({"kind": "observer", "rep": rep, "lengths": lengths, "N": N, "G": G, "op": op, "mask": mk,
                                "name": f"{op} on {rep} == on contiguous codes/chunks={ln},G={G}/mask={mk}"})
            for op in ("sum", "count_ikey"):
                # integer positions (repeats, any order, negative): chunked keys must give what contiguous codes give
                out.append({"kind": "observer", "rep": rep, "lengths": lengths, "N": N, "G": G, "op": op, "mask": "fancy", "L": 3,
                            "name": f"{op} on {rep} == on contiguous codes/chunks={ln},G={G}/mask=positions(L=3)"})
            for op in ("sum", "count_ikey", "transform_sum"):
                for sl in ((1, None), (None, -1), (lengths[0], None), (-1, None), (2, 3)):
                    out.append({"kind": "observer", "rep": rep, "lengths": lengths, "N": N, "G": G, "op": op, "mask": "slice", "slice": list(sl),
                                "name": f"{op} on {rep} == on contiguous codes/chunks={ln},G={G}/mask=slice({sl[0]},{sl[1]})"})
    lays2 = lays if tier == "thorough" else lays[:2]
    for lengths in lays2:
        ln = "+".join(map(str, lengths))
        for rep in REPS:
            for a in FIRST:
                for b in SECOND:
                    if rep == "contiguous" and a.startswith("unify"):
                        continue
                    out.append({"kind": "sequence", "rep": rep, "lengths": lengths, "N": N, "G": G, "first": a, "second": b,
                                "name": f"[{a}; {b}] on one object == {b} on a fresh one/{rep} {ln},G={G}", "witness": a == "transform_sum" and b == "sum"})
    if True:
        for lengths in lays[:1]:
            ln = "+".join(map(str, lengths))
            triples = list(itertools.product(("transform_sum", "unify(keep_chunked)", "cumsum"), ("sum", "unify", "ikey_count(cached)"), ("transform_max", "count_ikey", "sum")))
            for a, b, c in (triples if tier == "thorough" else triples[::5]):
                out.append({"kind": "sequence", "rep": "chunked+pointers", "lengths": lengths, "N": N, "G": G, "first": a, "middle": b, "second": c,
                            "name": f"[{a}; {b}; {c}] on one object == {c} on a fresh one/chunked+pointers {ln},G={G}"})
    for rep in (REPS if tier == "thorough" else REPS[1:]):
        for first in CFIRST:
            for second in CSECOND:
                out.append({"kind": "apply_seq", "rep": rep, "N": 4, "G": 2, "first": first, "second": second, "stride": 1 if tier == "thorough" else 4,
                            "name": f"[{first}; {second}] on one object == {second} on a fresh one/{rep}/N=4,G=2/enumerated code sequences, symbolic values"})
    for rep in REPS:
        out.append({"kind": "copy", "rep": rep, "lengths": lays[0], "N": N, "G": G, "name": f"GroupBy(existing) behaves like the original/{rep}"})
    for lengths in lays[:2]:
        ln = "+".join(map(str, lengths))
        for rep in ("chunked+pointers", "chunked-unified"):
            out.append({"kind": "ema", "rep": rep, "lengths": lengths, "N": N, "G": G,
                        "name": f"GroupBy.ema on {rep} == on contiguous codes/chunks={ln},G={G}/all local code sequences and pointer tables"})
    return out


# ------------------------------------------------------------------ symbolic states
def build(case, inp, allow_null=True):
    N, G = case["N"], case["G"]
    st = ChunkedState(inp, case["lengths"], [min(L, G) for L in case["lengths"]], G, allow_null=allow_null)
    d = {"state": st, "codes": st.global_codes()}
    d["v1"] = inp.values("v", N, "float64")
    d["v2"] = inp.values("w", N, "float64")
    d["m1"] = inp.bools("m", N)
    d["m2"] = inp.bools("n", N)
    if case.get("mask") == "fancy":
        d["p"] = inp.ints("p", case["L"], -N, N - 1)
    return d


def state_of(E, case, d, rep=None):
    rep = rep or case.get("rep", "chunked+pointers")
    G = case["G"]
    st = d["state"]
    if rep == "contiguous":
        return make_gb(E, G, codes=A(d["codes"], "int64").tag("state:_group_ikey"))
    if rep == "chunked+pointers":
        return make_gb(E, G, chunks=st.chunk_arrays(), pointers=st.pointer_arrays())
    gl = d["codes"]
    chunks = []
    p = 0
    for L in case["lengths"]:
        chunks.append(A(gl[p:p + L], "int64").tag("state:_group_ikey"))
        p += L
    return make_gb(E, G, chunks=chunks, pointers=None)


def _cells(x):
    if isinstance(x, A):
        return x.cells
    if isinstance(x, FakeChunked):
        return [c for ch in x.chunks for c in ch.cells]
    if isinstance(x, (list, tuple)):
        return list(x)
    return [x]


def _compare(label, outs1, outs2):
    bl = []
    if len(outs1) != len(outs2):
        return [(label + ": different number of outputs", True)]
    for k, (a, b) in enumerate(zip(outs1, outs2)):
        ca, cb = _cells(a), _cells(b)
        if len(ca) != len(cb):
            bl.append((f"{label}: output {k} has a different length", True))
            continue
        for i, (x, y) in enumerate(zip(ca, cb)):
            bl.append((f"{label}[out {k}, cell {i}]", b_not(same(x, y))))
    return bl


def run_case(E, case):
    t0 = time.time()
    if case["kind"] == "ema":
        return run_ema(E, case)
    if case["kind"] == "apply_seq":
        return run_apply_seq(E, case)
    inp = Inputs()
    d = build(case, inp)
    merged = MergedRT()
    bads = []
    paths_all = []

    def V(which):
        return A(d[which], "float64").tag("input:values")

    def M(which, on=True):
        return A(d[which], "bool").tag("input:mask") if on else None

    def collect(paths):
        for pc, _, rt in paths:
            for kind, g_, c_, where in rt.obligations:
                merged.obligations.append((kind, b_and(*pc, g_) if pc else g_, c_, where))
            merged.pre.extend(rt.pre)

    def pair(p1, p2, label):
        for pc1, o1, _ in p1:
            for pc2, o2, _ in p2:
                pcz = b_and(*(pc1 + pc2)) if (pc1 or pc2) else True
                for lab, b in _compare(label, o1, o2):
                    bads.append((lab, b_and(pcz, b)))
    sig_tail = case["kind"]
    try:
        if case["kind"] == "unify_alpha":
            def body():
                gb = state_of(E, case, d, "chunked+pointers")
                gb._unify_group_key_chunks(keep_chunked=case["keep"])
                return [gb._group_ikey, ("chunked" if isinstance(gb._group_ikey, FakeChunked) else "contiguous"), gb._group_key_pointers is None]
            p1 = run_paths(body)
            collect(p1)
            for pc, o, _ in p1:
                pcz = b_and(*pc) if pc else True
                cells = _cells(o[0])
                if len(cells) != case["N"]:
                    bads.append(("row count after unification", pcz))
                    continue
                for i in range(case["N"]):
                    bads.append((f"global code of row {i} preserved", b_and(pcz, b_not(cells[i] == d["codes"][i]))))
                if o[1] != ("chunked" if case["keep"] else "contiguous"):
                    bads.append(("representation after unification", pcz))
        elif case["kind"] == "observer":
            on = case["mask"] == "bool_sym"
            f = OPS[case["op"]]

            def MK():
                if case["mask"] == "slice":
                    return slice(case["slice"][0], case["slice"][1])
                if case["mask"] == "fancy":
                    return A(d["p"], "int64").tag("input:mask")
                return M("m1", on)
            p1 = run_paths(lambda: f(state_of(E, case, d), V("v1"), MK()))
            p2 = run_paths(lambda: f(state_of(E, case, d, "contiguous"), V("v1"), MK()))
            collect(p1)
            collect(p2)
            pair(p1, p2, case["op"])
            sig_tail = f"observer:{case['op']}:{case['rep']}"
        elif case["kind"] == "sequence":
            fa, fb = OPS[case["first"]], OPS[case["second"]]
            fm = OPS[case["middle"]] if case.get("middle") else None

            def used():
                gb = state_of(E, case, d)
                fa(gb, V("v1"), M("m1"))
                if fm:
                    fm(gb, V("v1"), None)
                return fb(gb, V("v2"), M("m2"))

            def fresh():
                return fb(state_of(E, case, d), V("v2"), M("m2"))
            p1 = run_paths(used)
            p2 = run_paths(fresh)
            collect(p1)
            collect(p2)
            pair(p1, p2, case["second"] + " after " + case["first"])
            sig_tail = f"sequence:{case['first']}->{case['second']}:{case['rep']}"
        elif case["kind"] == "copy":
            GB = E["core"]["GroupBy"]

            def copied():
                orig = state_of(E, case, d)
                new = object.__new__(type(orig))
                GB.__init__(new, orig)
                return op_sum(new, V("v1"), M("m1")) + op_count_ikey(new, None, M("m2")) + op_transform_max(new, V("v2"), None)

            def original():
                orig = state_of(E, case, d)
                return op_sum(orig, V("v1"), M("m1")) + op_count_ikey(orig, None, M("m2")) + op_transform_max(orig, V("v2"), None)
            p1 = run_paths(copied)
            p2 = run_paths(original)
            collect(p1)
            collect(p2)
            pair(p1, p2, "copy")
            sig_tail = f"copy:{case['rep']}"
        else:
            raise Unsupported(case["kind"])
    except (Unsupported, OutsideModel):
        raise
    except Exception as e:      # noqa: BLE001 - the code under test raised on a valid state
        res_, m = solve_exists(list(inp.pre) + list(getattr(e, "gb_pc", [])), True)
        return {"verdict": "sat", "solver_s": 0.0, "symex_s": time.time() - t0, "n_queries": 1, "obligations": 0, "failed_obligations": [],
                "witnesses": {}, "encoded": sorted(E.encoded),
                "candidates": [{"signature": f"{PROP}:raises:{type(e).__name__}:{sig_tail if sig_tail != case['kind'] else case['kind'] + ':' + str(case.get('rep'))}",
                                "case": case, "inputs": jsonable(inp.eval(m)) if m is not None else {}, "kind": "raises",
                                "labels": [f"{type(e).__name__}: {e}"]}]}
    wit = []
    if case.get("witness"):
        wit = [("null key inside a chunk", b_or(*[c == -1 for c in d["codes"]])),
               ("pointer table that is not the identity", d["state"].pointers[0][0] != 0)]
    dec = decide(inp, bads, merged, witnesses=wit)
    r = {"verdict": dec.verdict, "solver_s": dec.solver_s, "symex_s": time.time() - t0 - dec.solver_s, "n_queries": dec.n_queries,
         "obligations": dec.obligations, "failed_obligations": dec.failed_obligations, "witnesses": dec.witnesses, "candidates": [],
         "encoded": sorted(E.encoded)}
    if dec.verdict == "sat" and not any(k_ == "bounds" for k_, w_ in dec.failed_obligations):
        r["candidates"].append({"signature": f"{PROP}:{sig_tail}", "case": case, "inputs": jsonable(dec.model), "kind": "property", "labels": dec.which[:4]})
    if dec.failed_obligations:
        r["verdict"] = "sat"
        kinds = sorted({k for k, w in dec.failed_obligations})
        r["candidates"].append({"signature": f"{PROP}:obligation:{','.join(kinds)}:{sig_tail}", "case": case, "inputs": jsonable(dec.ob_model),
                                "kind": "obligation", "labels": [f"{a}@{b}" for a, b in dec.failed_obligations[:4]]})
    return r


# ------------------------------------------------------------------ GroupBy.ema on chunked keys (local codes and pointer tables enumerated)
def run_ema(E, case):
    t0 = time.time()
    from . import ema as EM
    N, G, lengths = case["N"], case["G"], case["lengths"]
    res = EM._blank()
    us = [min(L, G) for L in lengths]
    local_spaces = [list(itertools.product(range(-1, u), repeat=L)) for L, u in zip(lengths, us)]
    ptr_spaces = [list(itertools.permutations(range(G), u)) for u in us]
    for loc in itertools.product(*local_spaces):
        for ptr in itertools.product(*ptr_spaces):
            glob = [(-1 if x < 0 else p[x]) for l, p in zip(loc, ptr) for x in l]
            inp = Inputs()
            xs = inp.values("x", N, "float64")
            inp.vars["local"] = ("const", [list(l) for l in loc], "int64")
            inp.vars["pointers"] = ("const", [list(p) for p in ptr], "int64")
            rt = fresh_runtime()
            rt.div_obligation = True
            if case["rep"] == "chunked+pointers":
                gb = make_gb(E, G, chunks=[A(list(l), "int64") for l in loc], pointers=[A(list(p), "int64") for p in ptr])
            else:
                ch = []
                p0 = 0
                for L in lengths:
                    ch.append(A(glob[p0:p0 + L], "int64"))
                    p0 += L
                gb = make_gb(E, G, chunks=ch, pointers=None)
            ref = make_gb(E, G, codes=A(glob, "int64"))
            try:
                o1 = _arr(gb.ema(A(xs, "float64").tag("input:values"), alpha=0.5))
                o2 = _arr(ref.ema(A(xs, "float64").tag("input:values"), alpha=0.5))
            except (Unsupported, OutsideModel):
                raise
            except Exception as e:      # noqa: BLE001
                res["verdict"] = "sat"
                if len(res["candidates"]) < 3:
                    res["candidates"].append({"signature": f"{PROP}:raises:{type(e).__name__}:ema:{case['rep']}",
                                              "case": dict(case, local=[list(l) for l in loc], pointers=[list(p) for p in ptr]),
                                              "inputs": {"x": [0.0] * N}, "kind": "raises", "labels": [f"{type(e).__name__}: {e}"]})
                continue
            bl = [(f"ema[row {i}]", b_and(glob[i] >= 0, b_not(same(EM._sf(o1.cells[i]), EM._sf(o2.cells[i]))))) for i in range(N) if glob[i] >= 0]
            EM._decide_into(res, inp, bl, rt, case, PROP, {"local": [list(l) for l in loc], "pointers": [list(p) for p in ptr]}, sig=f"ema:{case['rep']}")
    res["symex_s"] = time.time() - t0 - res["solver_s"]
    return EM._finish(res, E)


# ------------------------------------------------------------------ apply (user function) inside operation sequences: codes enumerated
def _concrete_state(E, case, codes):
    N, G = case["N"], case["G"]
    rep = case["rep"]
    if rep == "contiguous":
        return make_gb(E, G, codes=A(list(codes), "int64"))
    half = N // 2
    if rep == "chunked-unified":
        return make_gb(E, G, chunks=[A(list(codes[:half]), "int64"), A(list(codes[half:]), "int64")], pointers=None)
    # per-chunk dictionaries: chunk 0 numbers the labels in reverse, chunk 1 in order
    p0 = list(range(G - 1, -1, -1))
    p1 = list(range(G))
    inv0 = {g: j for j, g in enumerate(p0)}
    l0 = [(-1 if c < 0 else inv0[c]) for c in codes[:half]]
    l1 = list(codes[half:])
    return make_gb(E, G, chunks=[A(l0, "int64"), A(l1, "int64")], pointers=[A(p0, "int64"), A(p1, "int64")])


def _cop(name, gb, v, m, user, real=False):
    """operations usable in enumerated-code sequences, on the shadow stub and on the real class alike"""
    if name == "apply(mask)":
        return [_arr(gb.apply(v, user, m))] if not real else [gb.apply(v, user, m)]
    if name == "apply":
        return [_arr(gb.apply(v, user, None))] if not real else [gb.apply(v, user, None)]
    if name == "ikey_count":
        return [gb.ikey_count]
    if name == "sum(mask)":
        return op_sum(gb, v, m)
    if name == "count_ikey(mask)":
        return [gb.count_ikey(m)]
    if name == "transform_max":
        return op_transform_max(gb, v, None)
    if name == "group_sort_indexer":
        return [gb._group_sort_indexer]
    if name == "head":
        if real:
            import pandas as pd
            return [gb.head(pd.Series(v), 2, keep_input_index=True).sort_index()]
        return [_arr(gb.head(v, 2))]
    if name == "cumsum":
        return op_cumsum(gb, v, None)
    if name == "ema":
        return [_arr(gb.ema(v, alpha=0.5))] if not real else [gb.ema(v, alpha=0.5)]
    if name == "unify(keep_chunked)":
        gb._unify_group_key_chunks(keep_chunked=True)
        return []
    raise Unsupported(name)


def run_apply_seq(E, case):
    t0 = time.time()
    from . import ema as EM
    N, G = case["N"], case["G"]
    first, second = case.get("first", "apply(mask)"), case["second"]
    res = EM._blank()
    F = z3.Function("user_func", z3.IntSort(), *([z3.RealSort()] * N), z3.RealSort())

    def user(sub):
        cells = sub.cells if isinstance(sub, A) else list(sub)
        args = [c.v if isinstance(c, SF) else z3.RealVal(c) for c in cells] + [z3.RealVal(0)] * (N - len(cells))
        return SF(False, F(z3.IntVal(len(cells)), *args))
    masks1 = [m for m in itertools.product([True, False], repeat=N) if not all(m)][::3] if "mask" in first else [None]
    m2bits = [True, False] * (N // 2) + [True] * (N % 2)
    allcodes = list(itertools.product(range(-1, G), repeat=N))[:: case.get("stride", 1)]
    for codes in allcodes:
        nn = sum(1 for c in codes if c >= 0)
        if nn == 0:
            continue
        for m1 in masks1:
            inp = Inputs()
            v1 = inp.floats("v", N, nullable=False)
            v2 = inp.floats("w", N, nullable=False)
            inp.vars["codes"] = ("const", list(codes), "int64")
            rt = fresh_runtime()
            rt.size_hints = [nn]
            rt.div_obligation = True
            extra = {"codes": list(codes), "mask1": [bool(b) for b in m1] if m1 is not None else None, "mask2": m2bits}
            try:
                gb = _concrete_state(E, case, codes)
                _cop(first, gb, A(v1, "float64").tag("input:values"), A(list(m1), "bool").tag("input:mask") if m1 is not None else None, user)
                used = _cop(second, gb, A(v2, "float64").tag("input:values"), A(m2bits, "bool"), user)
                fresh = _cop(second, _concrete_state(E, case, codes), A(v2, "float64"), A(m2bits, "bool"), user)
            except (Unsupported, OutsideModel):
                raise
            except Exception as e:      # noqa: BLE001
                res["verdict"] = "sat"
                res["subcases"] += 1
                if len(res["candidates"]) < 3:
                    res["candidates"].append({"signature": f"{PROP}:raises:{type(e).__name__}:seq:{first}->{second}:{case['rep']}", "case": dict(case, **extra),
                                              "inputs": {"v": [1.0 * (i + 1) for i in range(N)], "w": [10.0 * (i + 1) for i in range(N)]}, "kind": "raises",
                                              "labels": [f"{type(e).__name__}: {str(e)[:160]}"]})
                continue
            bl = _compare(f"{second} after {first}", [_objcells(x) for x in used], [_objcells(x) for x in fresh])
            dec = decide(inp, [(lab, b) for lab, b in bl], rt)
            EM_merge(res, dec, case, extra)
    res["symex_s"] = time.time() - t0 - res["solver_s"]
    res["encoded"] = sorted(E.encoded) + ["groupby_lib/groupby/core.py::apply", "groupby_lib/groupby/core.py::head"]
    res["witnesses"] = {f"{res['subcases']} (code sequence, first mask) pairs decided": True}
    return res


def _objcells(x):
    if isinstance(x, A):
        return [SF.of(c) if isinstance(c, (SF, float)) else c for c in x.cells]
    if isinstance(x, real_np.ndarray):
        return [SF.of(c) if isinstance(c, (SF, float)) else c for c in x.ravel().tolist()]
    return _cells(x)


def EM_merge(res, dec, case, extra):
    res["subcases"] += 1
    res["solver_s"] += dec.solver_s
    res["n_queries"] += dec.n_queries
    res["obligations"] += dec.obligations
    if dec.verdict == "unknown" and res["verdict"] != "sat":
        res["verdict"] = "unknown"
    if dec.verdict == "sat" or dec.failed_obligations:
        res["verdict"] = "sat"
        model = dec.model if dec.verdict == "sat" else dec.ob_model
        if len(res["candidates"]) < 4:
            res["candidates"].append({"signature": f"{PROP}:seq:{case.get('first', 'apply(mask)')}->{case['second']}:{case['rep']}", "case": dict(case, **extra), "inputs": jsonable(model),
                                      "kind": "property", "labels": dec.which[:4] + [f"{a}@{b}" for a, b in dec.failed_obligations[:3]]})


# ------------------------------------------------------------------ replay on the real class
def _real_state(case, conc, rep=None):
    rep = rep or case.get("rep", "chunked+pointers")
    G = case["G"]
    if "local" in case:
        loc, ptr = case["local"], case["pointers"]
    else:
        loc = [conc[f"l{c}_"] for c in range(len(case["lengths"]))]
        ptr = [conc[f"p{c}_"] for c in range(len(case["lengths"]))]
    glob = [(-1 if x < 0 else p[x]) for l, p in zip(loc, ptr) for x in l]
    if rep == "contiguous":
        return C3.real_gb(G, codes=glob), glob
    if rep == "chunked+pointers":
        return C3.real_gb(G, chunks=loc, pointers=ptr), glob
    ch = []
    p0 = 0
    for L in case["lengths"]:
        ch.append(glob[p0:p0 + L])
        p0 += L
    return C3.real_gb(G, chunks=ch, pointers=None), glob


def _replay_apply_seq(case, v1, v2):
    N, G, codes = case["N"], case["G"], case["codes"]
    half = N // 2
    first, second = case.get("first", "apply(mask)"), case["second"]

    def state():
        if case["rep"] == "contiguous":
            return C3.real_gb(G, codes=codes)
        if case["rep"] == "chunked-unified":
            return C3.real_gb(G, chunks=[codes[:half], codes[half:]], pointers=None)
        p0 = list(range(G - 1, -1, -1))
        inv0 = {g: j for j, g in enumerate(p0)}
        return C3.real_gb(G, chunks=[[(-1 if c < 0 else inv0[c]) for c in codes[:half]], codes[half:]], pointers=[p0, list(range(G))])

    def user(a):
        return float(real_np.sum(a * real_np.arange(1, len(a) + 1)))
    m1 = real_np.array(case["mask1"], dtype=bool) if case.get("mask1") is not None else None
    m2 = real_np.array(case["mask2"], dtype=bool)
    gb = state()
    _cop(first, gb, v1, m1, user, real=True)
    a = _real_cells(_cop(second, gb, v2, m2, user, real=True))
    b = _real_cells(_cop(second, state(), v2, m2, user, real=True))
    bad = []
    for k, (x, y) in enumerate(zip(a, b)):
        if len(x) != len(y):
            bad.append((k, "length"))
            continue
        bad += [(k, i) for i in range(len(x)) if not approx_same(x[i], y[i])]
    return bool(bad), {"used_object": jsonable(a), "fresh_object": jsonable(b), "differ": jsonable(bad[:6]), "codes": codes, "mask1": case.get("mask1")}


def _real_cells(outs):
    out = []
    for o in outs:
        if hasattr(o, "to_numpy"):
            o = o.to_numpy()
        if hasattr(o, "chunks"):
            o = real_np.concatenate([real_np.asarray(c) for c in o.chunks])
        out.append(np_to_cells(real_np.asarray(o)))
    return out


def replay(case, conc, cand=None):
    import pandas as pd
    conc = fix_nans(conc)
    N = case["N"]
    try:
        if case["kind"] == "ema":
            xs = real_np.array([float(x) for x in to_float_cells(conc["x"])])
            gb, glob = _real_state(case, conc)
            ref, _ = _real_state(case, conc, "contiguous")
            o1 = gb.ema(xs, alpha=0.5).to_numpy()
            o2 = ref.ema(xs, alpha=0.5).to_numpy()
            bad = [i for i in range(N) if glob[i] >= 0 and not approx_same(float(o1[i]), float(o2[i]))]
            return bool(bad), {"chunked": jsonable(list(o1)), "contiguous": jsonable(list(o2)), "wrong_rows": bad, "global_codes": glob}
        v1 = np_values(to_float_cells(conc["v"]), "float64")
        v2 = np_values(to_float_cells(conc["w"]), "float64")
        if case["kind"] == "apply_seq":
            return _replay_apply_seq(case, v1, v2)
        m1 = real_np.array(conc["m"], dtype=bool)
        m2 = real_np.array(conc["n"], dtype=bool)
        if case["kind"] == "unify_alpha":
            gb, glob = _real_state(case, conc, "chunked+pointers")
            gb._unify_group_key_chunks(keep_chunked=case["keep"])
            got = _real_cells([gb._group_ikey])[0]
            bad = [i for i in range(N) if int(got[i]) != glob[i]]
            return bool(bad), {"after_unify": jsonable(got), "global_codes": glob, "wrong_rows": bad}
        if case["kind"] == "observer":
            on = case["mask"] == "bool_sym"
            f = OPS[case["op"]]
            mk = slice(case["slice"][0], case["slice"][1]) if case["mask"] == "slice" else (
                real_np.array(conc["p"], dtype="int64") if case["mask"] == "fancy" else (m1 if on else None))
            a = _real_cells(f(_real_state(case, conc)[0], v1, mk))
            b = _real_cells(f(_real_state(case, conc, "contiguous")[0], v1, mk))
        elif case["kind"] == "sequence":
            fa, fb = OPS[case["first"]], OPS[case["second"]]
            gb = _real_state(case, conc)[0]
            fa(gb, v1, m1)
            if case.get("middle"):
                OPS[case["middle"]](gb, v1, None)
            a = _real_cells(fb(gb, v2, m2))
            b = _real_cells(fb(_real_state(case, conc)[0], v2, m2))
        elif case["kind"] == "copy":
            from groupby_lib.groupby.core import GroupBy
            orig = _real_state(case, conc)[0]
            new = GroupBy(orig)
            a = _real_cells(op_sum(new, v1, m1) + op_count_ikey(new, None, m2) + op_transform_max(new, v2, None))
            o2 = _real_state(case, conc)[0]
            b = _real_cells(op_sum(o2, v1, m1) + op_count_ikey(o2, None, m2) + op_transform_max(o2, v2, None))
        else:
            raise Unsupported(case["kind"])
    except Exception as e:      # noqa: BLE001
        return True, f"real call raised {type(e).__name__}: {e}"
    bad = []
    for k, (x, y) in enumerate(zip(a, b)):
        if len(x) != len(y):
            bad.append((k, "length"))
            continue
        bad += [(k, i) for i in range(len(x)) if not approx_same(x[i], y[i])]
    return bool(bad), {"got": jsonable(a), "expected": jsonable(b), "differ": jsonable(bad[:8]), "inputs": jsonable(conc)}


META = {
    "glue": ['groupby_lib/groupby/core.py::__init__', 'groupby_lib/groupby/core.py::_apply_gb_func_across_chunked_group_keys', 'groupby_lib/groupby/core.py::_apply_gb_reduction', 'groupby_lib/groupby/core.py::_apply_rolling_or_cumulative_func', 'groupby_lib/groupby/core.py::_build_arg_dict_for_function', 'groupby_lib/groupby/core.py::_find_first_chunk_in_slice', 'groupby_lib/groupby/core.py::_group_sort_indexer', 'groupby_lib/groupby/core.py::_max_threads_for_numba', 'groupby_lib/groupby/core.py::_resolve_mask_argument_into_chunks', 'groupby_lib/groupby/core.py::_unify_for_positional_mask', 'groupby_lib/groupby/core.py::_unify_group_key_chunks', 'groupby_lib/groupby/core.py::apply', 'groupby_lib/groupby/core.py::count_ikey', 'groupby_lib/groupby/core.py::ema', 'groupby_lib/groupby/core.py::head', 'groupby_lib/util.py::array_split_with_chunk_handling'],
    "bounds": {"quick": {"N": 4, "G": 2, "key_chunks": 2, "sequences": "length 2 over 7 x 6 operations on symbolic states; 8 x 8 operations (incl. apply, head, group-sorted indexer, ema) on a quarter of the enumerated code sequences"},
               "thorough": {"N": 5, "G": 2, "key_chunks": "<= 3", "sequences": "length 2 (all) and 27 of length 3 on symbolic states; 8 x 8 operations on every code sequence of N=4,G=2 in all three representations"}},
    "enumerated": ["key representation and chunk layout", "operation sequences", "for GroupBy.ema: every chunk-local code sequence and pointer table"],
    "symbolic": ["chunk-local codes, pointer tables", "two independent value arrays and masks (one per call)"],
    "assumptions": ["abstraction alpha(state) = global code per row; (1) unification preserves alpha, (2) every observer returns, in every representation, "
                    "what it returns for contiguous codes, (3) [op1; op2] on one object == op2 on a fresh object, for every pair in the table - together "
                    "history independence for sequences of any length; cache contents themselves are not compared, only later results",
                    "states constructed directly on the shadow class (and on the real class for replays); cuts as in C07",
                    "row-aligned outputs at rows with a null key are compared too (they must not depend on history either)"],
    "outside": ["caches holding pandas objects (key_count, groups dict)", "the class-level call form GroupBy.sum(keys, values) (pandas constructor)"],
}

"""C04 - block-wise reduction equals single-pass reduction equals the per-group definition."""
import itertools
from . import reductions as R

PROP = "C04"
DTYPES_Q = ["float64", "int64", "bool", "datetime64[ns]"]


def _valid(func, dt):
    if dt.startswith("datetime") and func in ("sum", "sum_squares", "mean"):
        return False
    if dt == "bool" and func in ("sum_squares", "mean"):
        return False
    return True


def compositions(n, maxparts):
    out = []
    for k in range(2, maxparts + 1):
        for cuts in itertools.combinations(range(1, n), k - 1):
            b = (0,) + cuts + (n,)
            out.append([b[i + 1] - b[i] for i in range(k)])
    return out


def cases(tier, seed):
    out = []
    if tier == "quick":
        N, G, threads, maxparts = 4, 2, [1, 2, 3, 4], 2
    else:
        N, G, threads, maxparts = 6, 3, [1, 2, 3, 4], 3
    allmasks = [list(bits) for bits in itertools.product([False, True], repeat=N)]
    for func in R.FUNCS:
        for dt in DTYPES_Q:
            if not _valid(func, dt):
                continue
            base = {"func": func, "dtype": dt, "N": N, "G": G}
            first = True
            for T in threads:
                c = dict(base, mask={"kind": "none"}, threads=T, witness=first and dt == "float64")
                out.append(c)
                first = False
                if T == 1:
                    out.append(dict(base, mask={"kind": "bool_sym"}, threads=1, witness=dt == "float64"))
                    out.append(dict(base, mask={"kind": "fancy", "L": 3}, threads=1, witness=dt == "float64"))
                else:
                    out.append(dict(base, mask={"kind": "fancy", "L": 3}, threads=T))
                    if dt == "float64" or tier == "thorough":
                        ms = allmasks if (T == 2 or tier == "thorough") and (dt == "float64") else allmasks[1::3]
                    else:
                        ms = allmasks[3::5]
                    for bits in ms:
                        out.append(dict(base, mask={"kind": "bool", "bits": bits}, threads=T))
            for sl in ([(1, None, None), (None, -1, None), (None, None, 2), (-3, 3, None), (None, None, -1), (N - 1, 0, -2)]):
                out.append(dict(base, mask={"kind": "slice", "start": sl[0], "stop": sl[1], "step": sl[2]}, threads=2))
            if dt in ("float64", "int64") or tier == "thorough":
                comps = compositions(N, maxparts) + ([[1, 2, 1]] if tier == "quick" else [])
                for comp in comps:
                    for mk in ({"kind": "none"}, {"kind": "bool_sym"}):
                        out.append(dict(base, mask=mk, threads=1, chunks=comp))
                if tier == "quick":
                    out.append(dict(base, mask={"kind": "none"}, threads=2, chunks=[2, 2]))
                    if tier == "thorough" and len(comp) == 2:
                        out.append(dict(base, mask={"kind": "none"}, threads=2, chunks=comp))
    # plain int64 sums over an alphabet that contains the integer null sentinel: every block split must poison exactly like the single pass
    for T in threads:
        for mk in ({"kind": "none"}, {"kind": "bool_sym"}) if T == 1 else ({"kind": "none"}, {"kind": "fancy", "L": 3}):
            out.append({"func": "sum", "dtype": "int64", "N": N, "G": G, "mask": mk, "threads": T, "int_sentinel": True})
            if T <= 2:
                # the null-skipping kernels on the same alphabet: the sentinel is skipped, never added or counted
                for f2 in ("mean", "count", "max", "first"):
                    out.append({"func": f2, "dtype": "int64", "N": N, "G": G, "mask": mk, "threads": T, "int_sentinel": True})
    # (not with a chunked VALUES list: group_sum picks the null-skipping reducer for anything that is not an ndarray, so the sentinel is
    # skipped there and poisons here - a container-dependent dispatch outside this property; see DESIGN 0, false alarms)
    if tier == "thorough":
        # the cheapest kernels once more at N=8
        for func in ("count", "sum", "max", "first", "last"):
            for T in (2, 3, 4):
                out.append({"func": func, "dtype": "float64", "N": 8, "G": 3, "mask": {"kind": "none"}, "threads": T})
    for c in out:
        c["name"] = R.case_name(c)
    return out


def run_case(E, case):
    return R.run_case(E, case, PROP)


def replay(case, inputs, cand=None):
    return R.replay(case, inputs)


def validate(E, seed, tier):
    cs = [c for c in cases("quick", seed) if not c.get("chunks") or c["dtype"] in ("float64", "int64")]
    return R.validate_cases(E, cs, seed, 60 if tier == "quick" else 200)


META = {
    "glue": ['groupby_lib/groupby/numba.py::_apply_group_method_single_chunk', 'groupby_lib/groupby/numba.py::_build_target_for_groupby', 'groupby_lib/groupby/numba.py::_chunk_args_for_chunked_values', 'groupby_lib/groupby/numba.py::_chunk_args_for_unchunked_values', 'groupby_lib/groupby/numba.py::_chunk_groupby_args', 'groupby_lib/groupby/numba.py::_group_func_wrap', 'groupby_lib/groupby/numba.py::combine_chunk_results_for_factorized_key', 'groupby_lib/groupby/numba.py::group_count', 'groupby_lib/groupby/numba.py::group_mean', 'groupby_lib/groupby/numba.py::group_size', 'groupby_lib/groupby/numba.py::group_sum', 'groupby_lib/util.py::_cast_timestamps_to_ints', 'groupby_lib/util.py::_null_value_for_numpy_type', 'groupby_lib/util.py::check_data_inputs_aligned', 'groupby_lib/util.py::jit_is_null', 'groupby_lib/util.py::parallel_map'],
    "bounds": {"quick": {"N": 4, "G": 2, "threads": [1, 2, 3, 4], "value_chunks": "every composition of N into 2 parts"},
               "thorough": {"N": 6, "G": 3, "threads": [1, 2, 3, 4], "value_chunks": "every composition of N into <= 3 parts",
                            "extra": "count/sum/max/first/last float64 at N=8"}},
    "enumerated": ["boolean masks on the multi-block path (array_split of mask.nonzero() has a data-dependent shape)",
                   "slice bounds", "value chunk layouts", "thread counts"],
    "symbolic": ["group codes in {-1,0..G-1}", "values (all reals / all ints of the dtype) and their null flags",
                 "boolean mask bits on the single-block and chunked-values paths", "integer positions in [-N, N)"],
    "assumptions": ["null = NaN for floats, INT64_MIN for datetime/timedelta viewed as int64; plain int64 data excludes INT64_MIN",
                    "float inputs are finite or NaN (no +-inf inputs)",
                    "sums/means compared in exact (rational) arithmetic: equality up to floating-point rounding",
                    "NumPy model (array_split, nonzero, views, concatenate), numba = Python semantics of the kernel source + real overload templates",
                    "concurrent.futures model: submit runs the task, as_completed yields in submission order (orders explored in C03)",
                    "_val_to_numpy on proxies is the identity (container normalisation not modelled)"],
    "outside": ["N > 6 (8), G > 3, more than 4 blocks", "floating-point rounding of sums", "pandas-level result assembly"],
}

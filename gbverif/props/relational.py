"""Relational (two-run) harnesses over the kernel families: non-interference of null-key rows (C06), of unselected rows
(C05), mask == filter-first (C05), deletion of null-key rows (C06).  No functional specification is involved: the
oracle is the real code itself run on related inputs."""
import sys
import time
import numpy as real_np
import z3
from ..values import SF, MIN_INT, is_sym, conc_bool, b_and, b_or, b_not, ite, same, Unsupported
from ..symarray import A
from ..runtime import run_paths, current
from ..harness import Inputs, decide, jsonable, to_float_cells, solve_exists
from . import reductions as R, cumulative as CU, rolling as RO, rowselect as RS, common
from .reductions import approx_same, np_to_cells, gather, is_null_val, null_of
from .common import MergedRT


class ReduceFam:
    """adapter giving the reductions harness the same interface as the other families"""
    @staticmethod
    def build(case, inp):
        return R.build(case, inp)

    @staticmethod
    def call(E, case, d):
        return R.shadow_call(E, case, R.shadow_arrays(case, d))

    @staticmethod
    def real_call(case, conc):
        return R.real_call(case, conc)

    case_name = staticmethod(R.case_name)
    row_aligned = False


FAMS = {"reduce": ReduceFam, "cum": CU, "roll": RO, "rowsel": RS}


def fam_of(case):
    return FAMS[case["fam"]]


def row_aligned(case):
    return case["fam"] in ("cum", "roll")


def rel_name(case):
    return f"{case['rel']}:{fam_of(case).case_name(case)}"


def fresh_like(cells, prefix, inp, dt):
    """fresh arbitrary cells of the same kind as `cells`"""
    n = len(cells)
    dt = real_np.dtype(dt)
    if dt.kind == "f":
        return inp.floats(prefix, n, True, dt)
    if dt.kind == "b":
        return inp.bools(prefix, n)
    return inp.values(prefix, n, dt)


def out_cells(out):
    if isinstance(out, A):
        return out.cells, out.shape
    return list(out), (len(out),)


def unroll(case):
    return case.get("W", 1) + 2


def prepare_rt(case, rt):
    pass


# ------------------------------------------------------------------ the relations
def run_case(E, case, prop):
    t0 = time.time()
    fam = fam_of(case)
    rel = case["rel"]
    inp = Inputs()
    d1 = fam.build(case, inp)
    N = case["N"]
    codes = d1["codes"]
    dt = real_np.dtype(case.get("dtype", "float64"))
    merged = MergedRT()
    bads = []
    info = {}

    def run(dd, cs=None):
        c = cs or case

        def body():
            rt = current()
            rt.unroll = unroll(c)
            return fam.call(E, c, dd)
        return run_paths(body)

    def add_paths(paths):
        for pc, out, rt in paths:
            for kind, g, cnd, where in rt.obligations:
                merged.obligations.append((kind, b_and(*pc, g) if pc else g, cnd, where))
            merged.pre.extend(rt.pre)

    def pairwise(p1, p2, cmp):
        for pc1, o1, _ in p1:
            for pc2, o2, _ in p2:
                pcz = b_and(*(pc1 + pc2)) if (pc1 or pc2) else True
                for lab, b in cmp(o1, o2):
                    bads.append((lab, b_and(pcz, b)))

    if rel in ("null_rows_noninterference", "unselected_noninterference"):
        d2 = dict(d1)
        if rel == "null_rows_noninterference":
            free = [codes[i] < 0 for i in range(N)]
        else:
            free = [b_not(d1["mask"][i]) for i in range(N)]
            # unselected rows may also carry any other key
            k2 = inp.codes("k2_", N, case["G"])
            d2["codes"] = [ite(free[i], k2[i], codes[i]) for i in range(N)]
        if "values" in d1:
            w = fresh_like(d1["values"], "w", inp, dt)
            d2["values"] = [ite(free[i], w[i], d1["values"][i]) for i in range(N)]
        if rel == "null_rows_noninterference" and "mask" in d1 and case["mask"]["kind"] == "bool_sym":
            m2 = inp.bools("m2_", N)
            d2["mask"] = [ite(free[i], m2[i], d1["mask"][i]) for i in range(N)]
        p1, p2 = run(d1), run(d2)
        add_paths(p1)
        add_paths(p2)

        def cmp(o1, o2):
            c1, s1 = out_cells(o1)
            c2, s2 = out_cells(o2)
            if s1 != s2:
                return [("shape differs", True)]
            out = []
            if row_aligned(case):
                for i in range(N):
                    keep = b_not(free[i]) if rel == "unselected_noninterference" else codes[i] >= 0
                    out.append((f"{rel}[row {i}]", b_and(keep, b_not(same(c1[i], c2[i])))))
            else:
                for j in range(len(c1)):
                    out.append((f"{rel}[cell {j}]", b_not(same(c1[j], c2[j]))))
            return out
        pairwise(p1, p2, cmp)
    elif rel == "null_rows_constant":
        p1 = run(d1)
        add_paths(p1)
        const = expected_null_row_value(case)
        for pc, o1, _ in p1:
            c1, _s = out_cells(o1)
            pcz = b_and(*pc) if pc else True
            for i in range(N):
                bads.append((f"null-key row {i} holds the neutral marker", b_and(pcz, codes[i] < 0, b_not(same(c1[i], const)))))
    elif rel in ("mask_is_filter", "delete_null_rows"):
        # the selection is concrete (enumerated): bits[i] says whether row i survives
        bits = case["bits"]
        keep_idx = [i for i in range(N) if bits[i]]
        if rel == "mask_is_filter":
            dm = dict(d1)
            dm["mask"] = list(bits)
            cm = dict(case, mask={"kind": "bool", "bits": list(bits)})
            p1 = run(dm, cm)
            df = {k: ([v[i] for i in keep_idx] if isinstance(v, list) and len(v) == N else v) for k, v in d1.items()}
            df.pop("mask", None)
            cf = dict(case, N=len(keep_idx), mask={"kind": "none"})
        else:
            dm = dict(d1)
            dm["codes"] = [codes[i] if bits[i] else -1 for i in range(N)]
            for i in keep_idx:
                inp.pre.append(codes[i] >= 0)
            p1 = run(dm)
            df = {k: ([v[i] for i in keep_idx] if isinstance(v, list) and len(v) == N else v) for k, v in dm.items()}
            cf = dict(case, N=len(keep_idx))
            if cf["mask"]["kind"] == "bool":
                cf["mask"] = {"kind": "bool", "bits": [case["mask"]["bits"][i] for i in keep_idx]}
        if len(keep_idx) == 0:
            p2 = None
        else:
            p2 = run(df, cf)
            add_paths(p2)
        add_paths(p1)
        if p2 is None:
            # nothing survives: reductions must report the empty result, row-aligned ops have nothing to compare
            if not row_aligned(case) and case["fam"] == "reduce":
                for pc, o1, _ in p1:
                    c1, _s = out_cells(o1)
                    for g in range(case["G"]):
                        bads.append((f"empty selection[g={g}]", b_not(same(c1[g], null_of(dt, case["func"])))))
        else:
            def cmp(o1, o2):
                c1, s1 = out_cells(o1)
                c2, s2 = out_cells(o2)
                out = []
                if row_aligned(case):
                    for r, i in enumerate(keep_idx):
                        act = dm["codes"][i] >= 0 if rel == "mask_is_filter" else True
                        out.append((f"{rel}[row {i}]", b_and(act, b_not(same(c1[i], c2[r])))))
                elif case["fam"] == "rowsel":
                    # positions refer to the filtered array: map back through keep_idx
                    for j in range(len(c1)):
                        opts = [b_and(c2[j] == r, c1[j] == i) for r, i in enumerate(keep_idx)]
                        out.append((f"{rel}[cell {j}]", b_not(b_or(b_and(c2[j] == -1, c1[j] == -1), *opts))))
                else:
                    for j in range(len(c1)):
                        out.append((f"{rel}[cell {j}]", b_not(same(c1[j], c2[j]))))
                return out
            pairwise(p1, p2, cmp)
    elif rel == "positions_are_indexing":
        # integer positions p: K(codes, values, mask=p) == K(codes[p], values[p])
        p = d1["mask"]
        p1 = run(d1)
        add_paths(p1)
        df = {"codes": [gather(codes, q) for q in p]}
        if "values" in d1:
            df["values"] = [gather(d1["values"], q) for q in p]
        cf = dict(case, N=len(p), mask={"kind": "none"})
        p2 = run(df, cf)
        add_paths(p2)

        def cmp(o1, o2):
            c1, _ = out_cells(o1)
            c2, _ = out_cells(o2)
            return [(f"{rel}[cell {j}]", b_not(same(c1[j], c2[j]))) for j in range(len(c1))]
        pairwise(p1, p2, cmp)
    elif rel == "slice_is_indexing":
        m = case["mask"]
        sl = slice(m["start"], m["stop"], m["step"])
        p1 = run(d1)
        add_paths(p1)
        df = {k: (v[sl] if isinstance(v, list) and len(v) == N else v) for k, v in d1.items()}
        n2 = len(df["codes"])
        cf = dict(case, N=n2, mask={"kind": "none"})
        if n2 == 0:
            for pc, o1, _ in p1:
                c1, _s = out_cells(o1)
                for g in range(case["G"]):
                    bads.append((f"empty slice[g={g}]", b_not(same(c1[g], null_of(dt, case["func"])))))
        else:
            p2 = run(df, cf)
            add_paths(p2)

            def cmp(o1, o2):
                c1, _ = out_cells(o1)
                c2, _ = out_cells(o2)
                return [(f"{rel}[cell {j}]", b_not(same(c1[j], c2[j]))) for j in range(len(c1))]
            pairwise(p1, p2, cmp)
    else:
        raise Unsupported(rel)
    symex = time.time() - t0
    wit = []
    if case.get("witness"):
        wit = [("a null-key row exists", b_or(*[c < 0 for c in codes]) if not all(isinstance(c, int) for c in codes) else any(c < 0 for c in codes))]
    dec = decide(inp, bads, merged, witnesses=wit)
    r = {"verdict": dec.verdict, "solver_s": dec.solver_s, "symex_s": symex, "n_queries": dec.n_queries,
         "obligations": dec.obligations, "failed_obligations": dec.failed_obligations, "witnesses": dec.witnesses,
         "candidates": [], "encoded": sorted(E.encoded)}
    sig = f"{prop}:{rel}:{case['fam']}:{case.get('func') or case.get('op')}:{dt.kind}"
    if dec.verdict == "sat":
        r["candidates"].append({"signature": sig, "case": case, "inputs": jsonable(dec.model), "kind": "property", "labels": dec.which[:6]})
    if dec.failed_obligations:
        kinds = sorted({k for k, w in dec.failed_obligations})
        r["candidates"].append({"signature": sig + ":obligation:" + ",".join(kinds), "case": case, "inputs": jsonable(dec.ob_model),
                                "kind": "obligation", "labels": [f"{k}@{w}" for k, w in dec.failed_obligations[:6]]})
        r["verdict"] = "sat"
    return r


def expected_null_row_value(case):
    dt = real_np.dtype(case["dtype"])
    if case["fam"] == "cum":
        if case["op"] == "cumcount":
            return -1
        if case["op"] == "cumsum" and dt.kind in "ib":
            return MIN_INT
        if case["op"] == "cumsum" and dt.kind == "u":
            return int(real_np.iinfo("uint64").max)
        return null_of(dt)
    if case["fam"] == "roll":
        return MIN_INT if dt.kind in "mM" else float("nan")
    raise Unsupported("null-row constant for " + case["fam"])


# ------------------------------------------------------------------ replay: the same relation on the compiled code
def _concretize(case, conc, d_sym_builder):
    raise NotImplementedError


def replay(case, conc, cand=None):
    """re-evaluates the relation with concrete inputs: both runs go through the real compiled functions"""
    conc = common.fix_nans(conc)
    fam = fam_of(case)
    rel = case["rel"]
    N = case["N"]
    dt = real_np.dtype(case.get("dtype", "float64"))

    def real(cs, cc):
        try:
            return np_to_cells(real_np.asarray(fam.real_call(cs, cc))), None
        except Exception as e:      # noqa: BLE001
            return None, f"{type(e).__name__}: {e}"

    def differs(a, b):
        return not approx_same(a, b)

    k = conc.get("k")
    if rel in ("null_rows_noninterference", "unselected_noninterference"):
        c2 = dict(conc)
        if rel == "null_rows_noninterference":
            free = [k[i] < 0 for i in range(N)]
        else:
            free = [not conc["m"][i] for i in range(N)]
            c2["k"] = [conc["k2_"][i] if free[i] else k[i] for i in range(N)]
        if "v" in conc:
            c2["v"] = [conc["w"][i] if free[i] else conc["v"][i] for i in range(N)]
        if rel == "null_rows_noninterference" and "m2_" in conc:
            c2["m"] = [conc["m2_"][i] if free[i] else conc["m"][i] for i in range(N)]
        o1, e1 = real(case, conc)
        o2, e2 = real(case, c2)
        if e1 or e2:
            return True, {"run1": e1 or "ok", "run2": e2 or "ok"}
        if row_aligned(case):
            rows = [i for i in range(N) if not free[i] and (rel != "null_rows_noninterference" or k[i] >= 0) and differs(o1[i], o2[i])]
        else:
            rows = [j for j in range(len(o1)) if differs(o1[j], o2[j])]
        return bool(rows), {"run1": jsonable(o1), "run2": jsonable(o2), "differ_at": rows, "inputs1": jsonable(conc), "inputs2": jsonable(c2)}
    if rel == "null_rows_constant":
        o1, e1 = real(case, conc)
        if e1:
            return True, e1
        const = expected_null_row_value(case)
        rows = [i for i in range(N) if k[i] < 0 and differs(o1[i], const)]
        return bool(rows), {"output": jsonable(o1), "expected_at_null_rows": jsonable(const), "wrong_rows": rows, "inputs": jsonable(conc)}
    if rel in ("mask_is_filter", "delete_null_rows"):
        bits = case["bits"]
        keep = [i for i in range(N) if bits[i]]
        if rel == "mask_is_filter":
            cm = dict(case, mask={"kind": "bool", "bits": list(bits)})
            c1 = dict(conc)
            cf = dict(case, N=len(keep), mask={"kind": "none"})
        else:
            cm = case
            c1 = dict(conc, k=[k[i] if bits[i] else -1 for i in range(N)])
            cf = dict(case, N=len(keep))
            if cf["mask"]["kind"] == "bool":
                cf["mask"] = {"kind": "bool", "bits": [case["mask"]["bits"][i] for i in keep]}
        c2 = {kk: ([vv[i] for i in keep] if isinstance(vv, list) and len(vv) == N else vv) for kk, vv in c1.items()}
        o1, e1 = real(cm, c1)
        if not keep:
            if e1:
                return True, e1
            if case["fam"] == "reduce":
                exp = null_of(dt, case["func"])
                bad = [g for g in range(case["G"]) if differs(o1[g], exp)]
                return bool(bad), {"masked": jsonable(o1), "expected_empty": jsonable(exp)}
            return False, "nothing selected"
        o2, e2 = real(cf, c2)
        if e1 or e2:
            return True, {"masked": e1 or "ok", "filtered": e2 or "ok"}
        if row_aligned(case):
            rows = [i for r, i in enumerate(keep) if c1["k"][i] >= 0 and differs(o1[i], o2[r])]
        elif case["fam"] == "rowsel":
            rows = [j for j in range(len(o1)) if not ((o1[j] == -1 and o2[j] == -1) or (o2[j] >= 0 and keep[o2[j]] == o1[j]))]
        else:
            rows = [j for j in range(len(o1)) if differs(o1[j], o2[j])]
        return bool(rows), {"masked": jsonable(o1), "filtered": jsonable(o2), "differ_at": rows, "inputs": jsonable(c1)}
    if rel == "positions_are_indexing":
        p = conc["p"]
        o1, e1 = real(case, conc)
        c2 = {"k": [k[q] for q in p]}
        if "v" in conc:
            c2["v"] = [conc["v"][q] for q in p]
        o2, e2 = real(dict(case, N=len(p), mask={"kind": "none"}), c2)
        if e1 or e2:
            return True, {"positions": e1 or "ok", "indexed": e2 or "ok"}
        rows = [j for j in range(len(o1)) if differs(o1[j], o2[j])]
        return bool(rows), {"positions": jsonable(o1), "indexed": jsonable(o2), "differ_at": rows, "inputs": jsonable(conc)}
    if rel == "slice_is_indexing":
        m = case["mask"]
        sl = slice(m["start"], m["stop"], m["step"])
        o1, e1 = real(case, conc)
        c2 = {kk: (vv[sl] if isinstance(vv, list) and len(vv) == N else vv) for kk, vv in conc.items()}
        if len(c2["k"]) == 0:
            if e1:
                return True, e1
            exp = null_of(dt, case["func"])
            bad = [g for g in range(case["G"]) if differs(o1[g], exp)]
            return bool(bad), {"sliced": jsonable(o1)}
        o2, e2 = real(dict(case, N=len(c2["k"]), mask={"kind": "none"}), c2)
        if e1 or e2:
            return True, {"sliced": e1 or "ok", "indexed": e2 or "ok"}
        rows = [j for j in range(len(o1)) if differs(o1[j], o2[j])]
        return bool(rows), {"sliced": jsonable(o1), "indexed": jsonable(o2), "differ_at": rows}
    raise Unsupported(rel)

"""Harness family for numba.cumsum/cumcount/cummin/cummax (-> _apply_cumulative -> _cumulative_reduce)."""
import random
import numpy as real_np
import z3
from ..values import SF, MIN_INT, is_sym, conc_bool, b_and, b_or, b_not, ite, same, total, Unsupported
from ..symarray import A
from ..harness import Inputs, jsonable, to_float_cells, dtype_range
from .reductions import is_null_val, null_of, approx_same, num, count_true, np_values, np_to_cells
from . import common

OPS = ("cumsum", "cumcount", "cummin", "cummax")


def case_name(c):
    m = c["mask"]["kind"]
    s = f"{c['op']}/{c['dtype']}/N={c['N']},G={c['G']}/mask={m}/skip_na={c.get('skip_na', True)}"
    if c.get("chunks"):
        s += "/valchunks=" + "+".join(map(str, c["chunks"]))
    if c.get("codes") is not None:
        s += "/codes=" + ",".join(map(str, c["codes"]))
    if c["mask"]["kind"] == "bool":
        s += "/bits=" + "".join("1" if b else "0" for b in c["mask"]["bits"])
    if c.get("via"):
        s = "GroupBy." + s + ("/key chunks=" + "+".join(map(str, c["lengths"])) if c.get("lengths") else "/contiguous key")
    return s


def build(case, inp):
    N, G, dt = case["N"], case["G"], real_np.dtype(case["dtype"])
    d = {}
    if case.get("codes") is not None:
        d["codes"] = list(case["codes"])
        if inp.concrete is None:
            inp.vars["k"] = ("const", list(case["codes"]), "int64")
    elif case.get("lengths"):
        from .gbcore import ChunkedState
        st = ChunkedState(inp, case["lengths"], [min(L, G) for L in case["lengths"]], G)
        d["codes"] = st.global_codes()
        d["state"] = st
    else:
        d["codes"] = inp.codes("k", N, G)
    if case["op"] != "cumcount":
        d["values"] = inp.values("v", N, dt, sum_safe=case["op"] == "cumsum")
    mk = case["mask"]["kind"]
    if mk == "bool_sym":
        d["mask"] = inp.bools("m", N)
    elif mk == "bool":
        d["mask"] = list(case["mask"]["bits"])
    return d


def prepare_rt(case, rt):
    # integer and temporal values are accumulated exactly: any store of a 64-bit integer into a float array on the way is a side
    # obligation (|v| <= 2^53), decided by the solver like every other obligation (the solver's own arithmetic is exact, so a detour
    # through float64 is invisible in the values)
    dt = real_np.dtype(case["dtype"])
    rt.exact_ints = dt.kind in "iumM" and case["op"] in ("cumsum", "cummin", "cummax")


def _gb_state(E, case, d):
    from .gbcore import make_gb
    if case.get("lengths"):
        st = d["state"]
        return make_gb(E, case["G"], chunks=st.chunk_arrays(), pointers=st.pointer_arrays())
    return make_gb(E, case["G"], codes=A(d["codes"], "int64").tag("state:_group_ikey"))


def call_gb(E, case, d):
    """the public GroupBy.cumsum/cumcount/cummin/cummax on a directly constructed state; cuts as in gbcore.install_cuts"""
    from ..models import FakeSeries
    gb = _gb_state(E, case, d)
    dt = real_np.dtype(case["dtype"])
    mask = A(d["mask"], "bool").tag("input:mask") if "mask" in d else None
    if case["op"] == "cumcount":
        out = gb.cumcount(mask)
    else:
        vals = A(d["values"], dt).tag("input:values")
        out = getattr(gb, case["op"])(vals, mask, case.get("skip_na", True))
    return out.arr if isinstance(out, FakeSeries) else out


def call(E, case, d):
    if case.get("via"):
        return call_gb(E, case, d)
    nbm = E["gbnumba"]
    dt = real_np.dtype(case["dtype"])
    codes = A(d["codes"], "int64").tag("input:group_key")
    mask = A(d["mask"], "bool").tag("input:mask") if "mask" in d else None
    G = case["G"]
    if case["op"] == "cumcount":
        return nbm["cumcount"](codes, None, G, mask)
    vals = A(d["values"], dt).tag("input:values")
    if case.get("chunks"):
        # a chunked values array: the kernels walk the chunks one after the other
        from ..models import FakeChunked
        parts, p0 = [], 0
        for L in case["chunks"]:
            parts.append(vals[p0:p0 + L])
            p0 += L
        vals = FakeChunked(parts)
    return nbm[case["op"]](codes, vals, G, mask, case.get("skip_na", True))


def expected_dtype(case):
    dt = real_np.dtype(case["dtype"])
    if case["op"] == "cumcount":
        return real_np.dtype("int64")
    if case["op"] == "cumsum":
        if dt.kind in "ib":
            return real_np.dtype("int64")
        if dt.kind == "u":
            return real_np.dtype("uint64")
    return dt


def bads(case, d, out):
    op, N, dt = case["op"], case["N"], real_np.dtype(case["dtype"])
    skip_na = case.get("skip_na", True)
    res = out.cells if isinstance(out, A) else list(out)
    out_dtype = out.dtype if isinstance(out, A) else None
    codes = d["codes"]
    vals = d.get("values")
    sel = d.get("mask", [True] * N)
    bl = []
    if out_dtype is not None and out_dtype != expected_dtype(case):
        bl.append((f"{op}.dtype({out_dtype}!={expected_dtype(case)})", True))
    for i in range(N):
        active = b_and(codes[i] >= 0, sel[i])
        if conc_bool(active) is False:
            continue
        member = [b_and(sel[j], codes[j] == codes[i]) for j in range(i + 1)]
        r = res[i]
        lab = f"{op}[{i}]"
        if op == "cumcount":
            exp = count_true(member[:-1])
            bad = b_not(num(r) == exp)
        else:
            null = [is_null_val(vals[j], dt) for j in range(i + 1)]
            if op == "cumsum" and not skip_na:
                # plain running sum; for dtypes with a null, a null makes it null from there on
                anynull = b_or(*[b_and(member[j], null[j]) for j in range(i + 1)])
                s = total([ite(member[j], num(vals[j]), 0) for j in range(i + 1)], 0)
                nullres = null_of(dt)
                has_null_repr = dt.kind in "fmM" or (dt.kind == "i" and dt.itemsize == 8)
                if has_null_repr:
                    okv = ite(anynull, same(r, nullres), approx_same(r, _as(dt, s)))
                else:
                    okv = approx_same(r, s)
                bad = b_not(okv)
            else:
                valid = [b_and(member[j], b_not(null[j])) for j in range(i + 1)]
                anyvalid = b_or(*valid)
                if op == "cumsum":
                    s = total([ite(valid[j], num(vals[j]), 0) for j in range(i + 1)], 0)
                    bad = b_not(approx_same(r, _as(dt, s)))
                else:
                    nullres = null_of(dt)
                    is_mem = b_or(*[b_and(valid[j], same(r, vals[j])) for j in range(i + 1)])
                    if op == "cummin":
                        bnd = b_and(*[b_or(b_not(valid[j]), _le(r, vals[j])) for j in range(i + 1)])
                    else:
                        bnd = b_and(*[b_or(b_not(valid[j]), _le(vals[j], r)) for j in range(i + 1)])
                    bad = b_not(ite(anyvalid, b_and(is_mem, bnd), same(r, nullres)))
        bl.append((lab, b_and(active, bad)))
    return bl


def _as(dt, s):
    if dt.kind == "f":
        return s if isinstance(s, SF) else (SF.of(s) if is_sym(s) else float(s))
    return s


def _le(a, b):
    a, b = num(a), num(b)
    if isinstance(a, SF) or isinstance(b, SF):
        return SF.of(a).le(b)
    return a <= b


def wits(case, d):
    N = case["N"]
    codes = d["codes"]
    sel = d.get("mask", [True] * N)
    out = [("null-key row between two rows of one group", b_and(codes[0] == 0, codes[1] == -1, codes[2] == 0) if N >= 3 else False),
           ("interleaved groups", b_and(codes[0] == 0, codes[1] == 1, codes[2] == 0) if N >= 3 and case["G"] > 1 else False)]
    if "values" in d:
        dt = real_np.dtype(case["dtype"])
        out.append(("group starting with a null value", b_and(codes[0] == 0, is_null_val(d["values"][0], dt), sel[0])))
    if "mask" in d:
        out.append(("masked row inside a group", b_and(codes[0] == 0, codes[1] == 0, sel[0], b_not(sel[1]))))
    return out


def signature(case, labels):
    lab = ""
    if labels and ".dtype" in labels[0]:
        lab = ":dtype"
    return f"{case['op']}:{real_np.dtype(case['dtype']).kind}:mask={case['mask']['kind'] != 'none'}:skip_na={case.get('skip_na', True)}{lab}"


# ------------------------------------------------------------------ real code
def real_gb_of(case, conc):
    from . import c03 as C3
    if case.get("lengths"):
        loc = [conc[f"l{c}_"] for c in range(len(case["lengths"]))]
        ptr = [conc[f"p{c}_"] for c in range(len(case["lengths"]))]
        return C3.real_gb(case["G"], chunks=loc, pointers=ptr)
    return C3.real_gb(case["G"], codes=[int(x) for x in conc["k"]])


def real_call(case, conc):
    import groupby_lib.groupby.numba as rnb
    if case.get("via"):
        gb = real_gb_of(case, conc)
        mask = real_np.array(conc["m"], dtype=bool) if case["mask"]["kind"] == "bool_sym" else None
        if case["op"] == "cumcount":
            return real_np.asarray(gb.cumcount(mask))
        vals = np_values(to_float_cells(conc["v"]), case["dtype"])
        return real_np.asarray(getattr(gb, case["op"])(vals, mask, case.get("skip_na", True)))
    codes = real_np.array(conc["k"], dtype="int64")
    mk = case["mask"]["kind"]
    mask = None
    if mk == "bool_sym":
        mask = real_np.array(conc["m"], dtype=bool)
    elif mk == "bool":
        mask = real_np.array(case["mask"]["bits"], dtype=bool)
    if case["op"] == "cumcount":
        return rnb.cumcount(codes, None, case["G"], mask)
    vals = np_values(to_float_cells(conc["v"]), case["dtype"])
    if case.get("chunks"):
        import pyarrow as pa
        parts, p0 = [], 0
        for L in case["chunks"]:
            parts.append(pa.array(vals[p0:p0 + L], from_pandas=False))
            p0 += L
        vals = pa.chunked_array(parts)
    return getattr(rnb, case["op"])(codes, vals, case["G"], mask, case.get("skip_na", True))


class _Out:
    def __init__(self, cells, dtype):
        self.cells = cells
        self.dtype = dtype


def replay(case, conc, cand=None):
    conc = common.fix_nans(conc)
    d = common.concrete_d(__import__(__name__, fromlist=["x"]), case, conc)
    try:
        out = real_call(case, conc)
    except Exception as e:      # noqa: BLE001
        return True, f"real call raised {type(e).__name__}: {e}"
    o = A(np_to_cells(out), out.dtype)
    failed = [lab for lab, b in bads(case, d, o) if conc_bool(b) is True]
    return bool(failed), {"real_output": jsonable(np_to_cells(out)), "real_dtype": str(out.dtype), "failed": failed, "inputs": jsonable(conc)}


def random_concrete(case, rnd):
    N, G, dt = case["N"], case["G"], real_np.dtype(case["dtype"])
    conc = {"k": list(case["codes"]) if case.get("codes") is not None else [rnd.randint(-1, G - 1) for _ in range(N)]}
    if case["op"] != "cumcount":
        if dt.kind == "f":
            conc["v"] = [float("nan") if rnd.random() < 0.25 else float(rnd.randint(-6, 6)) / 2 for _ in range(N)]
        elif dt.kind == "b":
            conc["v"] = [rnd.random() < 0.5 for _ in range(N)]
        elif dt.kind in "mM":
            conc["v"] = [MIN_INT if rnd.random() < 0.2 else rnd.randint(-50, 50) for _ in range(N)]
        else:
            lo, hi = dtype_range(dt)
            conc["v"] = [rnd.randint(max(lo, -9), min(hi, 9)) for _ in range(N)]
    if case["mask"]["kind"] == "bool_sym":
        conc["m"] = [rnd.random() < 0.6 for _ in range(N)]
    return conc


def validate_cases(E, cases, seed, n, fam=None):
    """concrete shadow run vs real compiled run on random inputs"""
    from ..runtime import fresh_runtime
    fam = fam or __import__(__name__, fromlist=["x"])
    rnd = random.Random(seed)
    pool = list(cases)
    rnd.shuffle(pool)
    mism = []
    done = 0
    for case in pool[:n]:
        conc = fam.random_concrete(case, rnd)
        d = common.concrete_d(fam, case, conc)
        rt = fresh_runtime()
        rt.symbolic = False
        if hasattr(fam, "unroll"):
            rt.unroll = fam.unroll(case)
        try:
            sh = fam.call(E, case, d)
            sh_cells = sh.cells if isinstance(sh, A) else list(sh)
        except Exception as e:      # noqa: BLE001
            sh_cells = f"raise {type(e).__name__}: {e}"
        try:
            re_cells = np_to_cells(fam.real_call(case, conc))
        except Exception as e:      # noqa: BLE001
            re_cells = f"raise {type(e).__name__}: {e}"
        done += 1
        ok = (isinstance(sh_cells, list) and isinstance(re_cells, list) and len(sh_cells) == len(re_cells)
              and all(approx_same(a, b) for a, b in zip(sh_cells, re_cells)))
        if not ok and isinstance(sh_cells, str) and isinstance(re_cells, str) and sh_cells.split(":")[0] == re_cells.split(":")[0]:
            ok = True
        if not ok:
            mism.append({"case": fam.case_name(case), "inputs": jsonable(conc), "shadow": jsonable(sh_cells), "real": jsonable(re_cells)})
    return {"cases": done, "mismatches": mism}

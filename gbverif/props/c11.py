"""C11 (in part) - result labelling, order and shape for a SINGLE key: order of the labels (ascending by default, category order for
categoricals, first appearance when sorting is off), only observed labels unless observed_only=False, Series vs frame, column names and
order, name of the Series, each column identical to the result for that input alone.  The real public methods and the real
_apply_gb_reduction / _maybe_squeeze_to_1d / _col_names_from_value_names / util.convert_data_to_arr_list_and_keys / get_array_name run on the
labelled pandas contract model (DESIGN 0 item 9).  Several keys (MultiIndex order and level names) are outside."""
import time
import re
import numpy as real_np
import z3
from ..values import SF, is_sym, conc_bool, b_and, b_or, b_not, ite, same, Unsupported, OutsideModel
from ..symarray import A
from ..models import LIndex, FakeSeries, FakeFrame
from ..runtime import run_paths, FC, _model_gap
from ..harness import Inputs, decide, jsonable, to_float_cells
from . import reductions as R
from . import assembly as ASM
from .common import MergedRT, fix_nans
from .gbcore import make_gb, install_cuts

PROP = "C11"
FORMS = ("array", "named_series", "list2", "dict2", "array2d", "list1", "named_list2", "series_named_0", "dict_int_keys")


def cases(tier, seed):
    out = []
    quick = tier == "quick"
    # (A) order of the labels
    sets = [([1, 0], "appearance", True), ([0, 1], "appearance", True), (["b", "a"], "appearance", True), (["b", "a"], "categorical", True),
            ([1, 0], "appearance", False), (["b", "a"], "appearance", False)]
    if not quick:
        sets += [([2, 0, 1], "appearance", True), (["c", "a", "b"], "appearance", True), ([1, 2, 0], "appearance", False), (["c", "a", "b"], "categorical", True),
                 ([2.5, 1.5], "appearance", True)]
    for labels, state, sort in sets:
        for func in (("sum", "size", "first") if quick else ("sum", "mean", "max", "first", "count", "size")):
            for mk in ("none", "bool_sym"):
                for oo in (True, False):
                    c = {"kind": "order", "func": func, "dtype": "float64", "N": 3 if (quick or len(labels) == 3) else 4, "G": len(labels), "mask": {"kind": mk},
                         "labels": labels, "state": state, "sort": sort, "observed_only": oo}
                    c["name"] = (f"label order/{func}/labels={labels}({state})/sort={sort}/observed_only={oo}/mask={mk}/N={c['N']}")
                    out.append(c)
    # (B) container, column names and order, Series name, column independence
    for form in FORMS:
        for func in (("sum",) if quick else ("sum", "mean", "max")):
            for labels, state in (([1, 0], "appearance"),) if quick else (([1, 0], "appearance"), (["a", "b"], "categorical")):
                c = {"kind": "shape", "form": form, "func": func, "dtype": "float64", "N": 3, "G": 2, "mask": {"kind": "none"}, "labels": labels, "state": state,
                     "sort": True, "observed_only": True}
                c["name"] = f"result shape and names/{func}/values as {form}/labels={labels}({state})"
                out.append(c)
    return out


def _state(E, case, d):
    gb = make_gb(E, case["G"], codes=A(d["codes"], "int64").tag("state:_group_ikey"), sort=case["sort"], index_sorted=False)
    gb._result_index = LIndex(case["labels"], "key", categorical=case["state"] == "categorical")
    return gb


def expected_order(case, present):
    labels = case["labels"]
    if case["state"] == "categorical" or not case["sort"]:
        return [lab for lab in labels if lab in present]
    return sorted(present)


def _thin_preprocess(E):
    """cut of GroupBy._preprocess_arguments that keeps the REAL normalisation of the values argument
    (util.convert_data_to_arr_list_and_keys, get_array_name) and drops only validation and time-zone handling"""
    ut = E["util"]

    def _preprocess_arguments(self, values, mask):
        value_list, value_names = ut["convert_data_to_arr_list_and_keys"](values)
        return value_names, list(value_list), [v.dtype if hasattr(v, "dtype") else v.type for v in value_list], None
    return _preprocess_arguments


def _values_in_form(form, cols):
    a, b = cols
    if form == "array":
        return a, [None], "series", None
    if form == "named_series":
        return FakeSeries(a, None, name="x"), ["x"], "series", "x"
    if form == "list2":
        return [a, b], ["_arr_0", "_arr_1"], "frame", None
    if form == "named_list2":
        return [FakeSeries(a, None, name="p"), FakeSeries(b, None, name="q")], ["p", "q"], "frame", None
    if form == "dict2":
        return {"q": a, "p": b}, ["q", "p"], "frame", None
    if form == "array2d":
        n = len(a)
        return A([c for i in range(n) for c in (a.cells[i], b.cells[i])], "float64", (n, 2)), ["_arr_0", "_arr_1"], "frame", None
    if form == "list1":
        return [a], ["_arr_0"], "frame", None
    if form == "series_named_0":
        return FakeSeries(a, None, name=0), [0], "series", 0          # a falsy but real name (column 0 of a frame built from an array)
    if form == "dict_int_keys":
        return {1: a, 0: b}, [1, 0], "frame", None
    raise Unsupported(form)


def run_case(E, case):
    t0 = time.time()
    inp = Inputs()
    d = R.build(case, inp)
    inp.pre.extend(ASM.state_invariant(case, d["codes"]))
    G, N, f = case["G"], case["N"], case["func"]
    labels = case["labels"]
    dt = real_np.dtype("float64")
    shape_mode = case["kind"] == "shape"
    if shape_mode:
        d["values2"] = inp.values("w", N, dt, sum_safe=True)
    merged = MergedRT()
    GB = install_cuts(E)
    saved = GB._preprocess_arguments
    expect = {}

    def body():
        gb = _state(E, case, d)
        arrs = R.shadow_arrays(case, d)
        kw = dict(mask=arrs["mask"], observed_only=case["observed_only"])
        try:
            if f == "size":
                return "ok", gb.size(**kw)
            if shape_mode:
                vals, names, kind, sname = _values_in_form(case["form"], (arrs["values"], A(d["values2"], dt).tag("input:values")))
                expect.update(names=names, kind=kind, sname=sname)
                return "ok", getattr(gb, f)(vals, **kw)
            return "ok", getattr(gb, f)(arrs["values"], **kw)
        except (Unsupported, OutsideModel):
            raise
        except Exception as e:      # noqa: BLE001
            gap = _model_gap(e)
            if gap:
                raise Unsupported("model gap: " + gap) from e
            return "raised", f"{type(e).__name__}: {e}"
    saved_max = FC.max_paths
    FC.max_paths = 1500
    try:
        if shape_mode:
            GB._preprocess_arguments = _thin_preprocess(E)
        paths = run_paths(body)
    finally:
        FC.max_paths = saved_max
        GB._preprocess_arguments = saved
    rows = R.selected_rows(case, d)
    bads = []
    for pc, (status, out), rt in paths:
        pcz = b_and(*pc) if pc else True
        for kind, g_, c_, where in rt.obligations:
            merged.obligations.append((kind, b_and(pcz, g_), c_, where))
        merged.pre.extend(rt.pre)
        if status == "raised":
            bads.append((f"raises {out[:120]}", pcz))
            continue
        if isinstance(out, FakeFrame):
            got_kind, idx, colnames = "frame", out.index, list(out.columns)
            cols = [out[c].arr for c in out.columns]
            sname = None
        elif isinstance(out, FakeSeries):
            got_kind, idx, colnames, cols, sname = "series", out.index, [None], [out.arr], out.name
        else:
            raise OutsideModel(f"returned {type(out).__name__}")
        got = list(idx.labels)
        # --- order, duplicates, label set
        exp_seq = expected_order(case, got)
        if len(set(map(repr, got))) != len(got):
            bads.append((f"a label is listed twice: {got}", pcz))
        elif got != exp_seq:
            bads.append((f"labels come as {got}, expected order {exp_seq}", pcz))
        for g in range(G):
            present = any(lab == labels[g] and type(lab) is type(labels[g]) for lab in got)
            should = b_or(*[b_and(s, c == g) for c, v, s in rows]) if case["observed_only"] else True
            bads.append((f"label {labels[g]!r} listed={present} against the rule 'exactly the observed labels' (all labels with observed_only=False)",
                         b_and(pcz, b_not(should) if present else should)))
        if not shape_mode:
            continue
        # --- container, names, columns
        if got_kind != expect["kind"]:
            bads.append((f"values given as {case['form']} produced a {got_kind}, expected a {expect['kind']}", pcz))
            continue
        if got_kind == "series":
            if sname != expect["sname"]:
                bads.append((f"Series is named {sname!r}, the input {expect['sname']!r}", pcz))
        elif colnames != expect["names"]:
            bads.append((f"columns {colnames}, expected {expect['names']} (one per input, in input order)", pcz))
            continue
        srcs = [d["values"], d["values2"]]
        if case["form"] == "dict2":
            srcs = [d["values"], d["values2"]]          # dict order q (first array), p (second array)
        for ci, col in enumerate(cols):
            res = []
            present = []
            for g in range(G):
                pos = [i for i, lab in enumerate(got) if lab == labels[g] and type(lab) is type(labels[g])]
                present.append(bool(pos))
                res.append(col.cells[pos[0]] if pos else 0)
            dd = dict(d, values=srcs[ci])
            for lab, cond in R.spec_bads(case, dd, res, None):
                g = int(re.search(r"\[g=(\d+)\]", lab).group(1))
                if present[g]:
                    bads.append((f"column {ci} equals the result for that input alone: {lab}", b_and(pcz, cond)))
    dec = decide(inp, bads, merged)
    r = {"verdict": dec.verdict, "solver_s": dec.solver_s, "symex_s": time.time() - t0 - dec.solver_s, "n_queries": dec.n_queries,
         "obligations": dec.obligations, "failed_obligations": dec.failed_obligations, "witnesses": dec.witnesses, "candidates": [],
         "encoded": sorted(E.encoded), "paths": len(paths)}
    sig = f"{PROP}:{case['kind']}:{f}:{case.get('form', case['state'])}:sort={case['sort']}:observed_only={case['observed_only']}"
    if dec.verdict == "sat":
        r["candidates"].append({"signature": sig, "case": case, "inputs": jsonable(dec.model), "kind": "property", "labels": dec.which[:4]})
    if dec.failed_obligations:
        r["verdict"] = "sat"
        r["candidates"].append({"signature": f"{PROP}:obligation:{case['kind']}:{f}", "case": case, "inputs": jsonable(dec.ob_model), "kind": "obligation",
                                "labels": [f"{a}@{b}" for a, b in dec.failed_obligations[:4]]})
    return r


def replay(case, conc, cand=None):
    """through the public constructor with real containers"""
    import pandas as pd
    from groupby_lib import GroupBy
    conc = fix_nans(conc)
    G, N, f = case["G"], case["N"], case["func"]
    labels = case["labels"]
    codes = [int(x) for x in conc["k"]]
    mask = real_np.array(conc["m"], dtype=bool) if "m" in conc else None
    a = R.np_values(to_float_cells(conc["v"]), "float64") if f != "size" else None
    b = R.np_values(to_float_cells(conc["w"]), "float64") if "w" in conc else None
    if case["state"] == "categorical":
        keys = pd.Categorical.from_codes(codes, categories=labels)
    elif all(isinstance(x, (int, float)) for x in labels):
        keys = real_np.array([float(labels[c]) if c >= 0 else float("nan") for c in codes])
    else:
        keys = real_np.array([labels[c] if c >= 0 else None for c in codes], dtype=object)
    problems = []
    try:
        gb = GroupBy(keys, sort=case["sort"])
        kw = dict(mask=mask, observed_only=case["observed_only"])
        exp_kind, exp_names, exp_sname = "series", None, None
        if f == "size":
            out = gb.size(**kw)
        elif case["kind"] == "shape":
            form = case["form"]
            vals = {"array": a, "named_series": pd.Series(a, name="x"), "list2": [a, b], "named_list2": [pd.Series(a, name="p"), pd.Series(b, name="q")],
                    "dict2": {"q": a, "p": b}, "array2d": real_np.column_stack([a, b]), "list1": [a], "series_named_0": pd.Series(a, name=0),
                    "dict_int_keys": {1: a, 0: b}}[form]
            exp_kind = "series" if form in ("array", "named_series", "series_named_0") else "frame"
            exp_sname = "x" if form == "named_series" else (0 if form == "series_named_0" else None)
            exp_names = {"list2": ["_arr_0", "_arr_1"], "named_list2": ["p", "q"], "dict2": ["q", "p"], "array2d": ["_arr_0", "_arr_1"], "list1": ["_arr_0"],
                         "dict_int_keys": [1, 0]}.get(form)
            out = getattr(gb, f)(vals, **kw)
        else:
            out = getattr(gb, f)(a, **kw)
        got = list(out.index)
        sel = [i for i in range(N) if codes[i] >= 0 and (mask is None or mask[i])]
        observed = [labels[g] for g in range(G) if any(codes[i] == g for i in sel)] if case["observed_only"] else list(labels)
        if case["state"] == "categorical" or not case["sort"]:
            first_seen = list(dict.fromkeys(labels[c] for c in codes if c >= 0)) if (not case["sort"] and case["state"] != "categorical") else list(labels)
            exp_seq = [lab for lab in first_seen if lab in observed] + [lab for lab in labels if lab in observed and lab not in first_seen]
        else:
            exp_seq = sorted(observed)
        if [x for x in got] != exp_seq:
            problems.append(f"labels {got}, expected {exp_seq}")
        kind = "series" if isinstance(out, pd.Series) else "frame"
        if kind != exp_kind:
            problems.append(f"a {kind} was returned, expected a {exp_kind}")
        elif kind == "series" and case["kind"] == "shape" and not (out.name == exp_sname and type(out.name) is type(exp_sname)):
            problems.append(f"Series named {out.name!r}, expected {exp_sname!r}")
        elif kind == "frame":
            if list(out.columns) != exp_names:
                problems.append(f"columns {list(out.columns)}, expected {exp_names}")
            else:
                for ci, src in enumerate([a, b][:len(exp_names)]):
                    alone = getattr(gb, f)(src, **kw)
                    if not real_np.array_equal(real_np.asarray(out.iloc[:, ci], float), real_np.asarray(alone, float), equal_nan=True):
                        problems.append(f"column {ci} differs from the result for that input alone")
    except Exception as e:      # noqa: BLE001
        problems.append(f"real call raised {type(e).__name__}: {e}")
    return bool(problems), {"problems": problems[:5], "codes": codes, "labels": labels, "inputs": jsonable(conc)}


META = {
    "glue": ['groupby_lib/groupby/core.py::_apply_gb_reduction', 'groupby_lib/groupby/core.py::_maybe_squeeze_to_1d', 'groupby_lib/groupby/core.py::_col_names_from_value_names',
             'groupby_lib/groupby/core.py::_labels_argsort', 'groupby_lib/util.py::argsort_index_numeric_only', 'groupby_lib/util.py::convert_data_to_arr_list_and_keys',
             'groupby_lib/util.py::get_array_name', 'groupby_lib/util.py::mean_from_sum_count'],
    "bounds": {"quick": {"N": 3, "G": 2, "label sets": 6, "value containers": 7}, "thorough": {"N": "3-4", "G": "2-3", "label sets": 11, "value containers": 7}},
    "enumerated": ["label values and their first-appearance order", "key kind (plain / categorical)", "sort on/off", "observed_only", "reducer", "container of the values"],
    "symbolic": ["group codes", "values and null flags", "boolean mask bits"],
    "assumptions": ["single key only; the real public methods and the real result assembly run on a directly constructed state and on the labelled pandas contract "
                    "model (models.LIndex/FakeSeries/FakeFrame: DESIGN 0 item 9); state invariant of the factorizer assumed for plain keys",
                    "cuts: _preprocess_arguments is cut to the real convert_data_to_arr_list_and_keys (validation and time-zone handling dropped), "
                    "_convert_arr_to_pandas_series builds the Series fake; candidates are replayed through GroupBy(keys, sort=...) with real containers",
                    "with sorting off the expected order is the order of the codes (first appearance)"],
    "outside": ["several keys: lexicographic order and one index level per key named after the keys (MultiIndex)", "index names", "polars / pyarrow containers and frames as values",
                "margins rows", "transform (C07)"],
}

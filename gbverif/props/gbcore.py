"""Directly constructed GroupBy states on the shadow class of core.py (drive the unit, skip initialisation)."""
import itertools
import numpy as real_np
import z3
from ..values import SF, is_sym, conc_bool, b_and, b_or, b_not, ite, same, Unsupported
from ..symarray import A
from ..models import FakeChunked, FakeSeries, FakeIndex, FakeRangeIndex, NumbaList

_INSTALLED = set()


def install_cuts(E):
    """cuts on the shadow class (methods call each other through the class): recorded in every evidence file"""
    core = E["core"]
    GB = core["GroupBy"]
    if id(GB) in _INSTALLED:
        return GB

    def _preprocess_arguments(self, values, mask):
        vl = list(values) if isinstance(values, (list, tuple)) else [values]
        names = [getattr(v, "name", None) for v in vl]
        return names, vl, [v.dtype if hasattr(v, "dtype") else v.type for v in vl], None

    def _convert_arr_to_pandas_series(self, arr, orig_type, index):
        return FakeSeries(arr, index)

    def _get_row_selection(self, values, ilocs, keep_input_index=False, n=None):
        """cut: the positional take / index restoration is pandas code; the positions are the result"""
        out = FakeSeries(ilocs.ravel() if hasattr(ilocs, "ravel") else ilocs, None)
        out.ilocs_shape = tuple(getattr(ilocs, "shape", ()))
        return out

    def _build_group_sorted_index(self, inner_index=None):
        """cut: the (group label, original index) MultiIndex is pandas code"""
        return FakeIndex(len(self))

    GB._build_group_sorted_index = _build_group_sorted_index
    GB._real_get_row_selection = GB.__dict__["_get_row_selection"]          # kept for the index-restoration family of C15
    GB._get_row_selection = _get_row_selection
    GB._preprocess_arguments = _preprocess_arguments
    GB._convert_arr_to_pandas_series = _convert_arr_to_pandas_series
    GB._values_is_polars = staticmethod(lambda type_list: False)
    _INSTALLED.add(id(GB))
    return GB


def make_gb(E, ngroups, codes=None, chunks=None, pointers=None, sort=False, index_sorted=True, max_threads=None):
    """codes: A (contiguous) | chunks: list of A (chunk-local or global codes) with optional pointer tables"""
    GB = install_cuts(E)
    gb = object.__new__(GB)
    if chunks is not None:
        gb._group_ikey = FakeChunked(list(chunks))
    else:
        gb._group_ikey = codes
    gb._group_key_pointers = list(pointers) if pointers is not None else None
    gb._result_index = FakeIndex(ngroups)
    gb._sort = sort
    gb._index_is_sorted = index_sorted
    gb._key_index = None
    if max_threads is not None:
        gb.__class__ = _with_threads(GB, max_threads)
    return gb


_THREAD_CLASSES = {}


def _with_threads(GB, t):
    k = (id(GB), t)
    if k not in _THREAD_CLASSES:
        _THREAD_CLASSES[k] = type(f"GroupBy_t{t}", (GB,), {"_max_threads_for_numba": property(lambda self, t=t: t)})
    return _THREAD_CLASSES[k]


def compositions(n, maxparts, minparts=1):
    out = []
    for k in range(minparts, maxparts + 1):
        for cuts in itertools.combinations(range(1, n), k - 1):
            b = (0,) + cuts + (n,)
            out.append([b[i + 1] - b[i] for i in range(k)])
    return out


class ChunkedState:
    """symbolic chunked key representation: chunk lengths concrete, local codes symbolic in [-1, u_c),
    pointer tables symbolic injective maps into [0, G)"""
    def __init__(self, inp, lengths, uniques, G, allow_null=True, prefix=""):
        self.lengths = lengths
        self.uniques = uniques
        self.G = G
        self.local = []
        self.pointers = []
        for c, (L, u) in enumerate(zip(lengths, uniques)):
            self.local.append(inp.ints(f"{prefix}l{c}_", L, -1 if allow_null else 0, u - 1))
            p = inp.ints(f"{prefix}p{c}_", u, 0, G - 1)
            for a in range(u):
                for b in range(a + 1, u):
                    inp.pre.append(p[a] != p[b])
            self.pointers.append(p)

    def global_codes(self):
        out = []
        for loc, p in zip(self.local, self.pointers):
            for x in loc:
                e = -1
                for j in range(len(p) - 1, -1, -1):
                    e = ite(x == j, p[j], e)
                out.append(e)
        return out

    def chunk_arrays(self):
        return [A(list(l), "int64").tag("state:_group_ikey") for l in self.local]

    def pointer_arrays(self):
        return [A(list(p), "int64").tag("state:_group_key_pointers") for p in self.pointers]

    def concrete_from(self, conc, prefix=""):
        loc = [conc[f"{prefix}l{c}_"] for c in range(len(self.lengths))]
        ptr = [conc[f"{prefix}p{c}_"] for c in range(len(self.lengths))]
        return loc, ptr

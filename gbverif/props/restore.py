"""Harness family for the index restoration of row selections: the real GroupBy._get_row_selection(keep_input_index=True) on the pandas
contract model.  The positions are arbitrary (what the kernels return is decided by the other C15 families): every kept position must come
back once, in order, with ITS OWN index label and unmodified values.  The values carry a RangeIndex with symbolic start and step."""
import numpy as real_np
import z3
from ..values import SF, is_sym, b_and, b_or, b_not, ite, same, total, Unsupported
from ..symarray import A
from ..models import FakeSeries, FakeFrame, FakeRangeIndex, SymLabelIndex, LIndex
from ..harness import jsonable


def case_name(c):
    return f"index restoration of selected rows/RangeIndex(symbolic start, step)/N={c['N']},positions={c['L']}{' as a ' + 'x'.join(map(str, c['shape'])) + ' matrix' if c.get('shape') else ''}/value columns={c['ncols']}"


def build(case, inp):
    N, L = case["N"], case["L"]
    start = inp.scalar_int("start", -50, 50)
    step = inp.scalar_int("step", -5, 5)
    inp.pre.append(step != 0)
    p = inp.ints("p", L, -1, N - 1)
    for i in range(L):
        for j in range(i + 1, L):
            inp.pre.append(z3.Or(p[i] == -1, p[i] != p[j]))          # the kernels never return a row twice
    if case.get("shape"):
        ncol = case["shape"][1]
        for i in range(L - 1):
            if i // ncol == (i + 1) // ncol:
                # a row of head(): ascending positions first, then -1 padding
                inp.pre.append(z3.Or(p[i + 1] == -1, z3.And(p[i] != -1, p[i] < p[i + 1])))
    cols = [inp.floats(f"v{c}_", N, nullable=False) for c in range(case["ncols"])]
    return {"start": start, "step": step, "p": p, "cols": cols}


def call(E, case, d):
    from .gbcore import make_gb
    N = case["N"]
    gb = make_gb(E, case["L"], codes=A([0] * N, "int64"))
    gb._sort = False
    idx = FakeRangeIndex(start=d["start"], step=d["step"], n=N)
    sers = [FakeSeries(A(c, "float64").tag("input:values"), idx, name=f"c{j}") for j, c in enumerate(d["cols"])]
    values = sers[0] if len(sers) == 1 else {s.name: s for s in sers}
    real = type(gb)._real_get_row_selection
    shape = tuple(case["shape"]) if case.get("shape") else (case["L"],)          # head/tail hand over a (groups, n) matrix, nth a vector
    return real(gb, values, A(list(d["p"]), "int64", shape), True, None)


def _gather(cells, p, N):
    out = cells[N - 1]
    for i in range(N - 2, -1, -1):
        out = ite(p == i, cells[i], out)
    return out


def bads(case, d, out):
    N, L = case["N"], case["L"]
    p = d["p"]
    if isinstance(out, FakeSeries):
        series = [out]
    elif isinstance(out, FakeFrame):
        series = [out[c] for c in out.columns]
    else:
        return [(f"a Series or DataFrame was expected, got {type(out).__name__}", True)]
    if len(series) != case["ncols"]:
        return [(f"{len(series)} columns returned for {case['ncols']} inputs", True)]
    idx = series[0].index
    m = len(series[0].arr)
    kept = [p[i] > -1 for i in range(L)]
    bl = [("number of returned rows == number of selected positions", b_not(total([ite(k, 1, 0) for k in kept], 0) == m))]
    if isinstance(idx, SymLabelIndex):
        labs = idx.cells
    elif isinstance(idx, LIndex):
        labs = list(idx.labels)
    else:
        return [(f"the result carries no label per row ({type(idx).__name__})", True)]
    if len(labs) != m:
        return [("index length differs from the number of rows", True)]
    # the order ACROSS groups is not part of the property (a sorting grouper re-orders by label anyway): every kept position comes back
    # exactly once with its label and values; positions of one group (one row of the matrix) keep their relative order
    want = [d["start"] + d["step"] * p[i] for i in range(L)]
    for j in range(m):
        for j2 in range(j + 1, m):
            bl.append((f"rows {j},{j2}: a position is returned once (labels differ)", labs[j] == labs[j2]))
    for i in range(L):
        found = []
        for j in range(m):
            ok = labs[j] == want[i]
            for c, s_ in enumerate(series):
                ok = b_and(ok, same(SF.of(s_.arr.cells[j]), SF.of(_gather(d["cols"][c], p[i], N))))
            found.append(ok)
        bl.append((f"selected position {i}: returned with its own label (start + step * position) and unmodified values", b_and(kept[i], b_not(b_or(*found)))))
    ncol = case["shape"][1] if case.get("shape") else 1
    for i in range(L):
        for i2 in range(i + 1, L):
            if i // ncol != i2 // ncol:
                continue
            for j in range(m):
                for j2 in range(0, j + 1):
                    bl.append((f"positions {i},{i2} of one group keep their relative order",
                               b_and(kept[i], kept[i2], labs[j] == want[i], labs[j2] == want[i2])))
    return bl


def signature(case, labels):
    return f"restore:cols={case['ncols']}"


def replay(case, conc, cand=None):
    """public route: a categorical key built so that nth(0) selects exactly the positions of the counterexample"""
    import pandas as pd
    from groupby_lib import GroupBy
    if case.get("shape"):
        return replay_matrix(case, conc)
    N, L = case["N"], case["L"]
    p = [int(x) for x in conc["p"]]

    def _scalar(x):
        return int(x[0] if isinstance(x, (list, tuple)) else x)
    start, step = _scalar(conc["start"]), _scalar(conc["step"])
    codes = [-1] * N
    for g, pos in enumerate(p):
        if pos >= 0:
            codes[pos] = g
    key = pd.Categorical.from_codes(codes, categories=list(range(L)))
    idx = pd.RangeIndex(start, start + step * N, step)
    cols = {f"c{c}": pd.Series([float(x) for x in conc[f"v{c}_"]], index=idx, name=f"c{c}") for c in range(case["ncols"])}
    values = cols["c0"] if case["ncols"] == 1 else pd.DataFrame(cols)
    try:
        out = GroupBy(key).nth(values, 0, keep_input_index=True)
    except Exception as e:      # noqa: BLE001
        return True, f"real call raised {type(e).__name__}: {e}"
    exp_pos = sorted(x for x in p if x >= 0)          # nth lists the groups in label order = the order of p; compare as sets of (label, values)
    frame = out.to_frame() if isinstance(out, pd.Series) else out
    got = sorted((int(lab), tuple(float(x) for x in row)) for lab, row in zip(frame.index, frame.to_numpy()))
    exp = sorted((start + step * q, tuple(float(conc[f"v{c}_"][q]) for c in range(case["ncols"]))) for q in exp_pos)
    bad = got != exp
    return bad, {"returned (label, values)": got, "expected": exp, "positions": p, "start": start, "step": step}


def replay_matrix(case, conc):
    """head(n) on a key whose group g holds exactly the kept positions of row g (ascending, as the kernels produce them)"""
    import pandas as pd
    from groupby_lib import GroupBy
    N, L = case["N"], case["L"]
    G, n = case["shape"]
    p = [int(x) for x in conc["p"]]

    def _scalar(x):
        return int(x[0] if isinstance(x, (list, tuple)) else x)
    start, step = _scalar(conc["start"]), _scalar(conc["step"])
    rows = [[q for q in p[g * n:(g + 1) * n] if q >= 0] for g in range(G)]
    codes = [-1] * N
    for g, r in enumerate(rows):
        for q in r:
            codes[q] = g
    key = pd.Categorical.from_codes(codes, categories=list(range(G)))
    idx = pd.RangeIndex(start, start + step * N, step)
    cols = {f"c{c}": pd.Series([float(x) for x in conc[f"v{c}_"]], index=idx, name=f"c{c}") for c in range(case["ncols"])}
    values = cols["c0"] if case["ncols"] == 1 else pd.DataFrame(cols)
    try:
        out = GroupBy(key).head(values, n, keep_input_index=True)
    except Exception as e:      # noqa: BLE001
        return True, f"real call raised {type(e).__name__}: {e}"
    frame = out.to_frame() if isinstance(out, pd.Series) else out
    got = [(int(lab), tuple(float(x) for x in row)) for lab, row in zip(frame.index, frame.to_numpy())]
    exp = [(start + step * q, tuple(float(conc[f"v{c}_"][q]) for c in range(case["ncols"]))) for r in rows for q in r]
    problems = []
    if sorted(got) != sorted(exp):
        problems.append("the returned (label, values) rows are not the selected ones")
    else:
        labs = [g_[0] for g_ in got]
        for r in rows:
            seq = [labs.index(start + step * q) for q in r]
            if seq != sorted(seq):
                problems.append("rows of one group are not in their original relative order")
    return bool(problems), {"problems": problems, "returned": got, "expected (any order across groups)": exp, "positions": p, "start": start, "step": step}

"""Shared harness for the array-level group reductions (numba.group_*): symbolic build, shadow call,
declarative per-group specification, real-code replay, translator validation.  Used by C01, C03, C04, C05, C06, C12."""
import math
import random
import time
from fractions import Fraction
import numpy as real_np
import z3
from ..values import (SF, MIN_INT, is_sym, conc_bool, b_and, b_or, b_not, ite, same, isnan, total, Unsupported, OutsideModel)
from ..symarray import A, SymLen
from ..models import NumbaList, FakeChunked
from ..runtime import fresh_runtime, current
from ..harness import Inputs, decide, dtype_range, to_float_cells, jsonable

FUNCS = ("size", "count", "sum", "sum_squares", "mean", "min", "max", "first", "last")
ENTRY = {"size": "group_size", "count": "group_count", "sum": "group_sum", "sum_squares": "group_sum_squares",
         "mean": "group_mean", "min": "group_min", "max": "group_max", "first": "group_first", "last": "group_last"}


# ------------------------------------------------------------------ helpers polymorphic in python numbers / symbolic scalars
def is_null_val(v, dt):
    dt = real_np.dtype(dt)
    if dt.kind == "f":
        return isnan(v)
    if dt.kind in "mM" or (dt.kind == "i" and dt.itemsize == 8):
        r = v == MIN_INT
        return r if is_sym(r) else bool(r)
    return False


def null_of(dt, func=None):
    """what a group without any accepted value reports (library convention)"""
    dt = real_np.dtype(dt)
    if func in ("sum", "sum_squares", "count", "size"):
        return 0.0 if dt.kind == "f" else 0
    if func == "mean" and dt.kind not in "mM":
        return float("nan")
    if dt.kind == "f":
        return float("nan")
    if dt.kind in "mM":
        return MIN_INT
    if dt.kind == "i":
        return int(real_np.iinfo(dt).min)
    if dt.kind == "u":
        return int(real_np.iinfo(dt).max)
    if dt.kind == "b":
        return False
    raise Unsupported(str(dt))


def approx_same(a, b, exact=False):
    """result equality: exact in the symbolic (MATH) domain, tolerant to rounding on concrete floats"""
    if isinstance(a, SF) or isinstance(b, SF) or is_sym(a) or is_sym(b):
        return same(a, b)
    if isinstance(a, bool) and isinstance(b, bool):
        return a == b
    fa, fb = float(a), float(b)
    if fa != fa or fb != fb:
        return (fa != fa) and (fb != fb)
    if exact or (isinstance(a, int) and isinstance(b, int)):
        return a == b
    return math.isclose(fa, fb, rel_tol=1e-9, abs_tol=1e-9)


def num(x):
    if isinstance(x, bool):
        return int(x)
    if is_sym(x) and z3.is_bool(x):
        return z3.If(x, z3.IntVal(1), z3.IntVal(0))
    return x


def count_true(conds):
    return total([ite(c, 1, 0) for c in conds], 0)


def gather(cells, pos):
    """cells[pos] with python wrap-around for a symbolic position in [-n, n)"""
    n = len(cells)
    if not is_sym(pos):
        return cells[pos]
    p = z3.If(pos < 0, pos + n, pos)
    e = cells[n - 1]
    for k in range(n - 2, -1, -1):
        e = ite(p == k, cells[k], e)
    return e


# ------------------------------------------------------------------ case -> inputs
def mask_desc(m):
    k = m["kind"]
    if k == "none":
        return "nomask"
    if k == "bool_sym":
        return "boolmask(symbolic)"
    if k == "bool":
        return "boolmask(" + "".join("1" if b else "0" for b in m["bits"]) + ")"
    if k == "slice":
        return f"slice({m['start']},{m['stop']},{m['step']})"
    if k == "fancy":
        return f"positions(L={m['L']})"
    return k


def case_name(c):
    s = f"group_{c['func']}/{c['dtype']}/N={c['N']},G={c['G']}/{mask_desc(c['mask'])}/threads={c.get('threads', 1)}"
    if c.get("chunks"):
        s += "/valchunks=" + "+".join(map(str, c["chunks"]))
    if c.get("order") is not None:
        s += "/order=" + "".join(map(str, c["order"]))
    if c.get("codes") is not None:
        s += "/codes=" + ",".join(map(str, c["codes"]))
    if c.get("int_sentinel"):
        s += "/alphabet with the integer null sentinel"
    return s


def build(case, inp):
    N, G, dt = case["N"], case["G"], real_np.dtype(case["dtype"])
    d = {}
    if case.get("codes") is not None:
        d["codes"] = list(case["codes"])
        if inp.concrete is None:
            inp.vars["k"] = ("const", list(case["codes"]), "int64")
    else:
        d["codes"] = inp.codes("k", N, G)
    if case.get("int_sentinel"):
        # plain int64 data over a small alphabet that CONTAINS the library's integer null sentinel (at most one, so nothing overflows)
        vs = inp.ints("v", N, MIN_INT, 8, dt)
        if inp.concrete is None:
            for v in vs:
                inp.pre.append(z3.Or(v == MIN_INT, z3.And(v >= 0, v <= 8)))
            inp.pre.append(z3.Sum([z3.If(v == MIN_INT, 1, 0) for v in vs]) <= 1)
        d["values"] = vs
    elif case["func"] != "size":
        d["values"] = inp.values("v", N, dt, sum_safe=("squares" if case["func"] == "sum_squares" else case["func"] in ("sum", "mean")))
    m = case["mask"]
    if m["kind"] == "bool_sym":
        d["mask"] = inp.bools("m", N)
    elif m["kind"] == "bool":
        d["mask"] = list(m["bits"])
    elif m["kind"] == "fancy":
        d["mask"] = inp.ints("p", m["L"], -N, N - 1)
    return d


def selected_rows(case, d):
    """[(code, value, selected)] in processing order, as array indexing with the mask would produce it"""
    N = case["N"]
    codes = d["codes"]
    vals = d.get("values", codes)
    m = case["mask"]
    rows = [(codes[i], vals[i], True) for i in range(N)]
    if m["kind"] == "none":
        return rows
    if m["kind"] in ("bool_sym", "bool"):
        return [(c, v, d["mask"][i]) for i, (c, v, _) in enumerate(rows)]
    if m["kind"] == "slice":
        return rows[slice(m["start"], m["stop"], m["step"])]
    if m["kind"] == "fancy":
        return [(gather(codes, p), gather(vals, p), True) for p in d["mask"]]
    raise Unsupported(m["kind"])


# ------------------------------------------------------------------ specification (predicates over the result)
def spec_bads(case, d, res, count_res=None, label=""):
    """list of (label, violation condition) for result cells `res` (length >= G; extra slots ignored)"""
    func, G, dt = case["func"], case["G"], real_np.dtype(case["dtype"])
    rows = selected_rows(case, d)
    bads = []
    sum_nan_aware = not (func == "sum" and dt.kind in "ui")
    for g in range(G):
        member = [b_and(s, c == g) for c, v, s in rows]
        if func == "size":
            valid = member
        elif func == "sum" and not sum_nan_aware:
            valid = member
        elif case.get("int_sentinel"):
            # the null-skipping reducers treat the integer sentinel in plain int64 data as null
            valid = [b_and(mb, b_not(num(v) == MIN_INT)) for mb, (c, v, s) in zip(member, rows)]
        else:
            valid = [b_and(mb, b_not(is_null_val(v, dt))) for mb, (c, v, s) in zip(member, rows)]
        r = res[g]
        nvalid = count_true(valid)
        anyvalid = b_or(*valid)
        lab = f"{label}{func}[g={g}]"
        if func in ("size", "count"):
            bads.append((lab, b_not(num(r) == nvalid)))
        elif func == "sum" and case.get("int_sentinel"):
            # plain integer sums do not skip: a null sentinel among the group's selected rows makes the sum null
            poisoned = b_or(*[b_and(mb, num(v) == MIN_INT) for mb, (c, v, s) in zip(member, rows)])
            exp = ite(poisoned, MIN_INT, total([ite(mb, num(v), 0) for mb, (c, v, s) in zip(member, rows)], 0))
            bads.append((lab, b_not(same(r, exp))))
        elif func in ("sum", "sum_squares"):
            if func == "sum_squares":
                # squares are taken in floating point whatever the value dtype (an int64 square does not fit into 64 bits)
                terms = [ite(vd, _sq(SF.of(num(v))), SF.of(0.0)) for vd, (c, v, s) in zip(valid, rows)]
            else:
                terms = [ite(vd, num(v), 0) for vd, (c, v, s) in zip(valid, rows)]
            exp = total(terms, SF.of(0.0) if func == "sum_squares" else 0)
            if dt.kind == "f" or func == "sum_squares":
                exp = exp if isinstance(exp, SF) else (SF.of(exp) if is_sym(exp) else float(exp))
            bads.append((lab, b_not(approx_same(r, exp))))
        elif func == "mean":
            terms = [ite(vd, num(v), 0) for vd, (c, v, s) in zip(valid, rows)]
            sm = total(terms, 0)
            if dt.kind in "mM":
                # float mean truncated back to the temporal dtype; empty -> NaT
                from ..symarray import fdiv, coerce
                q = fdiv(sm, nvalid)
                exp = coerce(q, real_np.dtype("int64"))
                bads.append((lab, b_not(approx_same(r, exp))))
            else:
                from ..symarray import fdiv
                exp = fdiv(sm, nvalid)
                bads.append((lab, b_not(approx_same(r, exp))))
        elif func in ("min", "max"):
            nullv = null_of(dt)
            is_member_val = b_or(*[b_and(vd, same(r, v)) for vd, (c, v, s) in zip(valid, rows)])
            if func == "min":
                bounds = b_and(*[b_or(b_not(vd), _le(r, v)) for vd, (c, v, s) in zip(valid, rows)])
            else:
                bounds = b_and(*[b_or(b_not(vd), _le(v, r)) for vd, (c, v, s) in zip(valid, rows)])
            ok = ite(anyvalid, b_and(is_member_val, bounds), same(r, nullv))
            bads.append((lab, b_not(ok)))
        elif func in ("first", "last"):
            nullv = null_of(dt)
            opts = []
            n = len(rows)
            for i in range(n):
                others = range(0, i) if func == "first" else range(i + 1, n)
                opts.append(b_and(valid[i], b_not(b_or(*[valid[j] for j in others])), same(r, rows[i][1])))
            ok = ite(anyvalid, b_or(*opts), same(r, nullv))
            bads.append((lab, b_not(ok)))
        else:
            raise Unsupported(func)
        if count_res is not None:
            # the count returned next to a result feeds mean / observed filters: number of accepted values
            if func == "last":
                pass      # `last` counts rows rather than non-null values; only its positivity pattern is used
            else:
                bads.append((lab + ".count", b_not(num(count_res[g]) == nvalid)))
    return bads


def _sq(x):
    if isinstance(x, SF):
        return x * x
    if is_sym(x):
        return x ** 2
    return x * x


def _le(a, b):
    a, b = num(a), num(b)
    if isinstance(a, SF) or isinstance(b, SF):
        return SF.of(a).le(b)
    r = a <= b
    return r


def witnesses(case, d):
    rows = selected_rows(case, d)
    dt = real_np.dtype(case["dtype"])
    G = case["G"]
    out = []
    mem0 = [b_and(s, c == 0) for c, v, s in rows]
    val0 = [b_and(mb, b_not(is_null_val(v, dt))) for mb, (c, v, s) in zip(mem0, rows)]
    out.append(("group with rows but no non-null value", b_and(b_or(*mem0), b_not(b_or(*val0)))))
    out.append(("group without any selected row", b_not(b_or(*mem0))))
    out.append(("null-key row among the selected rows", b_or(*[b_and(s, c == -1) for c, v, s in rows])))
    if G > 1 and len(rows) > 1:
        out.append(("groups first appear in descending order", b_and(rows[0][2], rows[0][0] == G - 1, b_or(*[b_and(s, c == 0) for c, v, s in rows[1:]]))))
    if case["mask"]["kind"] == "fancy" and case["mask"]["L"] > 1:
        p = d["mask"]
        out.append(("repeated position in an integer mask", p[0] == p[1]))
        out.append(("negative position in an integer mask", p[0] < 0))
    T = case.get("threads", 1)
    if T > 1 and case["mask"]["kind"] == "none":
        N = case["N"]
        first_block = rows[: math.ceil(N / T)]
        rest = rows[math.ceil(N / T):]
        out.append(("group absent from the first block but present later",
                    b_and(b_not(b_or(*[b_and(s, c == 0) for c, v, s in first_block])), b_or(*[b_and(s, c == 0) for c, v, s in rest]))))
    if case["mask"]["kind"] == "bool_sym":
        out.append(("all-false mask", b_not(b_or(*d["mask"]))))
    return out


# ------------------------------------------------------------------ shadow call
def shadow_arrays(case, d, tag=True):
    dt = real_np.dtype(case["dtype"])
    codes = A(d["codes"], "int64")
    if tag:
        codes.tag("input:group_key")
    out = {"codes": codes}
    if case["func"] != "size":
        vals = A(d["values"], dt)
        if tag:
            vals.tag("input:values")
        if case.get("chunks"):
            parts = []
            p = 0
            for L in case["chunks"]:
                parts.append(vals[p:p + L])
                p += L
            out["values"] = FakeChunked(parts)
        else:
            out["values"] = vals
    m = case["mask"]
    if m["kind"] in ("bool_sym", "bool"):
        out["mask"] = A(d["mask"], "bool")
    elif m["kind"] == "fancy":
        out["mask"] = A(d["mask"], "int64")
    elif m["kind"] == "slice":
        out["mask"] = slice(m["start"], m["stop"], m["step"])
    else:
        out["mask"] = None
    if tag and isinstance(out["mask"], A):
        out["mask"].tag("input:mask")
    return out


def shadow_call(E, case, arrs, return_count=False):
    nbm = E["gbnumba"]
    from ..models import Schedule
    Schedule.order = tuple(case["order"]) if case.get("order") is not None else None
    G = case["G"]
    T = case.get("threads", 1)
    f = nbm[ENTRY[case["func"]]]
    if case["func"] == "size":
        return f(arrs["codes"], G, arrs["mask"], T)
    if return_count:
        return f(arrs["codes"], arrs["values"], G, arrs["mask"], T, True)
    return f(arrs["codes"], arrs["values"], G, arrs["mask"], T)


# ------------------------------------------------------------------ real call (replay on the compiled code)
def np_values(cells, dt):
    dt = real_np.dtype(dt)
    if dt.kind == "f":
        return real_np.array([float(c) for c in cells], dtype=dt)
    if dt.kind == "b":
        return real_np.array([bool(c) for c in cells], dtype=bool)
    if dt.kind in "mM":
        return real_np.array([int(c) for c in cells], dtype="int64").view(dt)
    return real_np.array([int(c) for c in cells], dtype=dt)


def real_args(case, conc):
    N, G = case["N"], case["G"]
    codes = real_np.array(conc["k"], dtype="int64")
    args = {"codes": codes}
    if case["func"] != "size":
        vals = np_values(to_float_cells(conc["v"]), case["dtype"])
        if case.get("chunks"):
            import pyarrow as pa
            parts = []
            p = 0
            for L in case["chunks"]:
                parts.append(vals[p:p + L])
                p += L
            args["values"] = pa.chunked_array([pa.array(x, from_pandas=False) for x in parts])
        else:
            args["values"] = vals
    m = case["mask"]
    if m["kind"] == "bool_sym":
        args["mask"] = real_np.array(conc["m"], dtype=bool)
    elif m["kind"] == "bool":
        args["mask"] = real_np.array(m["bits"], dtype=bool)
    elif m["kind"] == "fancy":
        args["mask"] = real_np.array(conc["p"], dtype="int64")
    elif m["kind"] == "slice":
        args["mask"] = slice(m["start"], m["stop"], m["step"])
    else:
        args["mask"] = None
    return args


def real_call(case, conc, return_count=False):
    import groupby_lib.groupby.numba as rnb
    a = real_args(case, conc)
    f = getattr(rnb, ENTRY[case["func"]])
    G, T = case["G"], case.get("threads", 1)
    if case["func"] == "size":
        return f(a["codes"], G, a["mask"], T)
    if return_count:
        return f(a["codes"], a["values"], G, a["mask"], T, True)
    return f(a["codes"], a["values"], G, a["mask"], T)


def np_to_cells(x):
    x = real_np.asarray(x)
    if x.dtype.kind in "mM":
        x = x.view("int64")
    return [v.item() for v in x.ravel()]


def concrete_inputs(case, conc):
    """python-number version of `build` from a model / random draw"""
    c = {k: to_float_cells(v) for k, v in conc.items()}
    inp = Inputs(concrete=c)
    return build(case, inp)


def replay(case, conc, with_count=False):
    """-> (violates: bool, detail).  Runs the real compiled function and evaluates the spec on python numbers."""
    conc = {k: [float("nan") if x is None else x for x in v] if isinstance(v, list) else v for k, v in conc.items()}
    d = concrete_inputs(case, conc)
    cnt = None
    try:
        out = real_call(case, conc, return_count=with_count and case["func"] != "size")
        if with_count and case["func"] != "size":
            out, cnt = out
            cnt = np_to_cells(cnt)
    except Exception as e:      # noqa: BLE001
        return True, f"real call raised {type(e).__name__}: {e}"
    cells = np_to_cells(out)
    bads = spec_bads(case, d, cells, cnt)
    failed = [lab for lab, b in bads if conc_bool(b) is True]
    detail = {"real_output": jsonable(cells), "failed": failed, "inputs": jsonable(conc)}
    return bool(failed), detail


def signature_of(case, which):
    m = case["mask"]["kind"]
    return f"{ENTRY[case['func']]}:{real_np.dtype(case['dtype']).kind}:mask={m}:threads={'1' if case.get('threads', 1) == 1 else 'n'}" \
           + (":valchunks" if case.get("chunks") else "")


def run_case(E, case, prop, with_count=False):
    t0 = time.time()
    inp = Inputs()
    d = build(case, inp)
    rt = fresh_runtime()
    arrs = shadow_arrays(case, d)
    try:
        out = shadow_call(E, case, arrs, return_count=with_count)
    except (Unsupported, OutsideModel) as e0:
        if "symbolic branch outside a forking run" in str(e0):
            # glue code branched on symbolic data: explore the branches (fork-and-replay) through the generic runner
            from . import common

            class _Fam:
                build = staticmethod(build)
                call = staticmethod(lambda E_, c_, d_: shadow_call(E_, c_, shadow_arrays(c_, d_)))
                bads = staticmethod(lambda c_, d_, o_: spec_bads(c_, d_, o_.cells))
                wits = staticmethod(witnesses)
                signature = staticmethod(lambda c_, labels: signature_of(c_, labels))
            return common.run_generic(E, case, prop, _Fam)
        raise
    except Exception as e:      # noqa: BLE001 - the code under test raised on valid input: candidate "fails instead of returning"
        from ..harness import solve_exists
        from ..runtime import _model_gap
        if _model_gap(e):
            raise Unsupported("model gap: " + _model_gap(e)) from e
        res_, m = solve_exists(list(inp.pre) + list(getattr(e, "gb_pc", [])), True)
        model = inp.eval(m) if m is not None else {}
        return {"verdict": "sat", "solver_s": 0.0, "symex_s": time.time() - t0, "n_queries": 1, "obligations": 0,
                "failed_obligations": [], "witnesses": {}, "encoded": sorted(E.encoded),
                "candidates": [{"signature": f"{prop}:raises:{type(e).__name__}:" + signature_of(case, []), "case": case,
                                "inputs": jsonable(model), "kind": "raises", "labels": [f"{type(e).__name__}: {str(e)[:200]}"]}]}
    cnt = None
    if with_count and case["func"] != "size":
        out, cnt = out
        cnt = cnt.cells if isinstance(cnt, A) else None
    res = out.cells
    symex = time.time() - t0
    bads = spec_bads(case, d, res, cnt)
    from .common import aliases_input
    if aliases_input(out):
        bads.append(("result aliases caller-owned storage", True))
    wit = witnesses(case, d) if case.get("witness") else []
    dec = decide(inp, bads, rt, witnesses=wit)
    r = {"verdict": dec.verdict, "solver_s": dec.solver_s, "symex_s": symex, "n_queries": dec.n_queries,
         "obligations": dec.obligations, "failed_obligations": dec.failed_obligations, "witnesses": dec.witnesses,
         "candidates": [], "encoded": sorted(E.encoded)}
    if case.get("witness"):
        from ..harness import solve_exists
        res_, m = solve_exists(list(inp.pre) + list(rt.pre), True)
        r["n_queries"] += 1
        if m is not None:
            r["reach_model"] = jsonable(inp.eval(m))
        else:
            r["verdict"] = "error"
            r["detail"] = "vacuous harness: preconditions unsatisfiable"
    if dec.verdict == "sat" and not any(k_ == "bounds" for k_, w_ in dec.failed_obligations):
        r["candidates"].append({"signature": f"{prop}:" + signature_of(case, dec.which), "case": case,
                                "inputs": jsonable(dec.model), "kind": "property", "labels": dec.which[:6]})
    if dec.failed_obligations:
        kinds = sorted({k for k, w in dec.failed_obligations})
        r["candidates"].append({"signature": f"{prop}:obligation:{','.join(kinds)}:" + signature_of(case, []), "case": case,
                                "inputs": jsonable(dec.ob_model), "kind": "obligation",
                                "labels": [f"{k}@{w}" for k, w in dec.failed_obligations[:6]]})
        r["verdict"] = "sat"
    return r


# ------------------------------------------------------------------ translator validation (concrete shadow vs compiled)
def random_concrete(case, rnd):
    N, G, dt = case["N"], case["G"], real_np.dtype(case["dtype"])
    conc = {"k": list(case["codes"]) if case.get("codes") is not None else [rnd.randint(-1, G - 1) for _ in range(N)]}
    if case["func"] != "size":
        if dt.kind == "f":
            conc["v"] = [float("nan") if rnd.random() < 0.25 else float(rnd.randint(-6, 6)) / 2 for _ in range(N)]
        elif dt.kind == "b":
            conc["v"] = [rnd.random() < 0.5 for _ in range(N)]
        elif dt.kind in "mM":
            conc["v"] = [MIN_INT if rnd.random() < 0.25 else rnd.randint(-50, 50) for _ in range(N)]
        else:
            lo, hi = dtype_range(dt)
            conc["v"] = [rnd.randint(max(lo, -9), min(hi, 9)) for _ in range(N)]
    m = case["mask"]
    if m["kind"] == "bool_sym":
        conc["m"] = [rnd.random() < 0.6 for _ in range(N)]
    elif m["kind"] == "fancy":
        conc["p"] = [rnd.randint(-N, N - 1) for _ in range(m["L"])]
    return conc


def validate_cases(E, cases, seed, n):
    """run n random concrete inputs through shadow (concrete mode) and the real compiled code; compare"""
    rnd = random.Random(seed)
    mism = []
    done = 0
    pool = [c for c in cases]
    rnd.shuffle(pool)
    for case in pool[:n]:
        conc = random_concrete(case, rnd)
        d = concrete_inputs(case, conc)
        rt = fresh_runtime()
        rt.symbolic = False
        try:
            sh = shadow_call(E, case, shadow_arrays(case, d, tag=False))
            sh_cells = sh.cells
        except Exception as e:      # noqa: BLE001
            sh_cells = f"raise {type(e).__name__}: {e}"
        try:
            re_cells = np_to_cells(real_call(case, conc))
        except Exception as e:      # noqa: BLE001
            re_cells = f"raise {type(e).__name__}"
        done += 1
        ok = (isinstance(sh_cells, list) and isinstance(re_cells, list) and len(sh_cells) == len(re_cells)
              and all(approx_same(a, b) for a, b in zip(sh_cells, re_cells)))
        if not ok and isinstance(sh_cells, str) and isinstance(re_cells, str) and sh_cells.split(":")[0] == re_cells.split(":")[0]:
            ok = True
        if not ok:
            mism.append({"case": case_name(case), "inputs": jsonable(conc), "shadow": jsonable(sh_cells), "real": jsonable(re_cells)})
    return {"cases": done, "mismatches": mism}

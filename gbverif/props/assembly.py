"""The public reduction path: GroupBy.<sum|mean|min|max|first|last|count|size>(values, mask, observed_only) on a directly constructed
state, i.e. the REAL GroupBy._apply_gb_reduction(transform=False) assembly (count frame, observed-label filter, label sort permutation,
mean = sum / count) executed natively on symbolic arrays and on a contract model of the flat pandas objects it manipulates
(models.LIndex / FakeSeries / FakeFrame: concrete pairwise distinct labels, label-based Series[int list], positional iloc, boolean loc).
Data-dependent row selections (the observed filter) fork: one path per selection pattern, every path decided by the solver."""
import time
import re
import numpy as real_np
import z3
from ..values import SF, is_sym, conc_bool, b_and, b_or, b_not, ite, same, Unsupported, OutsideModel
from ..symarray import A
from ..models import LIndex, FakeSeries, FakeFrame
from ..runtime import run_paths, FC
from ..harness import Inputs, decide, jsonable, solve_exists
from . import reductions as R
from .common import MergedRT, fix_nans
from .gbcore import make_gb

FUNCS = ("sum", "mean", "min", "max", "first", "last", "count", "size")


def case_name(c):
    return (f"assembly/{c['func']}/{c['dtype']}/N={c['N']},G={c['G']}/{R.mask_desc(c['mask'])}/labels={c['labels']}({c['state']})"
            f"/observed_only={c['observed_only']}/cols={c.get('ncols', 1)}")


def cases(tier):
    out = []
    quick = tier == "quick"
    # state kinds: "appearance" = labels in order of first appearance (what factorization of plain keys produces: every label has a
    # row, first occurrences in code order); "categorical" = categorical key (category order, labels may have no row at all)
    label_sets = [([0, 1], "appearance"), ([1, 0], "appearance"), (["a", "b"], "categorical"), (["b", "a"], "appearance"), ([2.5, 1.5], "appearance"),
                  (["b", "a"], "categorical")]
    if not quick:
        label_sets += [([0, 1, 2], "categorical"), ([2, 0, 1], "appearance"), (["c", "a", "b"], "appearance"), ([1, 2, 0], "appearance"),
                       (["a", "b"], "appearance"), ([3, 1, 2], "categorical")]
    for labels, kind in label_sets:
        G = len(labels)
        N = 3 if (quick or G == 3) else 4
        for func in FUNCS:
            for dtype in (("float64",) if quick else ("float64", "int64")):
                if func == "size" and dtype != "float64":
                    continue
                for mk in ("none", "bool_sym"):
                    for oo in (True, False):
                        if quick and (func in ("min", "last", "count") and labels not in ([1, 0], ["b", "a"])):
                            continue
                        c = {"family": "assembly", "func": func, "dtype": dtype, "N": N, "G": G, "mask": {"kind": mk}, "labels": labels, "state": kind,
                             "observed_only": oo, "witness": func == "sum" and mk == "none" and oo}
                        c["name"] = case_name(c)
                        out.append(c)
    # integer-position and slice masks through the public path (mask resolution in core.py, observed filter under a positional mask)
    for labels, kind in (([1, 0], "appearance"), (["a", "b"], "categorical")):
        for func in (("sum", "first", "size") if quick else ("sum", "first", "last", "count", "size", "max")):
            masks = [{"kind": "fancy", "L": 3}, {"kind": "slice", "start": 1, "stop": None, "step": None}, {"kind": "slice", "start": None, "stop": -1, "step": 2}]
            if not quick:
                masks += [{"kind": "fancy", "L": 2}, {"kind": "slice", "start": -2, "stop": None, "step": None}, {"kind": "slice", "start": None, "stop": None, "step": -1}]
            for mk in masks:
                c = {"family": "assembly", "func": func, "dtype": "float64", "N": 3 if quick else 4, "G": 2, "mask": mk, "labels": labels, "state": kind, "observed_only": True}
                c["name"] = case_name(c)
                out.append(c)
    # two value columns: the observed filter looks at the first column's counts only and must refine them
    for labels in ([1, 0], ["b", "a"]):
        for mk in ("none", "bool_sym"):
            c = {"family": "assembly", "func": "sum", "dtype": "float64", "N": 3, "G": 2, "mask": {"kind": mk}, "labels": labels, "state": "appearance",
                 "observed_only": True, "ncols": 2}
            c["name"] = case_name(c)
            out.append(c)
    return out


def _state(E, case, d):
    gb = make_gb(E, case["G"], codes=A(d["codes"], "int64").tag("state:_group_ikey"), sort=True, index_sorted=False)
    gb._result_index = LIndex(case["labels"], "key", categorical=case["state"] == "categorical")
    return gb


def state_invariant(case, codes):
    """representation invariant of the key state (what the constructor establishes), assumed of the symbolic codes"""
    if case["state"] != "appearance":
        return []
    G, N = case["G"], len(codes)
    pre = []
    first = []
    for g in range(G):
        pre.append(b_or(*[c == g for c in codes]))                       # every label has at least one row
        first.append([b_and(codes[i] == g, *[codes[j] != g for j in range(i)]) for i in range(N)])
    for g in range(G - 1):                                                # first occurrences in code order
        pre.append(b_or(*[b_and(first[g][i], b_or(*[first[g + 1][j] for j in range(i + 1, N)])) for i in range(N)]))
    return pre


def _state_arrays(gb):
    """every array the grouping object retains after the call (key codes, pointer tables, caches), by attribute name"""
    from ..models import FakeChunked
    out = []

    def walk(x, name):
        if isinstance(x, A):
            out.append((name, x))
        elif isinstance(x, FakeSeries):
            walk(x.arr, name)
        elif isinstance(x, FakeChunked):
            for ch in x.chunks:
                walk(ch, name)
        elif isinstance(x, (list, tuple)):
            for y in x:
                walk(y, name)
        elif isinstance(x, dict):
            for y in x.values():
                walk(y, name)
    for k, v in vars(gb).items():
        walk(v, k)
    return out


def run_case(E, case, PROP, mode="values"):
    """mode 'values': labels and numbers (C01); mode 'alias': the returned object shares no buffer with a caller array or with
    anything the grouping retains - otherwise editing the result changes the input or a later identical call (C19)"""
    t0 = time.time()
    inp = Inputs()
    d = R.build(case, inp)
    G, N, f = case["G"], case["N"], case["func"]
    labels = case["labels"]
    ncols = case.get("ncols", 1)
    dt = real_np.dtype(case["dtype"])
    if ncols == 2:
        d["values2"] = inp.values("w", N, dt, sum_safe=True)
    inp.pre.extend(state_invariant(case, d["codes"]))
    merged = MergedRT()

    def body():
        gb = _state(E, case, d)
        arrs = R.shadow_arrays(case, d)
        kw = dict(mask=arrs["mask"], observed_only=case["observed_only"])
        try:
            if f == "size":
                return "ok", gb.size(**kw), gb
            vals = arrs["values"]
            if ncols == 2:
                vals = [vals, A(d["values2"], dt).tag("input:values")]
            return "ok", getattr(gb, f)(vals, **kw), gb
        except (Unsupported, OutsideModel):
            raise
        except Exception as e:      # noqa: BLE001 - the code under test raised on a valid state
            from ..runtime import _model_gap
            gap = _model_gap(e)
            if gap:
                raise Unsupported(f"model gap: {gap}") from e
            return "raised", f"{type(e).__name__}: {e}", gb
    saved_max = FC.max_paths
    FC.max_paths = 1500          # a change in the code under test may concretise mask positions (int(mask[0])): still every path is decided
    try:
        paths = run_paths(body)
    finally:
        FC.max_paths = saved_max
    rows = R.selected_rows(case, d)
    bads = []
    for pc, (status, out, gb_), rt in paths:
        pcz = b_and(*pc) if pc else True
        for kind, g_, c_, where in rt.obligations:
            if mode == "alias" and kind != "input_write":
                continue
            merged.obligations.append((kind, b_and(pcz, g_), c_, where))
        merged.pre.extend(rt.pre)
        if status == "raised":
            if mode == "values":
                bads.append((f"raises {out[:120]}", pcz))
            continue
        if mode == "alias":
            res_arrs = []
            if isinstance(out, FakeFrame):
                res_arrs = [out[c].arr for c in out.columns]
            elif isinstance(out, FakeSeries):
                res_arrs = [out.arr]
            retained = _state_arrays(gb_)
            for ra in res_arrs:
                if not isinstance(ra, A):
                    continue
                if ra.st.origin is not None:
                    bads.append((f"result aliases caller-owned storage ({ra.st.origin})", pcz))
                for name, sa in retained:
                    if sa.st is ra.st:
                        bads.append((f"result shares its buffer with the grouping's retained {name}: editing it changes later calls", pcz))
            continue
        cols = []
        if isinstance(out, FakeFrame):
            idx = out.index
            cols = [out[c].arr for c in out.columns]
            if len(cols) != ncols:
                bads.append(("number of result columns", pcz))
                continue
        elif isinstance(out, FakeSeries):
            idx = out.index
            cols = [out.arr]
            if ncols != 1:
                bads.append(("a frame was expected for two value columns", pcz))
                continue
        else:
            raise OutsideModel(f"assembly returned {type(out).__name__}")
        got = list(idx.labels)
        for ci, col in enumerate(cols):
            if len(col) != len(got):
                bads.append(("result column and index differ in length", pcz))
                continue
            res = []
            present = []
            for g in range(G):
                pos = [i for i, lab in enumerate(got) if lab == labels[g] and type(lab) is type(labels[g])]
                if len(pos) > 1:
                    bads.append((f"label {labels[g]!r} listed more than once", pcz))
                present.append(bool(pos))
                res.append(col.cells[pos[0]] if pos else 0)
            sub = dict(case)
            dd = dict(d)
            if ci == 1:
                dd["values"] = d["values2"]
            for lab, cond in R.spec_bads(sub, dd, res, None):
                g = int(re.search(r"\[g=(\d+)\]", lab).group(1))
                if present[g]:
                    bads.append((f"col{ci}:{lab}", b_and(pcz, cond)))
            if ci == 0:
                for g in range(G):
                    expect = b_or(*[b_and(s, c == g) for c, v, s in rows]) if case["observed_only"] else True
                    if present[g]:
                        bads.append((f"label {labels[g]!r} listed although no selected row carries it", b_and(pcz, b_not(expect))))
                    else:
                        bads.append((f"label {labels[g]!r} missing although a selected row carries it", b_and(pcz, expect)))
        extra = [lab for lab in got if not any(lab == l2 and type(lab) is type(l2) for l2 in labels)]
        if extra:
            bads.append((f"unknown labels {extra!r}", pcz))
    wit = []
    if case.get("witness"):
        codes = d["codes"]
        vals = d.get("values")
        wit = [("group whose values are all null", b_and(codes[0] == 0, *[c != 0 for c in codes[1:]], vals[0].nan if isinstance(vals[0], SF) else False))]
        if case["state"] == "categorical":
            wit.append(("label without rows", b_and(*[c != 0 for c in codes])))
    dec = decide(inp, bads, merged, witnesses=wit)
    r = {"verdict": dec.verdict, "solver_s": dec.solver_s, "symex_s": time.time() - t0 - dec.solver_s, "n_queries": dec.n_queries,
         "obligations": dec.obligations, "failed_obligations": dec.failed_obligations, "witnesses": dec.witnesses, "candidates": [],
         "encoded": sorted(E.encoded), "paths": len(paths)}
    numeric = all(isinstance(x, (int, float)) for x in labels)
    if mode == "alias":
        sig_prefix = f"{PROP}:result_alias:{f}:{case['state']}:observed_only={case['observed_only']}:mask={case['mask']['kind'] != 'none'}"
    sig = f"{PROP}:assembly:{f}:{case['state']}:labels={'numeric' if numeric else 'text'}:{'sorted' if labels == sorted(labels) else 'unsorted'}:mask={case['mask']['kind'] != 'none'}:observed_only={case['observed_only']}"
    if mode == "alias":
        sig = sig_prefix
    if dec.verdict == "sat" and not any(k_ == "bounds" for k_, w_ in dec.failed_obligations):
        r["candidates"].append({"signature": sig, "case": case, "inputs": jsonable(dec.model), "kind": "property", "labels": dec.which[:4]})
    if dec.failed_obligations:
        r["verdict"] = "sat"
        kinds = sorted({k for k, w in dec.failed_obligations})
        r["candidates"].append({"signature": f"{PROP}:obligation:{','.join(kinds)}:assembly:{f}", "case": case, "inputs": jsonable(dec.ob_model),
                                "kind": "obligation", "labels": [f"{a}@{b}" for a, b in dec.failed_obligations[:4]]})
    return r


def _real_mask(case, conc):
    m = case["mask"]
    if m["kind"] == "bool_sym":
        return real_np.array(conc["m"], dtype=bool)
    if m["kind"] == "fancy":
        return real_np.array(conc["p"], dtype="int64")
    if m["kind"] == "slice":
        return slice(m["start"], m["stop"], m["step"])
    return None


def _selected_positions(case, conc, N):
    """rows in the order array indexing with the mask yields them (repeats included)"""
    m = case["mask"]
    if m["kind"] == "bool_sym":
        return [i for i in range(N) if conc["m"][i]]
    if m["kind"] == "fancy":
        return [int(p) % N for p in conc["p"]]
    if m["kind"] == "slice":
        return list(range(N))[slice(m["start"], m["stop"], m["step"])]
    return list(range(N))


def real_state(case, codes):
    import pandas as pd
    from . import c03 as C3
    gb = C3.real_gb(case["G"], codes=codes)
    gb._result_index = pd.Index(case["labels"], name="key")
    gb._sort = True
    gb._index_is_sorted = False
    return gb


def replay(case, conc, cand=None):
    """the same directly constructed state on the real class, through the public method; additionally through the constructor with
    real keys when every label occurs (first-appearance order = label order of the state)"""
    import pandas as pd
    conc = fix_nans(conc)
    G, N, f = case["G"], case["N"], case["func"]
    dt = real_np.dtype(case["dtype"])
    labels = case["labels"]
    codes = [int(x) for x in conc["k"]]
    mask = _real_mask(case, conc)
    ncols = case.get("ncols", 1)
    cols = []
    if f != "size":
        cols.append(R.np_values(R.to_float_cells(conc["v"]), dt))
        if ncols == 2:
            cols.append(R.np_values(R.to_float_cells(conc["w"]), dt))
    problems = []
    selected = _selected_positions(case, conc, N)

    def check(out, how):
        if isinstance(out, pd.Series):
            frames = [out]
        else:
            frames = [out[c] for c in out.columns]
        for ci, ser in enumerate(frames):
            got = list(ser.index)
            for g in range(G):
                sel = [i for i in selected if codes[i] == g]
                n_in = sum(1 for lab in got if lab == labels[g])
                expect = bool(sel) if case["observed_only"] else True
                if n_in != (1 if expect else 0):
                    problems.append(f"{how}: label {labels[g]!r} listed {n_in} time(s), expected {int(expect)}")
                    continue
                if not expect:
                    continue
                v = ser.iloc[got.index(labels[g])]
                if f == "size":
                    exp = len(sel)
                else:
                    xs = [cols[ci][i] for i in sel]
                    ok = [x for x in xs if not (isinstance(x, (float, real_np.floating)) and x != x)]
                    if f == "count":
                        exp = len(ok)
                    elif f == "sum":
                        exp = sum(ok) if ok else 0
                    elif f == "mean":
                        exp = sum(ok) / len(ok) if ok else float("nan")
                    elif f == "min":
                        exp = min(ok) if ok else float("nan")
                    elif f == "max":
                        exp = max(ok) if ok else float("nan")
                    elif f == "first":
                        exp = ok[0] if ok else float("nan")
                    else:
                        exp = ok[-1] if ok else float("nan")
                if dt.kind in "iu" and isinstance(exp, float) and exp != exp:
                    continue        # integer data has no nulls; an empty group's marker is dtype specific (C01 kernel cases)
                if not R.approx_same(float(v), float(exp)):
                    problems.append(f"{how}: {f}[{labels[g]!r}] = {v!r}, expected {exp!r}")
    kw = dict(mask=mask, observed_only=case["observed_only"])
    try:
        # through the public constructor: the keys that factorize to exactly this state
        from groupby_lib import GroupBy
        if case["state"] == "categorical":
            keys = pd.Categorical.from_codes(codes, categories=labels)
        elif all(isinstance(x, (int, float)) for x in labels):
            keys = real_np.array([float(labels[c]) if c >= 0 else float("nan") for c in codes])
        else:
            keys = real_np.array([labels[c] if c >= 0 else None for c in codes], dtype=object)
        gb = GroupBy(keys)
        out = gb.size(**kw) if f == "size" else getattr(gb, f)(cols if ncols == 2 else cols[0], **kw)
        check(out, "GroupBy(keys)")
    except Exception as e:      # noqa: BLE001
        problems.append(f"GroupBy(keys): real call raised {type(e).__name__}: {e}")
    return bool(problems), {"problems": problems[:6], "codes": codes, "labels": labels, "inputs": jsonable(conc)}


def replay_alias(case, conc, cand=None):
    """public constructor; call, edit the returned object in place, call again: the second result must equal a fresh grouping's,
    and the caller's arrays must be unchanged"""
    import pandas as pd
    from groupby_lib import GroupBy
    conc = fix_nans(conc)
    G, N, f = case["G"], case["N"], case["func"]
    dt = real_np.dtype(case["dtype"])
    labels = case["labels"]
    codes = [int(x) for x in conc["k"]]
    mask = _real_mask(case, conc)
    ncols = case.get("ncols", 1)
    cols = []
    if f != "size":
        cols.append(R.np_values(R.to_float_cells(conc["v"]), dt))
        if ncols == 2:
            cols.append(R.np_values(R.to_float_cells(conc["w"]), dt))

    def keys():
        if case["state"] == "categorical":
            return pd.Categorical.from_codes(codes, categories=labels)
        if all(isinstance(x, (int, float)) for x in labels):
            return real_np.array([float(labels[c]) if c >= 0 else float("nan") for c in codes])
        return real_np.array([labels[c] if c >= 0 else None for c in codes], dtype=object)
    kw = dict(mask=mask, observed_only=case["observed_only"])

    def call(gb):
        return gb.size(**kw) if f == "size" else getattr(gb, f)(cols if ncols == 2 else cols[0], **kw)
    problems = []
    try:
        before = [c.copy() for c in cols] + ([mask.copy()] if isinstance(mask, real_np.ndarray) else [])
        gb = GroupBy(keys())
        call(gb)                      # warm caches the way a reused grouping has them
        r1 = call(gb)
        if len(r1):
            try:
                if isinstance(r1, pd.Series):
                    r1.iloc[0] = 12345
                else:
                    r1.iloc[0, 0] = 12345
            except Exception:      # noqa: BLE001 - read-only results cannot leak edits
                pass
        r2 = call(gb)
        r3 = call(GroupBy(keys()))
        a2, a3 = real_np.asarray(r2, dtype=float), real_np.asarray(r3, dtype=float)
        if a2.shape != a3.shape or not real_np.array_equal(a2, a3, equal_nan=True) or list(r2.index) != list(r3.index):
            problems.append(f"after editing the first result the same call returns {a2.tolist()} instead of {a3.tolist()}")
        after = cols + ([mask] if isinstance(mask, real_np.ndarray) else [])
        for b0, a0 in zip(before, after):
            if not real_np.array_equal(b0, a0, equal_nan=b0.dtype.kind == "f"):
                problems.append("a caller array changed")
    except Exception as e:      # noqa: BLE001
        problems.append(f"real call raised {type(e).__name__}: {e}")
    return bool(problems), {"problems": problems[:4], "codes": codes, "labels": labels, "inputs": jsonable(conc)}

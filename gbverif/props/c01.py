"""C01 - group reductions equal the per-group definition (array level, single pass, every dtype class and mask kind)."""
import itertools
from . import reductions as R
from . import assembly as ASM

PROP = "C01"
DTYPES = ["float64", "float32", "int64", "int32", "uint64", "bool", "datetime64[ns]", "timedelta64[ns]"]


def _valid(func, dt):
    if dt.startswith("datetime") and func in ("sum", "sum_squares", "mean"):
        return False
    if dt == "bool" and func in ("sum_squares", "mean"):
        return False
    if dt.startswith("timedelta") and func == "sum_squares":
        return False
    return True


def cases(tier, seed):
    out = []
    N, G = (4, 2) if tier == "quick" else (6, 3)
    bounds = [None] + list(range(-N - 1, N + 2))
    dts = DTYPES if tier == "quick" else DTYPES + ["int8", "int16", "uint8", "uint32", "datetime64[s]", "timedelta64[ms]"]
    for func in R.FUNCS:
        for dt in dts:
            if not _valid(func, dt):
                continue
            base = {"func": func, "dtype": dt, "N": N, "G": G, "threads": 1}
            if func == "mean" and dt.startswith("timedelta"):
                # float mean truncated back to timedelta: ToInt(sum / count) is nonlinear with a symbolic count,
                # so the code sequence is enumerated (count becomes a constant divisor)
                Nm = N if tier == "quick" else 5
                for codes in itertools.product(range(-1, G), repeat=Nm):
                    out.append(dict(base, N=Nm, codes=list(codes), mask={"kind": "none"}))
                continue
            wit = dt == "float64"
            out.append(dict(base, mask={"kind": "none"}, witness=wit, with_count=True))
            out.append(dict(base, mask={"kind": "bool_sym"}, witness=wit, with_count=True))
            for L in ((1, 3) if tier == "quick" else (1, 2, 3)):
                out.append(dict(base, mask={"kind": "fancy", "L": L}, witness=wit and L == 3))
            full = (func, dt) in (("sum", "float64"), ("first", "int64"), ("size", "float64"))
            if full:
                sl = [(a, b, s) for a in bounds for b in bounds for s in (None, 1, 2, -1, -2)]
                if tier == "quick":
                    sl = sl[::5] + sl[3::5][::3] + sl[4::5][::7]
            else:
                sl = [(1, None, None), (None, -1, None), (None, None, 2), (-3, 3, 1), (N, None, None), (-N - 1, N + 1, 2),
                      (None, None, -1), (N - 1, None, -2), (2, -N - 3, -1), (None, 0, -1)]
            for a, b, s in sl:
                out.append(dict(base, mask={"kind": "slice", "start": a, "stop": b, "step": s}))
    if tier == "thorough":
        for func in ("count", "sum", "mean", "min", "max", "first", "last"):
            for dt in ("float64", "int64"):
                out.append({"func": func, "dtype": dt, "N": 8, "G": 3, "threads": 1, "mask": {"kind": "none"}, "with_count": True})
                out.append({"func": func, "dtype": dt, "N": 7, "G": 3, "threads": 1, "mask": {"kind": "bool_sym"}})
    for c in out:
        c["name"] = R.case_name(c) + ("/count" if c.get("with_count") else "")
    out.extend(ASM.cases(tier))
    return out


def run_case(E, case):
    if case.get("family") == "assembly":
        return ASM.run_case(E, case, PROP)
    return R.run_case(E, case, PROP, with_count=bool(case.get("with_count")))


def replay(case, inputs, cand=None):
    if case.get("family") == "assembly":
        return ASM.replay(case, inputs, cand)
    return R.replay(case, inputs, with_count=bool(case.get("with_count")))


def validate(E, seed, tier):
    cs = [c for c in cases("quick", seed) if c.get("family") != "assembly"]
    return R.validate_cases(E, cs, seed, 80 if tier == "quick" else 300)


META = {
    "glue": ['groupby_lib/groupby/core.py::_apply_gb_reduction', 'groupby_lib/groupby/core.py::_maybe_squeeze_to_1d', 'groupby_lib/groupby/core.py::_labels_argsort', 'groupby_lib/groupby/core.py::count_ikey', 'groupby_lib/groupby/core.py::key_count', 'groupby_lib/util.py::mean_from_sum_count', 'groupby_lib/util.py::argsort_index_numeric_only', 'groupby_lib/groupby/numba.py::_apply_group_method_single_chunk', 'groupby_lib/groupby/numba.py::_build_target_for_groupby', 'groupby_lib/groupby/numba.py::_chunk_args_for_chunked_values', 'groupby_lib/groupby/numba.py::_chunk_args_for_unchunked_values', 'groupby_lib/groupby/numba.py::_chunk_groupby_args', 'groupby_lib/groupby/numba.py::_group_func_wrap', 'groupby_lib/groupby/numba.py::combine_chunk_results_for_factorized_key', 'groupby_lib/groupby/numba.py::group_count', 'groupby_lib/groupby/numba.py::group_mean', 'groupby_lib/groupby/numba.py::group_size', 'groupby_lib/groupby/numba.py::group_sum', 'groupby_lib/util.py::_cast_timestamps_to_ints', 'groupby_lib/util.py::_null_value_for_numpy_type', 'groupby_lib/util.py::check_data_inputs_aligned', 'groupby_lib/util.py::jit_is_null', 'groupby_lib/util.py::parallel_map'],
    "bounds": {"quick": {"N": 4, "G": 2, "positions": "L in {1,3}", "slices": "start/stop in {None,-5..5} x step in {None,1,2,-1,-2} (a third for sum/first/size, 10 for the rest)"},
               "thorough": {"N": 6, "G": 3, "positions": "L <= 3", "slices": "all start/stop in {None,-7..7} x step {None,1,2,-1,-2} for sum/first/size; 10 for the rest",
                            "extra": "N=8 unmasked and N=7 symbolic boolean mask for float64/int64"}},
    "enumerated": ["slice bounds", "length of the integer-position mask", "dtype"],
    "symbolic": ["group codes in {-1,0..G-1}", "values and null flags", "boolean mask bits", "integer positions in [-N, N)"],
    "assumptions": ["null = NaN for floats, INT64_MIN for datetime/timedelta viewed as int64; plain int64 data excludes INT64_MIN",
                    "float inputs are finite or NaN", "sums/means in exact arithmetic (equal up to floating-point rounding)",
                    "narrow integer values range over their whole dtype; a group with no accepted value reports the library's null value for the dtype",
                    "NumPy/numba models as in DESIGN.md 3.5; _val_to_numpy on proxies is the identity",
                    "assembly family: the real public methods GroupBy.sum/mean/min/max/first/last/count/size and the real non-transform body of "
                    "_apply_gb_reduction run natively on a directly constructed state; the flat pandas objects it manipulates are a contract model "
                    "(models.LIndex/FakeSeries/FakeFrame: concrete pairwise distinct labels; Series[list of ints] is a LABEL lookup as in pandas 3, "
                    "iloc positional, loc boolean, reindex by label, arithmetic only between identically indexed Series); the data-dependent "
                    "observed filter forks (one path per selection pattern, all decided); state invariant assumed for plain keys: every label has a "
                    "row and first occurrences are in code order (what factorization establishes), none for categorical keys; cuts: "
                    "_preprocess_arguments, _convert_arr_to_pandas_series; candidates are replayed through the public constructor GroupBy(keys)"],
    "outside": ["assembly family: margins, transform (C07), several key levels (MultiIndex), temporal value dtypes (conversion back in "
                "_convert_arr_to_pandas_series is pandas code), label ORDER of the result (C11); N > 4, G > 3 there",
                "key factorization (C02)", "N > 6 (8)"],
}

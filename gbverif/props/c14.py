"""C14 (in part) - margins for a SINGLE key: every ordinary row is unchanged and the 'All' row equals the same aggregation over all selected
rows (sum/count/size add up, min/max are the extremes, mean is total sum over total count - not a mean of means).  The real public methods,
_apply_gb_reduction(margins=True), _add_margins and add_row_margin (one index level) run on the labelled pandas contract model; the family lives
in c16.run_composite.  Several keys (margin level subsets, sparse label grids) and crosstab are pandas reshaping code and outside."""
from . import c16

PROP = "C14"
FUNCS = ("sum", "count", "size", "min", "max", "mean")


def cases(tier, seed):
    out = []
    sets = [([0, 1], "categorical"), ([1, 0], "appearance"), (["b", "a"], "appearance")]
    if tier != "quick":
        sets += [([2, 0, 1], "appearance"), (["a", "b", "c"], "categorical")]
    for labels, st in sets:
        for f in FUNCS:
            for mk in ("none", "bool_sym"):
                c = {"kind": "composite", "comp": f"margin_{f}", "N": 3 if (tier == "quick" or len(labels) == 3) else 4, "G": len(labels), "labels": labels, "state": st,
                     "mask": {"kind": mk}, "dtype": "float64", "func": f, "observed_only": True}
                c["name"] = f"GroupBy.{f}(margins=True)/single key/N={c['N']},G={c['G']}/labels={labels}({st})/mask={mk}"
                out.append(c)
    return out


def run_case(E, case):
    return c16.run_composite(E, case, PROP)


def replay(case, conc, cand=None):
    return c16.replay_composite(case, conc)


META = {
    "glue": ['groupby_lib/groupby/core.py::_apply_gb_reduction', 'groupby_lib/groupby/core.py::_add_margins', 'groupby_lib/groupby/core.py::add_row_margin',
             'groupby_lib/util.py::mean_from_sum_count'],
    "bounds": {"quick": {"N": 3, "G": 2, "label sets": 3}, "thorough": {"N": "3-4", "G": "2-3", "label sets": 5}},
    "enumerated": ["reducer", "label values / key kind", "mask present or not"],
    "symbolic": ["group codes", "values and null flags", "boolean mask bits"],
    "assumptions": ["single key only; labelled pandas contract model (DESIGN 0 item 9) incl. sort_index, agg(sum/min/max) with skipna, loc[new label] = row; "
                    "the observed-label filter forks; candidates are replayed through GroupBy(keys).<f>(values, mask, margins=True)"],
    "outside": ["several keys: 'All' combinations per level subset, re-indexing onto the cartesian grid, sparse label combinations (add_row_margin beyond one level)",
                "crosstab (unstack, column ordering)"],
}

"""C10 - EMA is the normalised exponentially weighted mean, per group."""
from . import ema as F

PROP = "C10"


def cases(tier, seed):
    out = []
    if tier == "quick":
        N, G, NT = 4, 2, 3
    else:
        N, G, NT = 5, 2, 4
    for dt in ("float64", "int64"):
        for mk in (False, True):
            for first in range(-1, G):
                out.append({"variant": "grouped", "dtype": dt, "N": N, "G": G, "mask": mk, "first": first,
                            "name": f"_ema_grouped/{dt}/N={N},G={G}/mask={mk}/all code sequences starting with {first}"})
                out.append({"variant": "timed", "dtype": dt, "N": NT, "G": G, "mask": mk, "halflife": 1000, "first": first,
                            "name": f"_ema_grouped_timed/{dt}/N={NT},G={G}/mask={mk}/gaps in (0,1,2) halflives/code sequences starting with {first}"})
    if tier == "thorough":
        for first in range(-1, 3):
            out.append({"variant": "grouped", "dtype": "float64", "N": 4, "G": 3, "mask": True, "first": first,
                        "name": f"_ema_grouped/float64/N=4,G=3/mask=True/code sequences starting with {first}"})
            out.append({"variant": "timed", "dtype": "float64", "N": 3, "G": 3, "mask": True, "halflife": 7, "first": first, "gaps": (0, 1, 3),
                        "name": f"_ema_grouped_timed/float64/N=3,G=3/mask=True/halflife=7/gaps (0,1,3)/code sequences starting with {first}"})
    # the public entry point ema_grouped(alpha=...): one group (incl. no null key at all), two groups, with and without mask
    for Gp, nk in ((1, False), (1, True), (2, True)):
        for mk in (False, True):
            out.append({"variant": "grouped", "dtype": "float64", "N": 3 if tier == "quick" else 4, "G": Gp, "mask": mk, "first": None, "null_keys": nk, "public": True,
                        "null_rows_constant": True,
                        "name": f"ema_grouped(alpha) public entry/float64/N={3 if tier == 'quick' else 4},G={Gp}/null keys={nk}/mask={mk}/all code sequences"})
    for dt in ("float64", "int64"):
        out.append({"variant": "ungrouped", "dtype": dt, "N": 4, "name": f"grouped(single group) == ema_adjusted/{dt}/N=4"})
        out.append({"variant": "ungrouped", "dtype": dt, "N": 3, "public": True, "name": f"grouped(single group) == ema(values, alpha) public entry/{dt}/N=3"})
    for first in range(-1, 2):
        out.append({"variant": "layout", "N": 4, "G": 2, "first": first, "orders": [[0, 1], [1, 0]], "masks": [None, [True, False, True, True]],
                    "name": f"GroupBy.ema(index_by_groups=True) lists the row-aligned numbers group by group/N=4,G=2/both label orders/code sequences starting with {first}"})
    out.append({"variant": "ungrouped_timed", "N": 4, "name": "time-weighted: grouped(single group) == ema(times=...)/float64/N=4/gaps in (0,1,2) halflives"})
    out.append({"variant": "halflife_api", "name": "ema/ema_grouped(halflife=h): alpha = 1 - 2^(-1/h) for every real h > 0"})
    for unit in ("ns", "us", "ms", "s"):
        out.append({"variant": "timed_api", "unit": unit, "N": 3, "name": f"ema_grouped(halflife='1{unit}', times=datetime64[{unit}])/N=3"})
    # a halflife that is not a whole number of ticks of the timestamps' own unit
    out.append({"variant": "timed_api", "unit": "s", "halflife": "500ms", "dmul": 1, "N": 3, "name": "ema_grouped(halflife='500ms', times=datetime64[s])/N=3"})
    out.append({"variant": "timed_api", "unit": "ms", "halflife": "1500us", "dmul": 3, "N": 3, "name": "ema_grouped(halflife='1500us', times=datetime64[ms], gaps in multiples of 3 ms)/N=3"})
    return out


def run_case(E, case):
    v = case["variant"]
    if v == "grouped":
        return F.run_grouped(E, case, PROP)
    if v == "timed":
        return F.run_timed(E, case, PROP)
    if v == "ungrouped":
        return F.run_ungrouped(E, case, PROP)
    if v == "halflife_api":
        return F.run_halflife_api(E, case, PROP)
    if v == "timed_api":
        return F.run_timed_api(E, case, PROP)
    if v == "layout":
        return F.run_layout(E, case, PROP)
    if v == "ungrouped_timed":
        return F.run_ungrouped_timed(E, case, PROP)
    raise ValueError(v)


def replay(case, inputs, cand=None):
    return F.replay(case, inputs, cand)


def validate(E, seed, tier):
    return F.validate(E, seed, 40 if tier == "quick" else 150)


META = {
    "glue": ['groupby_lib/emas.py::_halflife_to_int', 'groupby_lib/emas.py::_times_to_int_array', 'groupby_lib/emas.py::ema', 'groupby_lib/emas.py::ema_grouped', 'groupby_lib/groupby/core.py::ema'],
    "bounds": {"quick": {"N": 4, "G": 2, "code_sequences": "all 81 over {null,0,1}", "timed gaps": "0..3 halflives"},
               "thorough": {"N": 5, "G": 2, "extra": "N=4,G=3", "timed gaps": "0..3 halflives"}},
    "enumerated": ["the group-code sequence (every sequence of the bound): the quotient makes the merged query nonlinear", "time unit", "value dtype"],
    "symbolic": ["values and NaN flags", "mask bits", "alpha in (0,1]", "timestamps (any sign) with gaps d*halflife, d in 0..3", "halflife h > 0 (real)"],
    "assumptions": ["exact arithmetic: out * sum(w) == sum(w x) cross-multiplied; exp/log modelled as 2^c (table for integer c, otherwise an "
                    "uninterpreted strictly increasing positive function)", "pd.Timedelta(x).value contract stub: integer nanoseconds, truncating a numeric argument",
                    "weights count every row of the group between two observations (null-valued and masked rows included), as the property states",
                    "rows with a null key are not constrained here (C06)"],
    "outside": ["float32 rounding, accuracy of exp/log", "gaps that are not integer multiples of the halflife", "group-sorted layout / pandas wrapping in GroupBy.ema"],
}

"""C20 - stand-alone array helpers agree with their NumPy definitions (nanops reducers for any thread count, nb_dot)."""
import itertools
import time
import re
import numpy as real_np
import z3
from ..values import SF, MIN_INT, Config, is_sym, conc_bool, b_and, b_or, b_not, ite, same, total, Unsupported, OutsideModel
from ..symarray import A, fdiv
from ..runtime import run_paths, fresh_runtime
from ..harness import Inputs, decide, jsonable, to_float_cells, solve_exists
from .reductions import approx_same, np_to_cells, np_values, count_true, num
from .common import MergedRT, fix_nans

PROP = "C20"
FUNCS = ("nansum", "nanmean", "nanmin", "nanmax", "count")


def cases(tier, seed):
    out = []
    Lmax, Tmax = (4, 4) if tier == "quick" else (7, 8)
    for f in FUNCS:
        for dt in ("float64", "int64"):
            for L in range(1, Lmax + 1):
                for T in range(1, Tmax + 1):
                    if tier == "quick" and T > L + 1:
                        continue
                    out.append({"kind": "reduce1d", "func": f, "dtype": dt, "L": L, "threads": T,
                                "name": f"nanops.{f}/{dt}/len={L}/n_threads={T}", "witness": f == "nansum" and dt == "float64" and L == Lmax and T == 2})
    # more threads than the quick bound on longer arrays: block boundaries computed in any other way than np.array_split show up here
    for f in (("nansum", "nanmax") if tier == "quick" else FUNCS):
        for L, T in (((8, 6), (8, 7)) if tier == "quick" else ((8, 6), (8, 7), (9, 7), (8, 5), (9, 4))):
            out.append({"kind": "reduce1d", "func": f, "dtype": "float64", "L": L, "threads": T, "name": f"nanops.{f}/float64/len={L}/n_threads={T}"})
    for f in ("nansum", "nanmin", "nanmax"):
        for shape in ((2, 2), (2, 3), (3, 2)) if tier == "quick" else ((2, 2), (2, 3), (3, 2), (3, 3), (1, 3), (4, 3), (3, 4)):
            for axis in (0, 1):
                out.append({"kind": "reduce2d", "func": f, "dtype": "float64", "shape": list(shape), "axis": axis, "threads": 1,
                            "name": f"nanops.{f}/float64/shape={shape}/axis={axis}"})
    Lv = 3 if tier == "quick" else 4
    for L in range(1, Lv + 1):
        for pat in itertools.product([False, True], repeat=L):
            for ddof in (0, 1):
                for f in ("nanvar", "nanstd"):
                    for T in ((1, 2) if tier == "quick" else (1, 2, 3, L + 1)):
                        out.append({"kind": "var", "func": f, "L": L, "nulls": list(pat), "ddof": ddof, "threads": T,
                                    "name": f"nanops.{f}/float64/len={L}/null pattern {''.join('n' if p else 'v' for p in pat)}/ddof={ddof}/n_threads={T}"})
    # variance of INTEGER data of any magnitude: the result is a float, no intermediate 64-bit integer square or sum may overflow
    for L in ((2,) if tier == "quick" else (2, 3)):
        for f in ("nanvar", "nanstd"):
            if f == "nanstd" and L > 2:
                continue                                  # sqrt over three integer values came back `unknown` (measured)
            for T in ((1, 2) if L == 2 else (1,)):          # three values in two blocks came back `unknown` (mixed integer/real polynomial identity)
                out.append({"kind": "var", "func": f, "L": L, "nulls": [False] * L, "ddof": 1, "threads": T, "dtype": "int64",
                            "name": f"nanops.{f}/int64 values of any magnitude/len={L}/ddof=1/n_threads={T}"})
    for shape in ((2, 2), (3, 2), (2, 3)) if tier == "quick" else ((1, 1), (2, 2), (3, 2), (2, 3), (3, 3)):
        for dt in ("float64", "int64"):
            out.append({"kind": "dot", "shape": list(shape), "dtype": dt, "name": f"nb_dot/{dt}/shape={shape}"})
    # bools_to_categorical: every row is labelled with exactly its true columns (frame path of nb_dot, np.unique, bit tests)
    for shape in (((2, 2), (1, 3)) if tier == "quick" else ((2, 2), (1, 3), (3, 2), (2, 3), (2, 1))):
        out.append({"kind": "bools", "shape": list(shape), "name": f"bools_to_categorical/{shape[0]} rows x {shape[1]} boolean columns", "witness": shape == (2, 2)})
    # pretty_cut: every value lands in the bin whose printed bounds contain it (bin edges enumerated, values symbolic)
    int_bins = [[5, 10, 15], [10, 5], [3], [-4, 0, 4], [1, 1, 3]]
    flt_bins = [[1.5, 2.5], [-3.5, 2.5], [-0.5, 0.5, 0.75], [2.0, 1.0], [-4.25, -1.5], [0.1, 0.3]]
    if tier != "quick":
        int_bins += [[-7, -3], [0], [2, 4, 6, 8]]
        flt_bins += [[-0.75, -0.5, 0.0], [1e-3, 2.5e-3], [100.5], [-1.0, 1.0]]
    for xdt in ("int64", "float64"):
        for bins in int_bins + flt_bins:
            bdt = "int64" if all(isinstance(b, int) for b in bins) else "float64"
            out.append({"kind": "pretty_cut", "dtype": xdt, "bins": bins, "bins_dtype": bdt, "L": 2 if tier == "quick" else 3,
                        "name": f"pretty_cut/{xdt} values/{bdt} bins {bins}", "witness": xdt == "int64" and bins == [-3.5, 2.5]})
    return out


def run_case(E, case):
    k = case["kind"]
    if k == "reduce1d":
        return run_reduce1d(E, case)
    if k == "reduce2d":
        return run_reduce2d(E, case)
    if k == "var":
        return run_var(E, case)
    if k == "dot":
        return run_dot(E, case)
    if k == "pretty_cut":
        return run_pretty_cut(E, case)
    if k == "bools":
        return run_bools(E, case)
    raise Unsupported(k)


def _finish(E, inp, bads, paths, t0, case, sig, wit=()):
    merged = MergedRT()
    for pc, _, rt in paths:
        for kind, g_, c_, where in rt.obligations:
            merged.obligations.append((kind, b_and(*pc, g_) if pc else g_, c_, where))
        merged.pre.extend(rt.pre)
    dec = decide(inp, bads, merged, witnesses=list(wit))
    r = {"verdict": dec.verdict, "solver_s": dec.solver_s, "symex_s": time.time() - t0 - dec.solver_s, "n_queries": dec.n_queries,
         "obligations": dec.obligations, "failed_obligations": dec.failed_obligations, "witnesses": dec.witnesses, "candidates": [],
         "encoded": sorted(E.encoded)}
    if dec.verdict == "sat" and not any(k_ == "bounds" for k_, w_ in dec.failed_obligations):
        r["candidates"].append({"signature": f"{PROP}:{sig}", "case": case, "inputs": jsonable(dec.model), "kind": "property", "labels": dec.which[:4]})
    if dec.failed_obligations:
        r["verdict"] = "sat"
        kinds = sorted({k for k, w in dec.failed_obligations})
        r["candidates"].append({"signature": f"{PROP}:obligation:{','.join(kinds)}:{sig}", "case": case, "inputs": jsonable(dec.ob_model),
                                "kind": "obligation", "labels": [f"{a}@{b}" for a, b in dec.failed_obligations[:4]]})
    return r


def spec_1d(func, xs, dt):
    """NumPy nan-function semantics as a predicate over the result"""
    from .reductions import is_null_val
    valid = [b_not(is_null_val(x, dt)) for x in xs]
    n = count_true(valid)
    anyv = b_or(*valid)

    def check(r):
        if func == "count":
            return num(r) == n
        s = total([ite(v, num(x), 0) for v, x in zip(valid, xs)], 0)
        if func == "nansum":
            exp = s if dt.kind != "f" else (s if isinstance(s, SF) else (SF.of(s) if is_sym(s) else float(s)))
            return approx_same(r, exp)
        if func == "nanmean":
            return approx_same(r, fdiv(s, n)) if dt.kind == "f" else ite(anyv, approx_same(r, fdiv(s, n)), True)
        ismem = b_or(*[b_and(v, same(r, x)) for v, x in zip(valid, xs)])
        if func == "nanmin":
            bnd = b_and(*[b_or(b_not(v), _le(r, x)) for v, x in zip(valid, xs)])
        else:
            bnd = b_and(*[b_or(b_not(v), _le(x, r)) for v, x in zip(valid, xs)])
        nullres = float("nan") if dt.kind == "f" else MIN_INT
        return ite(anyv, b_and(ismem, bnd), same(r, nullres))
    return check


def _le(a, b):
    a, b = num(a), num(b)
    if isinstance(a, SF) or isinstance(b, SF):
        return SF.of(a).le(b)
    return a <= b


def run_reduce1d(E, case):
    t0 = time.time()
    no = E["nanops"]
    dt = real_np.dtype(case["dtype"])
    inp = Inputs()
    xs = inp.values("x", case["L"], dt, sum_safe=case["func"] in ("nansum", "nanmean"))
    f = no[case["func"]]

    def body():
        arr = A(xs, dt).tag("input:arr")
        if case["func"] == "count":
            return no["reduce"](arr, "count", n_threads=case["threads"])
        return f(arr, n_threads=case["threads"])
    try:
        paths = run_paths(body)
    except (Unsupported, OutsideModel):
        raise
    except Exception as e:      # noqa: BLE001 - the helper fails on valid input
        from . import common as _common
        return _common.raises_result(E, inp, PROP, case['kind'] + ':' + str(case.get('func', '')), case, e, t0)
    check = spec_1d(case["func"], xs, dt)
    bads = []
    for pc, r, _ in paths:
        pcz = b_and(*pc) if pc else True
        bads.append((f"{case['func']} equals the NumPy definition", b_and(pcz, b_not(check(r)))))
    wit = []
    if case.get("witness"):
        from .reductions import is_null_val
        h = (case["L"] + 1) // 2
        wit = [("all-null first block", b_and(*[is_null_val(x, dt) for x in xs[:h]], b_not(is_null_val(xs[-1], dt))))]
    return _finish(E, inp, bads, paths, t0, case, f"{case['func']}:{dt.kind}:threads={'1' if case['threads'] == 1 else ('>len' if case['threads'] > case['L'] else 'n')}", wit)


def run_reduce2d(E, case):
    t0 = time.time()
    no = E["nanops"]
    dt = real_np.dtype(case["dtype"])
    r_, c_ = case["shape"]
    inp = Inputs()
    xs = inp.values("x", r_ * c_, dt)

    def body():
        arr = A(xs, dt, (r_, c_)).tag("input:arr")
        return no[case["func"]](arr, axis=case["axis"], n_threads=1)
    try:
        paths = run_paths(body)
    except (Unsupported, OutsideModel):
        raise
    except Exception as e:      # noqa: BLE001 - the helper fails on valid input
        from . import common as _common
        return _common.raises_result(E, inp, PROP, case['kind'] + ':' + str(case.get('func', '')), case, e, t0)
    bads = []
    for pc, out, _ in paths:
        pcz = b_and(*pc) if pc else True
        cells = out.cells if isinstance(out, A) else list(out)
        lines = [[xs[i * c_ + j] for i in range(r_)] for j in range(c_)] if case["axis"] == 0 else [[xs[i * c_ + j] for j in range(c_)] for i in range(r_)]
        if len(cells) != len(lines):
            bads.append(("result length", pcz))
            continue
        for k, line in enumerate(lines):
            bads.append((f"{case['func']}[{k}] along axis {case['axis']}", b_and(pcz, b_not(spec_1d(case["func"], line, dt)(cells[k])))))
    return _finish(E, inp, bads, paths, t0, case, f"{case['func']}:2d:axis={case['axis']}")


def run_var(E, case):
    """polynomial identity per enumerated null pattern: var * (n - ddof) == sum (x - mean)^2 ; null when n <= ddof or n == 0"""
    t0 = time.time()
    no = E["nanops"]
    L, nulls, ddof = case["L"], case["nulls"], case["ddof"]
    inp = Inputs()
    is_int = case.get("dtype") == "int64"
    if is_int:
        vs = inp.ints("x", L, -2**40, 2**40)             # squares do not fit into 64 bits, sums do
        for a_ in range(L):
            for b_ in range(a_ + 1, L):
                inp.pre.append(vs[a_] != vs[b_])      # distinct values: a wrapped intermediate then shows in the result (replayable)
        xs = list(vs)
    else:
        vs = inp.floats("x", L, nullable=False)
        xs = [float("nan") if nulls[i] else vs[i] for i in range(L)]
    n = sum(1 for p in nulls if not p)
    old = (Config.sq_uninterpreted, Config.div_uninterpreted)
    Config.sq_uninterpreted = False
    Config.div_uninterpreted = False
    try:
        def body():
            from ..runtime import current as _cur
            _cur().check_int_overflow = is_int
            arr = A(xs, "int64" if is_int else "float64").tag("input:arr")
            return no[case["func"]](arr, ddof=ddof, n_threads=case.get("threads", 1))
        try:
            paths = run_paths(body)
        except (Unsupported, OutsideModel):
            raise
        except Exception as e:      # noqa: BLE001 - the helper fails on valid input
            from . import common as _common
            return _common.raises_result(E, inp, PROP, case['kind'] + ':' + str(case.get('func', '')), case, e, t0)
        bads = []
        valid = [SF.of(vs[i]) for i in range(L) if not nulls[i]]
        for pc, r, _ in paths:
            pcz = b_and(*pc) if pc else True
            if isinstance(r, complex):
                r = float("nan")          # (integer null marker) ** 0.5 on a path where every value is the null sentinel: NumPy gives nan
            if n - ddof <= 0 or n == 0:
                isn = r != r if isinstance(r, float) else (r.nan if isinstance(r, SF) else False)
                bads.append(("null when too few values", b_and(pcz, b_not(isn))))
            else:
                mean = total(valid) / SF.of(float(n))
                tp = total([(v - mean) * (v - mean) for v in valid]) / SF.of(float(n - ddof))
                if case["func"] == "nanvar":
                    bads.append(("var equals the two-pass definition", b_and(pcz, b_not(same(SF.of(r), tp)))))
                else:
                    rr = SF.of(r)
                    bads.append(("std^2 equals the two-pass variance and std >= 0", b_and(pcz, b_not(b_and(same(rr * rr, tp), b_or(rr.nan, rr.v >= 0))))))
    finally:
        Config.sq_uninterpreted, Config.div_uninterpreted = old
    return _finish(E, inp, bads, paths, t0, case, f"{case['func']}")


def run_dot(E, case):
    t0 = time.time()
    ut = E["util"]
    dt = real_np.dtype(case["dtype"])
    r_, c_ = case["shape"]
    inp = Inputs()
    if dt.kind == "f":
        a = inp.floats("a", r_ * c_, nullable=False)
        b = inp.floats("b", c_, nullable=False)
    else:
        a = inp.ints("a", r_ * c_, -1000, 1000)
        b = inp.ints("b", c_, -1000, 1000)
    old = Config.sq_uninterpreted
    Config.sq_uninterpreted = False
    try:
        def body():
            return ut["nb_dot"](A(a, dt, (r_, c_)).tag("input:a"), A(b, dt).tag("input:b"))
        try:
            paths = run_paths(body)
        except (Unsupported, OutsideModel):
            raise
        except Exception as e:      # noqa: BLE001 - the helper fails on valid input
            from . import common as _common
            return _common.raises_result(E, inp, PROP, case['kind'] + ':' + str(case.get('func', '')), case, e, t0)
        bads = []
        for pc, out, _ in paths:
            pcz = b_and(*pc) if pc else True
            cells = out.cells
            if out.dtype != dt:
                bads.append((f"result dtype {out.dtype}", pcz))
            for i in range(r_):
                exp = total([a[i * c_ + j] * b[j] for j in range(c_)])
                bads.append((f"nb_dot[{i}] == (a @ b)[{i}]", b_and(pcz, b_not(same(cells[i], exp)))))
    finally:
        Config.sq_uninterpreted = old
    return _finish(E, inp, bads, paths, t0, case, "nb_dot")


# ------------------------------------------------------------------ replay
# ------------------------------------------------------------------ bools_to_categorical
COLNAMES = ["A", "B", "C", "D"]


def run_bools(E, case):
    from ..models import FakeFrame, FakeSeries, LIndex
    t0 = time.time()
    ut = E["util"]
    R, C = case["shape"]
    inp = Inputs()
    cols = {COLNAMES[j]: inp.bools(f"c{j}_", R) for j in range(C)}

    def body():
        df = FakeFrame({k: A(v, "bool").tag("input:df") for k, v in cols.items()}, index=LIndex(list(range(R))))
        return ut["bools_to_categorical"](df)
    try:
        paths = run_paths(body, prune=True)
    except (Unsupported, OutsideModel):
        raise
    except Exception as e:      # noqa: BLE001 - the helper fails on valid input
        from . import common as _common
        return _common.raises_result(E, inp, PROP, case['kind'] + ':' + str(case.get('func', '')), case, e, t0)
    bads = []
    for pc, out, _ in paths:
        pcz = b_and(*pc) if pc else True
        cat = out.arr if isinstance(out, FakeSeries) else out
        codes = cat.codes.cells if isinstance(cat.codes, A) else list(cat.codes)
        cats = list(cat.categories)
        if len(codes) != R:
            bads.append(("one label per row", pcz))
            continue
        for r in range(R):
            c = codes[r]
            if is_sym(c):
                raise Unsupported("symbolic category code")
            if not 0 <= int(c) < len(cats):
                bads.append((f"row {r}: code {c} outside the categories", pcz))
                continue
            lab = cats[int(c)]
            named = set() if lab == "None" else set(lab.split(" & "))
            ok = b_and(*[(cols[COLNAMES[j]][r] if COLNAMES[j] in named else b_not(cols[COLNAMES[j]][r])) for j in range(C)])
            extra = named - set(COLNAMES[:C])
            if extra:
                bads.append((f"row {r}: label {lab!r} names unknown columns", pcz))
            bads.append((f"row {r}: the label names exactly the true columns", b_and(pcz, b_not(ok))))
        if len(set(cats)) != len(cats):
            # duplicate categories would make from_codes raise in pandas
            bads.append(("duplicate category labels", pcz))
    wit = []
    if case.get("witness"):
        wit = [("a row with no true column", b_and(*[b_not(cols[COLNAMES[j]][0]) for j in range(C)])),
               ("two rows with the same pattern", b_and(*[cols[COLNAMES[j]][0] == cols[COLNAMES[j]][1] for j in range(C)]))]
    r_ = _finish(E, inp, bads, paths, t0, case, f"bools_to_categorical:{R}x{C}", wit)
    r_["paths"] = len(paths)
    return r_


def replay_bools(case, conc):
    import pandas as pd
    import groupby_lib.util as ru
    R, C = case["shape"]
    df = pd.DataFrame({COLNAMES[j]: [bool(x) for x in conc[f"c{j}_"]] for j in range(C)})
    out = ru.bools_to_categorical(df)
    problems = []
    for r in range(R):
        lab = out.iloc[r]
        exp = " & ".join(COLNAMES[j] for j in range(C) if df.iloc[r, j]) or "None"
        if lab != exp:
            problems.append(f"row {r} ({df.iloc[r].tolist()}) labelled {lab!r}, expected {exp!r}")
    return bool(problems), {"problems": problems, "frame": df.to_dict("list")}


# ------------------------------------------------------------------ pretty_cut
def parse_bin_label(label, integer_bins):
    """printed bounds of a bin -> (lo, hi) as exact Fractions (None = unbounded); the printed number is read back the way it was
    printed (repr round trip), middle bins are taken closed at both ends (the weakest reading of 'contains')"""
    from fractions import Fraction

    def numb(t):
        t = t.strip()
        return Fraction(int(t)) if re.fullmatch(r"-?\d+", t) else Fraction(float(t))
    if label.startswith(" <= "):
        return None, numb(label[4:])
    if label.startswith(" > "):
        lo = numb(label[3:])
        return lo, None, "open"
    if " - " in label:
        a, b = label.split(" - ", 1)
        return numb(a), numb(b)
    v = numb(label)
    return v, v


def _contains(bounds, x):
    """x (python number / z3 term / SF value part) within the printed bounds"""
    lo, hi = bounds[0], bounds[1]
    conds = []
    if lo is not None:
        lo_ = z3.RealVal(str(lo)) if is_sym(x) else lo
        conds.append((x > lo_) if len(bounds) == 3 else (x >= lo_))
    if hi is not None:
        hi_ = z3.RealVal(str(hi)) if is_sym(x) else hi
        conds.append(x <= hi_)
    return b_and(*conds) if conds else True


def run_pretty_cut(E, case):
    t0 = time.time()
    ut = E["util"]
    dt = real_np.dtype(case["dtype"])
    inp = Inputs()
    xs = inp.values("x", case["L"], dt)

    def body():
        return ut["pretty_cut"](A(xs, dt).tag("input:x"), A(list(case["bins"]), case["bins_dtype"]).tag("input:bins"))
    try:
        paths = run_paths(body)
    except (Unsupported, OutsideModel):
        raise
    except Exception as e:      # noqa: BLE001 - the helper fails on valid input
        from . import common as _common
        return _common.raises_result(E, inp, PROP, case['kind'] + ':' + str(case.get('func', '')), case, e, t0)
    bads = []
    for pc, out, _ in paths:
        pcz = b_and(*pc) if pc else True
        codes = out.codes.cells if isinstance(out.codes, A) else list(out.codes)
        cats = list(out.categories)
        if len(codes) != len(xs):
            bads.append(("one code per value", pcz))
            continue
        bounds = [parse_bin_label(c, True) for c in cats]
        for i, (x, c) in enumerate(zip(xs, codes)):
            if isinstance(x, SF):
                isnull, xv = x.nan, x.v
            else:
                isnull, xv = False, x
            ok_bin = b_or(*[b_and(num(c) == j, _contains(bounds[j], xv)) for j in range(len(cats))])
            bads.append((f"value {i} lies within the printed bounds of its bin", b_and(pcz, b_not(isnull), b_not(ok_bin))))
            bads.append((f"null value {i} gets no bin", b_and(pcz, isnull, b_not(num(c) == -1))))
    wit = []
    if case.get("witness"):
        x0 = xs[0].v if isinstance(xs[0], SF) else xs[0]
        wit = [("a value equal to a truncated negative edge", x0 == -3)]
    return _finish(E, inp, bads, paths, t0, case, f"pretty_cut:{dt.kind}:{real_np.dtype(case['bins_dtype']).kind} bins", wit)


def replay_pretty_cut(case, conc):
    import groupby_lib.util as ru
    dt = real_np.dtype(case["dtype"])
    x = np_values(to_float_cells(conc["x"]), dt)
    bins = list(case["bins"])
    out = ru.pretty_cut(x, bins)
    problems = []
    for i, v in enumerate(x):
        lab = out[i]
        null = dt.kind == "f" and v != v
        if null:
            if isinstance(lab, str):
                problems.append(f"null value {i} was put into bin {lab!r}")
            continue
        if not isinstance(lab, str):
            problems.append(f"value {v!r} got no bin")
            continue
        b = parse_bin_label(lab, True)
        from fractions import Fraction
        if conc_bool(_contains(b, Fraction(float(v)) if dt.kind == "f" else Fraction(int(v)))) is not True:
            problems.append(f"value {v!r} was put into bin {lab!r}")
    return bool(problems), {"problems": problems, "x": jsonable([a.item() for a in x]), "bins": bins, "labels": [str(c) for c in out.categories]}


def replay(case, conc, cand=None):
    import groupby_lib.nanops as rn
    import groupby_lib.util as ru
    conc = fix_nans(conc)
    k = case["kind"]
    try:
        if k == "pretty_cut":
            return replay_pretty_cut(case, conc)
        if k == "bools":
            return replay_bools(case, conc)
        if k in ("reduce1d", "reduce2d"):
            dt = real_np.dtype(case["dtype"])
            arr = np_values(to_float_cells(conc["x"]), dt)
            npf = {"nansum": real_np.nansum, "nanmean": real_np.nanmean, "nanmin": real_np.nanmin, "nanmax": real_np.nanmax}
            import warnings
            with warnings.catch_warnings():
                warnings.simplefilter("ignore")
                if k == "reduce1d":
                    got = rn.reduce(arr, "count", n_threads=case["threads"]) if case["func"] == "count" else getattr(rn, case["func"])(arr, n_threads=case["threads"])
                    if case["func"] == "count":
                        exp = int(real_np.sum(~real_np.isnan(arr))) if dt.kind == "f" else len(arr)
                    elif dt.kind == "f" and real_np.all(real_np.isnan(arr)) and case["func"] != "nansum":
                        exp = float("nan")
                    else:
                        exp = npf[case["func"]](arr)
                    bad = not approx_same(float(got), float(exp))
                    return bad, {"got": jsonable(float(got)), "numpy": jsonable(float(exp)), "x": jsonable(list(arr)), "n_threads": case["threads"]}
                arr = arr.reshape(case["shape"])
                got = getattr(rn, case["func"])(arr, axis=case["axis"], n_threads=1)
                exp = npf[case["func"]](arr, axis=case["axis"])
                bad = [i for i in range(len(exp)) if not approx_same(float(got[i]), float(exp[i]))]
                return bool(bad), {"got": jsonable(list(got)), "numpy": jsonable(list(exp))}
        if k == "var" and case.get("dtype") == "int64":
            from fractions import Fraction
            xi = [int(x) for x in conc["x"]]
            got = float(getattr(rn, case["func"])(real_np.array(xi, dtype="int64"), ddof=case["ddof"], n_threads=case.get("threads", 1)))
            n = len(xi)
            m = Fraction(sum(xi), n)
            exp = float(sum((Fraction(v) - m) ** 2 for v in xi) / (n - case["ddof"]))
            tol = 64 * 2.3e-16 * n * float(max(abs(v) for v in xi)) ** 2 + 1e-9
            bad = not (abs(got - exp) <= tol) if case["func"] == "nanvar" else not (got == got and got >= 0 and abs(got * got - exp) <= tol)
            return bad, {"got": jsonable(got), "exact": jsonable(exp if case["func"] == "nanvar" else exp ** 0.5), "x": xi, "tolerance": tol}
        if k == "var":
            xs = [float("nan") if case["nulls"][i] else float(conc["x"][i]) for i in range(case["L"])]
            arr = real_np.array(xs)
            import warnings
            with warnings.catch_warnings():
                warnings.simplefilter("ignore")
                got = getattr(rn, case["func"])(arr, ddof=case["ddof"], n_threads=case.get("threads", 1))
                exp = (real_np.nanvar if case["func"] == "nanvar" else real_np.nanstd)(arr, ddof=case["ddof"])
            n = int(real_np.sum(~real_np.isnan(arr)))
            if n - case["ddof"] <= 0:
                exp = float("nan")
            return (not approx_same(float(got), float(exp))), {"got": jsonable(float(got)), "numpy": jsonable(float(exp)), "x": jsonable(xs)}
        if k == "dot":
            dt = real_np.dtype(case["dtype"])
            a = np_values(to_float_cells(conc["a"]), dt).reshape(case["shape"])
            b = np_values(to_float_cells(conc["b"]), dt)
            got = ru.nb_dot(a, b)
            exp = a @ b
            bad = [i for i in range(len(exp)) if not approx_same(got[i].item(), exp[i].item())]
            return bool(bad), {"got": jsonable(list(got)), "numpy": jsonable(list(exp))}
    except Exception as e:      # noqa: BLE001
        return True, f"real call raised {type(e).__name__}: {e}"
    raise Unsupported(k)


META = {
    "glue": ['groupby_lib/util.py::pretty_cut', 'groupby_lib/util.py::bools_to_categorical', 'groupby_lib/nanops.py::count', 'groupby_lib/nanops.py::nanmax', 'groupby_lib/nanops.py::nanmean', 'groupby_lib/nanops.py::nanmin', 'groupby_lib/nanops.py::nanstd', 'groupby_lib/nanops.py::nansum', 'groupby_lib/nanops.py::nanvar', 'groupby_lib/nanops.py::reduce', 'groupby_lib/nanops.py::reduce_1d', 'groupby_lib/nanops.py::reduce_2d', 'groupby_lib/util.py::nb_dot', 'groupby_lib/util.py::parallel_map'],
    "bounds": {"quick": {"length": "1..4", "n_threads": "1..min(4, len+1)", "2-D shapes": "<= 3x2", "var": "length <= 3, every null pattern", "nb_dot": "<= 3x2", "pretty_cut": "2 symbolic values x 11 enumerated edge lists x int64/float64 values", "bools_to_categorical": "2x2, 1x3"},
               "thorough": {"length": "1..7", "n_threads": "1..8 (incl. more threads than elements)", "2-D shapes": "<= 4x3", "var": "length <= 4", "nb_dot": "<= 3x3", "pretty_cut": "3 symbolic values x 18 enumerated edge lists", "bools_to_categorical": "up to 3x2 / 2x3"}},
    "enumerated": ["array length/shape", "thread count", "null pattern for nanvar/nanstd (the count becomes a constant)", "ddof"],
    "symbolic": ["values and NaN placement (1-D/2-D reducers)", "the non-null values (variance, dot product)"],
    "assumptions": ["NumPy nan-function semantics as the specification: nansum of nothing = 0, nanmin/nanmax/nanmean of nothing = NaN, count = number of non-null values",
                    "int64 arrays exclude INT64_MIN (library-wide null sentinel)", "exact arithmetic; variance as a polynomial identity against the two-pass definition; "
                    "sqrt as an uninterpreted function (std^2 = var, std >= 0)", "the real parallel_map on the concurrent.futures model",
                    "pretty_cut: the real function runs natively with symbolic values and enumerated concrete bin edges (labels are formatted by the real "
                    "code on concrete numbers); model of ndarray.searchsorted = number of edges strictly below the value, NaN after everything; a bin "
                    "'contains' a value when the value lies within the numbers PRINTED in its label (read back with float()/int(); middle bins closed at "
                    "both ends, the weakest reading); pd.Categorical.from_codes is a record (codes, categories)",
                    "bools_to_categorical: the real function on a symbolic boolean frame (contract model FakeFrame); np.unique of symbolic integers and "
                    "the bit tests fork, with the solver pruning impossible branches at every branch point; x & 2^i on a symbolic non-negative integer "
                    "is the i-th binary digit"],
    "outside": ["pretty_cut: an explicit precision argument, timedelta data (pd.to_timedelta), Series in/out wrapping; bools_to_categorical: "
                "custom sep/na_rep, allow_duplicates=False, more than 3 columns or rows",
                "the min_count != 0 branch (delegates to pandas.core.nanops)", "datetime output converters (pd.to_datetime)", "float rounding"],
}

"""C09 - rolling operations are per-group sliding-window reductions (MATH domain; bit-exactness of temporal values: see IEEE cases)."""
from . import rolling as F
from . import common

PROP = "C09"


def _valid(op, dt):
    if dt.startswith("datetime") and op in ("rolling_sum", "rolling_mean"):
        return False
    if dt.startswith("timedelta") and op == "rolling_mean":
        # float mean truncated back to timedelta: quotient of two symbolic terms under an uninterpreted truncation;
        # z3 answers unknown (probed) - outside the claim
        return False
    return True


def cases(tier, seed):
    out = []
    if tier == "quick":
        N, G, Ws = 4, 2, (1, 2)
        dts = ["float64", "int64", "datetime64[ns]", "timedelta64[s]"]
    else:
        N, G, Ws = 6, 2, (1, 2, 3)
        dts = ["float64", "int64", "int32", "float32", "datetime64[ns]", "datetime64[us]", "timedelta64[ns]", "timedelta64[s]"]
    for op in F.OPS:
        for dt in dts:
            if not _valid(op, dt):
                continue
            for W in Ws:
                mps = [None] if op in ("rolling_shift", "rolling_diff") else list(range(1, W + 1))
                for mp in mps:
                    for mk in ("none", "bool_sym"):
                        n = N
                        if tier == "thorough" and (mk == "bool_sym" and op in ("rolling_min", "rolling_max", "rolling_mean") or dt.startswith(("datetime", "timedelta"))):
                            n = 5
                        out.append({"op": op, "dtype": dt, "N": n, "G": G, "W": W, "min_periods": mp, "mask": {"kind": mk},
                                    "witness": dt == "float64" and W == 2 and mp in (None, 1)})
    if tier == "thorough":
        for op in ("rolling_sum", "rolling_max", "rolling_shift"):
            out.append({"op": op, "dtype": "float64", "N": 5, "G": 3, "W": 2, "min_periods": None if op == "rolling_shift" else 1, "mask": {"kind": "none"}})
            if op != "rolling_sum":       # the running-sum algebra at N=7 came back `unknown` on a loaded machine (measured): N=6 is the bound for sums
                out.append({"op": op, "dtype": "float64", "N": 7, "G": 2, "W": 2, "min_periods": None if op == "rolling_shift" else 1, "mask": {"kind": "none"}})
    for op in ("rolling_sum", "rolling_max", "rolling_shift"):
        for comp in ([1, 3], [2, 2], [3, 1]):
            out.append({"op": op, "dtype": "float64", "N": 4, "G": 2, "W": 2, "min_periods": None if op == "rolling_shift" else 1, "mask": {"kind": "bool_sym"},
                        "chunks": comp})
    if tier == "quick":
        # a window longer than most groups can get, and min_periods well below it
        for op in F.OPS:
            for mp in ((None,) if op in ("rolling_shift", "rolling_diff") else (1, 3)):
                out.append({"op": op, "dtype": "float64", "N": 4, "G": 2, "W": 3, "min_periods": mp, "mask": {"kind": "none"}})
    # the public methods GroupBy.rolling_*/shift/diff on directly constructed states (contiguous; chunked with per-chunk dictionaries)
    for lay in ([None, [2, 2]] if tier == "quick" else [None, [2, 2], [1, 3], [2, 1, 1]]):
        for op in F.OPS:
            for mk in ("none", "bool_sym"):
                for W, mp in ((2, 1), (3, None)):
                    if op in ("rolling_shift", "rolling_diff"):
                        mp = None
                    elif lay and W == 3:
                        continue
                    c = {"op": op, "dtype": "float64", "N": 4, "G": 2, "W": W, "min_periods": mp, "mask": {"kind": mk}, "via": "GroupBy"}
                    if lay:
                        c["lengths"] = lay
                    out.append(c)
    for c in out:
        c["name"] = F.case_name(c)
    return out


def run_case(E, case):
    return common.run_generic(E, case, PROP, F)


def replay(case, inputs, cand=None):
    return F.replay(case, inputs, cand)


def validate(E, seed, tier):
    return F.validate_cases(E, [c for c in cases("quick", seed) if not c.get("via")], seed, 60 if tier == "quick" else 200)


META = {
    "glue": ['groupby_lib/groupby/numba.py::_apply_rolling', 'groupby_lib/groupby/numba.py::rolling_diff', 'groupby_lib/groupby/numba.py::rolling_max', 'groupby_lib/groupby/numba.py::rolling_mean', 'groupby_lib/groupby/numba.py::rolling_min', 'groupby_lib/groupby/numba.py::rolling_shift', 'groupby_lib/groupby/numba.py::rolling_sum'],
    "bounds": {"quick": {"N": 4, "G": 2, "W": "1, 2 (all dtypes, with/without mask), 3 (float64, unmasked)", "min_periods": "1..W"},
               "thorough": {"N": "6 (5 for masked min/max/mean; 7 unmasked sum/max/shift)", "G": "2 (3 at N=5)", "W": [1, 2, 3], "min_periods": "1..W"}},
    "enumerated": ["window", "min_periods", "dtype (incl. time units)", "mask present or not"],
    "symbolic": ["group codes", "values and null flags", "boolean mask bits"],
    "assumptions": ["checked at selected rows with a non-null key (other rows: C05/C06)", "exact arithmetic for sums/means",
                    "16-bit buffer positions/counters: every store carries a range obligation (windows >= 32768 are outside the property's quantifier)",
                    "while loop in min_or_max_and_position unrolled W+2 times with an unwinding obligation",
                    "a timedelta difference involving NaT is not specified", "NumPy/numba models (DESIGN 3.5)"],
    "outside": ["rolling_mean on timedelta values (truncated quotient of symbolic terms: solver answers unknown)", "group-sorted layout (index_by_groups=True goes through pandas rolling inside apply)", "float rounding", "N > 6 (7)"],
}

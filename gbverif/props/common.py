"""Generic case runner shared by the property modules: symbolic build -> shadow run (with fork-and-replay of
symbolic glue branches) -> spec -> z3 -> candidates for replay on the real code."""
import time
import z3
from ..values import Unsupported, OutsideModel, conc_bool, b_and, b_not, zb
from ..runtime import run_paths, fresh_runtime, FC
from ..harness import Inputs, decide, solve_exists, jsonable, to_float_cells


def aliases_input(out):
    """does a returned array share storage with an input / GroupBy state array?"""
    from ..symarray import A, SymLen
    stack = [out]
    while stack:
        x = stack.pop()
        if isinstance(x, SymLen):
            x = x.arr
        if isinstance(x, A):
            if x.st.origin is not None:
                return True
        elif isinstance(x, (list, tuple)):
            stack.extend(x)
        elif hasattr(x, "arr"):
            stack.append(x.arr)
    return False


class MergedRT:
    def __init__(self):
        self.obligations = []
        self.pre = []


def run_generic(E, case, prop, fam, forking=True):
    """fam provides: build(case, inp) -> d ; call(E, case, d) -> out ; bads(case, d, out) -> [(label, cond)] ;
    optional wits(case, d) ; signature(case, labels) ; optional unroll(case)"""
    t0 = time.time()
    inp = Inputs()
    d = fam.build(case, inp)
    merged = MergedRT()
    all_bads = []
    npaths = 0

    def body():
        rt = __import__("gbverif.runtime", fromlist=["current"]).current()
        if hasattr(fam, "unroll"):
            rt.unroll = fam.unroll(case)
        if hasattr(fam, "prepare_rt"):
            fam.prepare_rt(case, rt)
        return fam.call(E, case, d)

    try:
        if forking:
            paths = run_paths(body)
        else:
            rt = fresh_runtime()
            FC.active = False
            paths = [([], body(), rt)]
    except (Unsupported, OutsideModel):
        raise
    except Exception as e:      # noqa: BLE001 - code under test raised on valid input
        import traceback
        from ..runtime import _model_gap
        if _model_gap(e):
            raise Unsupported("model gap: " + _model_gap(e)) from e
        tb = traceback.format_exc()[-600:]
        res_, m = solve_exists(list(inp.pre) + list(getattr(e, "gb_pc", [])), True)
        model = inp.eval(m) if m is not None else {}
        return {"verdict": "sat", "solver_s": 0.0, "symex_s": time.time() - t0, "n_queries": 1, "obligations": 0,
                "failed_obligations": [], "witnesses": {}, "encoded": sorted(E.encoded),
                "candidates": [{"signature": f"{prop}:raises:{type(e).__name__}:" + fam.signature(case, []), "case": case,
                                "inputs": jsonable(model), "kind": "raises", "labels": [f"{type(e).__name__}: {str(e)[:200]}", tb]}]}
    for pc, out, rt in paths:
        npaths += 1
        pcz = b_and(*pc) if pc else True
        if isinstance(out, Exception):
            all_bads.append((f"raises:{type(out).__name__}", pcz))
            continue
        for lab, b in fam.bads(case, d, out):
            all_bads.append((lab, b_and(pcz, b)))
        if aliases_input(out):
            all_bads.append(("result aliases caller-owned storage", pcz))
        for kind, g, c, where in rt.obligations:
            merged.obligations.append((kind, b_and(pcz, g), c, where))
        merged.pre.extend(rt.pre)
    symex = time.time() - t0
    wit = fam.wits(case, d) if (case.get("witness") and hasattr(fam, "wits")) else []
    dec = decide(inp, all_bads, merged, witnesses=wit, prefer_small=getattr(fam, "prefer_small", True))
    r = {"verdict": dec.verdict, "solver_s": dec.solver_s, "symex_s": symex, "n_queries": dec.n_queries,
         "obligations": dec.obligations, "failed_obligations": dec.failed_obligations, "witnesses": dec.witnesses,
         "candidates": [], "encoded": sorted(E.encoded), "paths": npaths}
    if case.get("witness"):
        res_, m = solve_exists(list(inp.pre) + list(merged.pre), True)
        r["n_queries"] += 1
        if m is not None:
            r["reach_model"] = jsonable(inp.eval(m))
        else:
            r["verdict"] = "error"
            r["detail"] = "vacuous harness: preconditions unsatisfiable"
    if dec.verdict == "sat" and not any(k_ in ("bounds", "float_detour") for k_, w_ in dec.failed_obligations):
        # (a failed bounds / float-detour obligation means the model's values are not what the machine computes: only the obligation is reported)
        r["candidates"].append({"signature": f"{prop}:" + fam.signature(case, dec.which), "case": case,
                                "inputs": jsonable(dec.model), "kind": "property", "labels": dec.which[:6]})
    if dec.failed_obligations:
        kinds = sorted({k for k, w in dec.failed_obligations})
        r["candidates"].append({"signature": f"{prop}:obligation:{','.join(kinds)}:" + fam.signature(case, []), "case": case,
                                "inputs": jsonable(dec.ob_model), "kind": "obligation",
                                "labels": [f"{k}@{w}" for k, w in dec.failed_obligations[:6]]})
        r["verdict"] = "sat"
    return r


def raises_result(E, inp, prop, sig, case, e, t0):
    """the code under test raised on valid input: a candidate 'fails instead of returning', to be confirmed by the replay"""
    from ..runtime import _model_gap
    if _model_gap(e):
        raise Unsupported("model gap: " + _model_gap(e)) from e
    res_, m = solve_exists(list(inp.pre) + list(getattr(e, "gb_pc", [])), True)
    return {"verdict": "sat", "solver_s": 0.0, "symex_s": time.time() - t0, "n_queries": 1, "obligations": 0, "failed_obligations": [],
            "witnesses": {}, "encoded": sorted(E.encoded),
            "candidates": [{"signature": f"{prop}:raises:{type(e).__name__}:{sig}", "case": case,
                            "inputs": jsonable(inp.eval(m)) if m is not None else {}, "kind": "raises",
                            "labels": [f"{type(e).__name__}: {str(e)[:200]}"]}]}


def fix_nans(conc):
    """json round trip turns NaN into None: undo"""
    out = {}
    for k, v in conc.items():
        if isinstance(v, list):
            out[k] = [float("nan") if x is None else x for x in v]
        else:
            out[k] = v
    return out


def concrete_d(fam, case, conc):
    c = {k: (to_float_cells(v) if isinstance(v, list) else v) for k, v in fix_nans(conc).items()}
    return fam.build(case, Inputs(concrete=c))

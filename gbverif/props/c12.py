"""C12 (in part) - same data in any dtype / chunk layout gives the same answer: dtype preservation and bit-exactness of
selection-type results, 64-bit integer sums for every integer width, value chunk layouts misaligned with key chunks.
Container normalisation (pandas / polars / pyarrow objects, time zones, Arrow null bitmaps) is C-extension behaviour: outside."""
import itertools
import time
import numpy as real_np
import z3
from ..values import SF, MIN_INT, is_sym, conc_bool, b_and, b_or, b_not, ite, same, Unsupported, OutsideModel
from ..symarray import A
from ..models import FakeChunked
from ..runtime import run_paths, fresh_runtime, current
from ..harness import Inputs, decide, jsonable, to_float_cells, solve_exists
from . import reductions as R, cumulative as CU, rolling as RO, common
from .reductions import approx_same, np_to_cells, np_values
from .gbcore import make_gb, ChunkedState, compositions
from .common import MergedRT, fix_nans
from . import c03 as C3

PROP = "C12"
INT_DT = ["int8", "int16", "int32", "int64", "uint8", "uint16", "uint32", "uint64"]
TIME_DT = ["datetime64[s]", "datetime64[ms]", "datetime64[us]", "datetime64[ns]", "timedelta64[s]", "timedelta64[ns]"]
SEL = ("min", "max", "first", "last")


def cases(tier, seed):
    out = []
    N, G = (3, 2) if tier == "quick" else (6, 2)
    dts = INT_DT + ["bool", "float32", "float64"] + TIME_DT
    if tier == "quick":
        dts = ["int8", "int32", "int64", "uint16", "uint64", "bool", "float32", "float64", "datetime64[s]", "datetime64[us]", "datetime64[ns]", "timedelta64[s]"]
    for dt in dts:
        for f in SEL:
            for T in ((1, 2) if tier == "quick" else (1, 2, 3)):
                for mk in ("none", "bool_sym") if T == 1 else ("none",):
                    out.append({"kind": "reduce", "func": f, "dtype": dt, "N": N, "G": G, "mask": {"kind": mk}, "threads": T,
                                "name": f"dtype+exactness:group_{f}/{dt}/N={N},G={G}/mask={mk}/threads={T}", "witness": dt == "datetime64[us]" and f == "max" and T == 1})
        for f in ("count", "size"):
            out.append({"kind": "reduce", "func": f, "dtype": dt, "N": N, "G": G, "mask": {"kind": "none"}, "threads": 1,
                        "name": f"dtype:group_{f}/{dt}/N={N},G={G} is an integer count"})
        for op in ("cummin", "cummax"):
            out.append({"kind": "cum", "op": op, "dtype": dt, "N": N, "G": G, "mask": {"kind": "none"}, "skip_na": True,
                        "name": f"dtype+exactness:{op}/{dt}/N={N},G={G}"})
        if dt.startswith(("datetime", "timedelta")):
            for op in ("rolling_min", "rolling_max", "rolling_shift", "rolling_diff"):
                out.append({"kind": "roll", "op": op, "dtype": dt, "N": N, "G": G, "W": 2, "min_periods": 1, "mask": {"kind": "none"},
                            "name": f"dtype+exactness:{op}/{dt}/N={N},G={G},W=2"})
    for dt in INT_DT + ["bool"]:
        if tier == "quick" and dt in ("int16", "uint8", "uint32"):
            continue
        out.append({"kind": "reduce", "func": "sum", "dtype": dt, "N": N, "G": G, "mask": {"kind": "none"}, "threads": 1,
                    "name": f"64-bit integer sum:group_sum/{dt}/N={N},G={G}"})
        out.append({"kind": "reduce", "func": "sum", "dtype": dt, "N": N, "G": G, "mask": {"kind": "none"}, "threads": 2,
                    "name": f"64-bit integer sum:group_sum/{dt}/N={N},G={G}/threads=2"})
        out.append({"kind": "cum", "op": "cumsum", "dtype": dt, "N": N, "G": G, "mask": {"kind": "none"}, "skip_na": True,
                    "name": f"64-bit integer sum:cumsum/{dt}/N={N},G={G}"})
    Nc = 4 if tier == "quick" else 5
    for klay in compositions(Nc, 2, 2):
        for vlay in compositions(Nc, 2 if tier == "quick" else 3, 2):
            for f in ("sum", "first", "last", "max", "min", "count"):
                out.append({"kind": "layout", "func": f, "N": Nc, "G": 2, "key_chunks": klay, "value_chunks": vlay, "dtype": "float64",
                            "name": f"chunk layouts:GroupBy.{f}/key chunks {'+'.join(map(str, klay))} x value chunks {'+'.join(map(str, vlay))}"})
    return out


def expected_result_dtype(case):
    dt = real_np.dtype(case["dtype"])
    if case["kind"] == "reduce":
        f = case["func"]
        if f in ("count", "size"):
            return "integer"
        if f == "sum":
            if dt.kind in "ib":
                return real_np.dtype("int64")
            if dt.kind == "u":
                return real_np.dtype("uint64")
        return dt
    if case["kind"] == "cum":
        return CU.expected_dtype(case)
    return RO.expected_dtype(case)


def run_case(E, case):
    if case["kind"] == "layout":
        return run_layout(E, case)
    t0 = time.time()
    fam = {"reduce": None, "cum": CU, "roll": RO}[case["kind"]]
    inp = Inputs()
    if case["kind"] == "reduce":
        d = R.build(case, inp)
    else:
        d = fam.build(case, inp)
    merged = MergedRT()

    def body():
        rt = current()
        rt.exact_ints = True          # any store of an integer into a float array must be exactly representable
        rt.unroll = case.get("W", 1) + 2
        if case["kind"] == "reduce":
            return R.shadow_call(E, case, R.shadow_arrays(case, d))
        return fam.call(E, case, d)
    try:
        paths = run_paths(body)
    except (Unsupported, OutsideModel):
        raise
    except Exception as e:      # noqa: BLE001
        return common.raises_result(E, inp, PROP, f"{case['kind']}:{case.get('func') or case.get('op')}:{real_np.dtype(case['dtype']).kind}", case, e, t0)
    bads = []
    want = expected_result_dtype(case)
    for pc, out, rt in paths:
        pcz = b_and(*pc) if pc else True
        if want == "integer":
            if out.dtype.kind not in "iu":
                bads.append((f"result dtype {out.dtype} is not an integer count", pcz))
        elif out.dtype != want:
            bads.append((f"result dtype {out.dtype} != {want}", pcz))
        if case["kind"] == "reduce":
            for lab, b in R.spec_bads(case, d, out.cells):
                bads.append((lab, b_and(pcz, b)))
        else:
            for lab, b in fam.bads(case, d, out):
                if ".dtype" in lab:
                    continue
                bads.append((lab, b_and(pcz, b)))
        for kind, g_, c_, where in rt.obligations:
            merged.obligations.append((kind, b_and(pcz, g_), c_, where))
        merged.pre.extend(rt.pre)
    wit = []
    if case.get("witness"):
        v = d["values"]
        wit = [("a timestamp beyond 2^53", b_and(v[0] > 2**53, d["codes"][0] == 0))]
    dec = decide(inp, bads, merged, witnesses=wit, prefer_small=False)
    r = {"verdict": dec.verdict, "solver_s": dec.solver_s, "symex_s": time.time() - t0 - dec.solver_s, "n_queries": dec.n_queries,
         "obligations": dec.obligations, "failed_obligations": dec.failed_obligations, "witnesses": dec.witnesses, "candidates": [],
         "encoded": sorted(E.encoded)}
    op = case.get("func") or case.get("op")
    sig = f"{PROP}:{case['kind']}:{op}:{real_np.dtype(case['dtype']).kind}"
    if dec.verdict == "sat" and not any(k_ == "bounds" for k_, w_ in dec.failed_obligations):
        lab = ":dtype" if any("dtype" in w for w in dec.which) else ""
        r["candidates"].append({"signature": sig + lab, "case": case, "inputs": jsonable(dec.model), "kind": "property", "labels": dec.which[:4]})
    if dec.failed_obligations:
        r["verdict"] = "sat"
        kinds = sorted({k for k, w in dec.failed_obligations})
        r["candidates"].append({"signature": f"{sig}:obligation:{','.join(kinds)}", "case": case, "inputs": jsonable(dec.ob_model),
                                "kind": "obligation", "labels": [f"{a}@{b}" for a, b in dec.failed_obligations[:4]]})
    return r


class _Out:
    def __init__(self, cells, dtype, shape=None):
        self.cells = cells
        self.dtype = dtype


def replay(case, conc, cand=None):
    conc = fix_nans(conc)
    if case["kind"] == "layout":
        return replay_layout(case, conc)
    want = expected_result_dtype(case)
    try:
        if case["kind"] == "reduce":
            out = R.real_call(case, conc)
            d = R.concrete_inputs(case, conc)
            failed = [lab for lab, b in R.spec_bads(case, d, np_to_cells(out)) if conc_bool(b) is True]
        else:
            fam = {"cum": CU, "roll": RO}[case["kind"]]
            out = fam.real_call(case, conc)
            d = common.concrete_d(fam, case, conc)
            failed = [lab for lab, b in fam.bads(case, d, A(np_to_cells(out), out.dtype)) if conc_bool(b) is True and ".dtype" not in lab]
    except Exception as e:      # noqa: BLE001
        return True, f"real call raised {type(e).__name__}: {e}"
    if want == "integer":
        if out.dtype.kind not in "iu":
            failed.append(f"result dtype {out.dtype} is not an integer count")
    elif out.dtype != want:
        failed.append(f"result dtype {out.dtype} != {want}")
    return bool(failed), {"real_output": jsonable(np_to_cells(out)), "real_dtype": str(out.dtype), "failed": failed, "inputs": jsonable(conc)}


# ------------------------------------------------------------------ value chunk layout vs key chunk layout
def run_layout(E, case):
    t0 = time.time()
    N, G = case["N"], case["G"]
    inp = Inputs()
    st = ChunkedState(inp, case["key_chunks"], [min(L, G) for L in case["key_chunks"]], G)
    vs = inp.values("v", N, "float64")
    merged = MergedRT()

    def chunked():
        gb = make_gb(E, G, chunks=st.chunk_arrays(), pointers=st.pointer_arrays())
        whole = A(vs, "float64").tag("input:values")
        parts = []
        p = 0
        for L in case["value_chunks"]:
            parts.append(whole[p:p + L])
            p += L
        (r, c), = gb._apply_gb_func_across_chunked_group_keys(case["func"], [FakeChunked(parts)], None)
        return r, c

    def contiguous():
        gb = make_gb(E, G, codes=A(st.global_codes(), "int64"))
        (r, c), = gb._apply_gb_func_across_chunked_group_keys(case["func"], [A(vs, "float64")], None)
        return r, c
    try:
        p1, p2 = run_paths(chunked), run_paths(contiguous)
    except (Unsupported, OutsideModel):
        raise
    except Exception as e:      # noqa: BLE001
        return common.raises_result(E, inp, PROP, f"layout:{case['func']}", case, e, t0)
    bads = []
    for pc1, (r1, c1), rt1 in p1:
        for pc2, (r2, c2), rt2 in p2:
            pcz = b_and(*(pc1 + pc2)) if (pc1 or pc2) else True
            for g in range(G):
                bads.append((f"{case['func']}[g={g}]", b_and(pcz, b_not(same(r1.cells[g], r2.cells[g])))))
    for paths in (p1, p2):
        for pc, _, rt in paths:
            for kind, g_, c_, where in rt.obligations:
                merged.obligations.append((kind, b_and(*pc, g_) if pc else g_, c_, where))
            merged.pre.extend(rt.pre)
    dec = decide(inp, bads, merged)
    r = {"verdict": dec.verdict, "solver_s": dec.solver_s, "symex_s": time.time() - t0 - dec.solver_s, "n_queries": dec.n_queries,
         "obligations": dec.obligations, "failed_obligations": dec.failed_obligations, "witnesses": {}, "candidates": [], "encoded": sorted(E.encoded)}
    if case["key_chunks"] != case["value_chunks"]:
        r["witnesses"]["value chunks misaligned with key chunks"] = True
    if dec.verdict == "sat" or dec.failed_obligations:
        r["verdict"] = "sat"
        model = dec.model if dec.verdict == "sat" else dec.ob_model
        r["candidates"].append({"signature": f"{PROP}:layout:{case['func']}", "case": case, "inputs": jsonable(model), "kind": "property",
                                "labels": dec.which[:4] + [f"{a}@{b}" for a, b in dec.failed_obligations[:3]]})
    return r


def replay_layout(case, conc):
    import pyarrow as pa
    N, G = case["N"], case["G"]
    loc = [conc[f"l{c}_"] for c in range(len(case["key_chunks"]))]
    ptr = [conc[f"p{c}_"] for c in range(len(case["key_chunks"]))]
    glob = [(-1 if x < 0 else p[x]) for l, p in zip(loc, ptr) for x in l]
    vals = np_values(to_float_cells(conc["v"]), "float64")
    parts = []
    p = 0
    for L in case["value_chunks"]:
        parts.append(pa.array(vals[p:p + L], from_pandas=False))
        p += L
    try:
        (r1, c1), = C3.real_gb(G, chunks=loc, pointers=ptr)._apply_gb_func_across_chunked_group_keys(case["func"], [pa.chunked_array(parts)], None)
        (r2, c2), = C3.real_gb(G, codes=glob)._apply_gb_func_across_chunked_group_keys(case["func"], [vals], None)
    except Exception as e:      # noqa: BLE001
        return True, f"real call raised {type(e).__name__}: {e}"
    bad = [g for g in range(G) if not approx_same(np_to_cells(r1)[g], np_to_cells(r2)[g])]
    return bool(bad), {"chunked": jsonable(np_to_cells(r1)), "contiguous": jsonable(np_to_cells(r2)), "differ_at": bad}


META = {
    "glue": ['groupby_lib/groupby/core.py::_apply_gb_func_across_chunked_group_keys', 'groupby_lib/groupby/core.py::_apply_gb_reduction', 'groupby_lib/groupby/core.py::_find_first_chunk_in_slice', 'groupby_lib/groupby/core.py::_group_sort_indexer', 'groupby_lib/groupby/core.py::_max_threads_for_numba', 'groupby_lib/groupby/core.py::_resolve_mask_argument_into_chunks', 'groupby_lib/groupby/core.py::_unify_for_positional_mask', 'groupby_lib/groupby/core.py::_unify_group_key_chunks', 'groupby_lib/groupby/core.py::count_ikey', 'groupby_lib/groupby/numba.py::_apply_cumulative', 'groupby_lib/groupby/numba.py::_apply_group_method_single_chunk', 'groupby_lib/groupby/numba.py::_apply_rolling', 'groupby_lib/groupby/numba.py::_build_target_for_groupby', 'groupby_lib/groupby/numba.py::_chunk_args_for_chunked_values', 'groupby_lib/groupby/numba.py::_chunk_args_for_unchunked_values', 'groupby_lib/groupby/numba.py::_chunk_groupby_args', 'groupby_lib/groupby/numba.py::_group_func_wrap', 'groupby_lib/groupby/numba.py::combine_chunk_results_for_factorized_key', 'groupby_lib/groupby/numba.py::cumcount', 'groupby_lib/groupby/numba.py::cummax', 'groupby_lib/groupby/numba.py::cummin', 'groupby_lib/groupby/numba.py::cumsum', 'groupby_lib/groupby/numba.py::group_count', 'groupby_lib/groupby/numba.py::group_mean', 'groupby_lib/groupby/numba.py::group_size', 'groupby_lib/groupby/numba.py::group_sum', 'groupby_lib/groupby/numba.py::rolling_diff', 'groupby_lib/groupby/numba.py::rolling_max', 'groupby_lib/groupby/numba.py::rolling_mean', 'groupby_lib/groupby/numba.py::rolling_min', 'groupby_lib/groupby/numba.py::rolling_shift', 'groupby_lib/groupby/numba.py::rolling_sum', 'groupby_lib/util.py::_cast_timestamps_to_ints', 'groupby_lib/util.py::_null_value_for_numpy_type', 'groupby_lib/util.py::array_split_with_chunk_handling', 'groupby_lib/util.py::check_data_inputs_aligned', 'groupby_lib/util.py::jit_is_null', 'groupby_lib/util.py::parallel_map'],
    "bounds": {"quick": {"N": 3, "G": 2, "dtypes": 12, "layouts": "N=4, 2 key chunks x 2 value chunks"},
               "thorough": {"N": 6, "G": 2, "dtypes": "every integer width, bool, float32/64, datetime64[s|ms|us|ns], timedelta64[s|ns]", "layouts": "N=5, 2 key chunks x <= 3 value chunks"}},
    "enumerated": ["dtype (width, signedness, time unit)", "operation", "thread count", "chunk layouts of keys and values"],
    "symbolic": ["group codes", "values over the whole range of the dtype (64-bit sums bounded so that they fit) and null flags", "mask bits"],
    "assumptions": ["result dtype read from the proxies, which carry real numpy dtype metadata through the real _build_target_for_groupby / _cast_timestamps_to_ints / astype / view code",
                    "bit-exactness: every store of an integer into a float array is a side obligation |v| <= 2^53 (float32: 2^24), decided by the solver",
                    "values: the declarative per-group / prefix / window specifications of C01/C08/C09"],
    "outside": ["normalisation of pandas/polars/pyarrow containers, timezone handling, Arrow null bitmaps (_val_to_numpy, to_arrow, _convert_timestamp_to_tz_unaware): "
                "C-extension behaviour; mutations confined to those functions are not expected to be caught", "wrap-around of sums beyond 64 bits"],
}

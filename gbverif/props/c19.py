"""C19 - operations never modify their inputs and results do not alias them (array level).
Every array handed to the code under test is tagged with its origin; every store carries its path guard.  For each sampled
configuration of every kernel family the solver decides, per store site, whether a store into caller-owned storage is
reachable (obligation 'input_write'), and the returned arrays are checked not to share storage with an input or with
GroupBy state."""
import time
import z3
from ..values import Unsupported, OutsideModel, conc_bool, b_and, b_not
from ..symarray import A, SymLen
from ..models import FakeSeries, FakeFrame, FakeChunked
from ..runtime import run_paths, current
from ..harness import Inputs, decide, jsonable
from . import reductions as R, cumulative as CU, rolling as RO, rowselect as RS, common
from . import c01, c03, c04, c07, c08, c09, c13, c15, c16
from . import assembly as ASM
from .common import MergedRT

PROP = "C19"


def cases(tier, seed):
    out = []
    step = 12 if tier == "quick" else 3
    for mod, tag in ((c01, "C01"), (c04, "C04"), (c08, "C08"), (c09, "C09"), (c15, "C15"), (c07, "C07"), (c13, "C13"), (c03, "C03"), (c16, "C16")):
        cs = [c for c in mod.cases("quick", seed) if not c.get("inductive") and c.get("kind") not in ("tmax", "ema", "strategy")]
        picked = cs[::step if len(cs) > 60 else max(1, step // 8)]
        if tag == "C16":
            # the user-function route is chosen by predicate, not by stride: what the callback is handed must not alias the caller's arrays
            first = {}
            for c in cs:
                if c.get("kind") == "apply" and not c.get("via"):
                    first.setdefault((c.get("ncols"), c.get("masked"), bool(c.get("transform"))), c)
            for c in cs:
                if c.get("comp") == "subset_ratio":          # two caller-owned masks are combined in the wrapper
                    first[("subset_ratio", c["name"])] = c
            picked = picked + [c for c in first.values() if not any(c is q for q in picked)]
        for c in picked:
            out.append({"src": tag, "case": c, "name": f"no input writes / no aliasing:{tag}:{c['name']}"})
    # the public reduction path: the returned Series/frame shares no buffer with inputs or with what the grouping retains
    asm = [c for c in ASM.cases(tier) if c["dtype"] == "float64"]
    if tier == "quick":
        asm = [c for c in asm if c["labels"] in (["a", "b"], ["b", "a"]) and (c["func"] in ("size", "sum", "count", "mean") or c.get("ncols") == 2)]
    for c in asm:
        out.append({"src": "ASM", "case": c, "name": f"result shares no buffer with inputs or retained state:{c['name']}"})
    return out


def _arrays(x, acc):
    if isinstance(x, A):
        acc.append(x)
    elif isinstance(x, SymLen):
        acc.append(x.arr)
    elif isinstance(x, FakeSeries):
        _arrays(x.arr, acc)
    elif isinstance(x, FakeFrame):
        for v in x.data.values():
            _arrays(v, acc)
    elif isinstance(x, FakeChunked):
        for ch in x.chunks:
            _arrays(ch, acc)
    elif isinstance(x, (list, tuple)):
        for y in x:
            _arrays(y, acc)


def run_case(E, case):
    t0 = time.time()
    src, c = case["src"], case["case"]
    if src == "ASM":
        r = ASM.run_case(E, c, PROP, mode="alias")
        for cand in r.get("candidates", []):
            cand["case"] = {"src": "ASM", "case": c}
        r.setdefault("witnesses", {})["public reduction path executed (alias mode)"] = True
        return r
    mod = {"C01": c01, "C04": c04, "C08": c08, "C09": c09, "C15": c15, "C07": c07, "C13": c13, "C03": c03, "C16": c16}[src]
    # run the property's own harness and keep only what C19 is about
    r = mod.run_case(E, c)
    writes = [fo for fo in r.get("failed_obligations", []) if fo[0] == "input_write"]
    res = {"verdict": "unsat" if r["verdict"] in ("unsat", "sat") else r["verdict"], "detail": r.get("detail", ""), "solver_s": r.get("solver_s", 0.0),
           "symex_s": time.time() - t0 - r.get("solver_s", 0.0), "n_queries": r.get("n_queries", 0), "obligations": r.get("obligations", 0),
           "failed_obligations": writes, "witnesses": {f"stores into fresh arrays only ({src} harness)": True}, "candidates": [], "encoded": r.get("encoded", [])}
    for cand in r.get("candidates", []):
        if any("aliases caller-owned storage" in str(l) for l in cand.get("labels", [])):
            if src == "C16":
                res["verdict"] = "sat"
                res["candidates"].append(dict(cand, signature=f"{PROP}:alias:{src}:" + cand["signature"].split(":", 1)[1], case={"src": src, "case": cand["case"]}))
                continue
            res["verdict"] = "sat"
            res["candidates"].append(dict(cand, signature=f"{PROP}:alias:{src}:" + cand["signature"].split(":", 1)[1], case={"src": src, "case": c}))
        if cand.get("kind") == "obligation" and any(str(l).startswith("input_write") for l in cand.get("labels", [])):
            res["verdict"] = "sat"
            res["candidates"].append(dict(cand, signature=f"{PROP}:input_write:{src}:" + cand["signature"].split(":", 1)[1], case={"src": src, "case": c}))
    return res


def replay(case, conc, cand=None):
    """run the real operation through the property's own replay with a spy on the library's array entry points: every numpy
    array argument is snapshotted before the call and compared afterwards, and results are tested for shared memory"""
    import numpy as np
    import groupby_lib.groupby.numba as rnb
    src, c = case["src"], case["case"]
    if src == "ASM":
        return ASM.replay_alias(c, conc, cand)
    mod = {"C01": c01, "C04": c04, "C08": c08, "C09": c09, "C15": c15, "C07": c07, "C13": c13, "C03": c03, "C16": c16}[src]
    names = [n for n in dir(rnb) if n.startswith(("group_", "cum", "rolling_", "find_", "_find_")) and callable(getattr(rnb, n))]
    problems = []
    saved = {}

    def wrap(name, fn):
        import functools

        @functools.wraps(fn)          # the library inspects the signatures of these functions
        def w(*a, **k):
            arrs = [x for x in list(a) + list(k.values()) if isinstance(x, np.ndarray)]
            before = [x.copy() for x in arrs]
            out = fn(*a, **k)
            for x, b0 in zip(arrs, before):
                same = np.array_equal(x.view("int64") if x.dtype.kind in "mM" else x, b0.view("int64") if b0.dtype.kind in "mM" else b0, equal_nan=x.dtype.kind == "f")
                if not same:
                    problems.append(f"{name} modified an input array")
            outs = out if isinstance(out, tuple) else (out,)
            for o in outs:
                if isinstance(o, np.ndarray):
                    for x in arrs:
                        if np.shares_memory(o, x):
                            problems.append(f"the result of {name} shares memory with an input")
            return out
        return w
    try:
        for n in names:
            saved[n] = getattr(rnb, n)
            setattr(rnb, n, wrap(n, saved[n]))
        try:
            r = mod.replay(c, conc, cand)
            if src == "C16" and r and r[0] and isinstance(r[1], dict):
                if "view of the caller" in str(r[1].get("problem", "")):
                    problems.append(r[1]["problem"])
                problems.extend(p_ for p_ in r[1].get("problems", []) if "modified the caller" in str(p_))
        except Exception as e:      # noqa: BLE001
            problems.append(f"replay raised {type(e).__name__}: {e}")
    finally:
        for n, f in saved.items():
            setattr(rnb, n, f)
    return bool(problems), {"problems": sorted(set(problems))[:6], "inputs": jsonable(conc)}


META = {
    "glue": ['groupby_lib/groupby/core.py::_apply_gb_func_across_chunked_group_keys', 'groupby_lib/groupby/core.py::_apply_gb_reduction', 'groupby_lib/groupby/core.py::_find_first_chunk_in_slice', 'groupby_lib/groupby/core.py::_group_sort_indexer', 'groupby_lib/groupby/core.py::_max_threads_for_numba', 'groupby_lib/groupby/core.py::_resolve_mask_argument_into_chunks', 'groupby_lib/groupby/core.py::_unify_for_positional_mask', 'groupby_lib/groupby/core.py::_unify_group_key_chunks', 'groupby_lib/groupby/core.py::count_ikey', 'groupby_lib/groupby/numba.py::_apply_cumulative', 'groupby_lib/groupby/numba.py::_apply_group_method_single_chunk', 'groupby_lib/groupby/numba.py::_apply_rolling', 'groupby_lib/groupby/numba.py::_build_target_for_groupby', 'groupby_lib/groupby/numba.py::_chunk_args_for_chunked_values', 'groupby_lib/groupby/numba.py::_chunk_args_for_unchunked_values', 'groupby_lib/groupby/numba.py::_chunk_groupby_args', 'groupby_lib/groupby/numba.py::_group_func_wrap', 'groupby_lib/groupby/numba.py::combine_chunk_results_for_factorized_key', 'groupby_lib/groupby/numba.py::cumcount', 'groupby_lib/groupby/numba.py::cummax', 'groupby_lib/groupby/numba.py::cummin', 'groupby_lib/groupby/numba.py::cumsum', 'groupby_lib/groupby/numba.py::group_count', 'groupby_lib/groupby/numba.py::group_mean', 'groupby_lib/groupby/numba.py::group_size', 'groupby_lib/groupby/numba.py::group_sum', 'groupby_lib/groupby/numba.py::rolling_diff', 'groupby_lib/groupby/numba.py::rolling_max', 'groupby_lib/groupby/numba.py::rolling_mean', 'groupby_lib/groupby/numba.py::rolling_min', 'groupby_lib/groupby/numba.py::rolling_shift', 'groupby_lib/groupby/numba.py::rolling_sum', 'groupby_lib/util.py::_cast_timestamps_to_ints', 'groupby_lib/util.py::_null_value_for_numpy_type', 'groupby_lib/util.py::array_split_with_chunk_handling', 'groupby_lib/util.py::check_data_inputs_aligned', 'groupby_lib/util.py::jit_is_null', 'groupby_lib/util.py::parallel_map'],
    "bounds": {"quick": {"configurations": "every 12th quick case of C01/C04, every case of the smaller harnesses (C03/C07/C08/C09/C13/C15), every C16 user-function route (chosen by predicate), and the public reduction path"},
               "thorough": {"configurations": "every 3rd quick case of the same harnesses"}},
    "enumerated": ["the sampled configurations (operation, dtype, mask kind, threads, chunk layouts, key representation)"],
    "symbolic": ["everything the sampled harness keeps symbolic (codes, values, null flags, masks, pointer tables)"],
    "assumptions": ["every input / state array is tagged at construction; views share the tag; a store whose target carries a tag is recorded with its "
                    "path guard and decided by the solver (unsat = no input write for any input within the bound)",
                    "the input-write obligation is also part of every other property's run (a write found there is reported there)",
                    "_unify_group_key_chunks is the only writer of GroupBy state: it rebinds attributes to fresh arrays (C13 checks that the row codes are preserved)"],
    "outside": ["zero-copy views created by pyarrow/pandas (to_numpy, copy=False frames)", "pandas objects handed out from caches (groups, key_count)",
                "aliasing between a returned pandas object and the inputs"],
}

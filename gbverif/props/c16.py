"""C16 (in part) - GroupBy.var/std equal the two-pass sample variance (polynomial identity, exact arithmetic) and
GroupBy.apply/median route each group's selected values, in row order, to the user function and its results to the
right label.  Rounding bounds, NumPy's quantile kernels, agg/ratio/density (pandas arithmetic) are outside."""
import itertools
import time
import numpy as real_np
import z3
from ..values import SF, Config, is_sym, conc_bool, b_and, b_or, b_not, ite, same, total, Unsupported, OutsideModel
from ..symarray import A
from ..models import FakeSeries, FakeFrame, FakeIndex
from ..runtime import run_paths, fresh_runtime, current
from ..harness import Inputs, decide, jsonable, to_float_cells, solve_exists
from .reductions import approx_same, np_to_cells
from .gbcore import make_gb, install_cuts
from .common import MergedRT, fix_nans

PROP = "C16"


def cases(tier, seed):
    out = []
    N, G = (4, 2) if tier == "quick" else (5, 2)
    seqs = list(itertools.product(range(-1, G), repeat=N))
    if tier == "quick":
        seqs = seqs[::3]
    for ddof in (0, 1):
        for f in ("var", "std"):
            for k, part in enumerate([seqs[i::4] for i in range(4)]):
                out.append({"kind": "var", "func": f, "ddof": ddof, "N": N, "G": G, "codes_list": [list(c) for c in part],
                            "name": f"GroupBy.{f}(ddof={ddof})/N={N},G={G}/{len(part)} code sequences x all null patterns (part {k})"})
    # integer values of any magnitude: the result is a float variance, so no intermediate 64-bit integer product or sum may overflow
    # (groups of 0 or >= 2 rows so that every group's variance is defined; small sizes: the mixed integer/real polynomial identities are
    # expensive for the solver - measured 60 s for one 2+2 sequence - and the overflow does not need more than two rows)
    for Ni, Gi, iseqs in ((2, 1, [[0, 0]]), (3, 1, [[0, 0, -1]])) if tier == "quick" else ((2, 1, [[0, 0]]), (3, 1, [[0, 0, -1], [0, 0, 0]])):
        for f in ("var", "std"):
            if f == "std":
                iseqs = [c for c in iseqs if sum(1 for x in c if x >= 0) <= 2]      # sqrt over three integer values came back `unknown` (measured)
                if not iseqs:
                    continue
            out.append({"kind": "var", "func": f, "ddof": 1, "N": Ni, "G": Gi, "dtype": "int64", "codes_list": [list(c) for c in iseqs],
                        "name": f"GroupBy.{f}(ddof=1) of int64 values of any magnitude/N={Ni},G={Gi}/{len(iseqs)} code sequences"})
    # var/std with transform=True through the REAL _apply_gb_reduction(transform=True): every row gets its group's variance
    tseqs = seqs[::4] if tier == "quick" else seqs[::2]
    for f in ("var", "std"):
        out.append({"kind": "var", "func": f, "ddof": 1, "N": N, "G": G, "transform": True, "codes_list": [list(c) for c in tseqs],
                    "name": f"GroupBy.{f}(ddof=1, transform=True)/N={N},G={G}/{len(tseqs)} code sequences x all null patterns"})
    Na = 4 if tier == "quick" else 5
    aseqs = list(itertools.product(range(-1, 3), repeat=Na))
    for ncols in (1, 2):
        for masked in (False, True):
            for k, part in enumerate([aseqs[i::4] for i in range(4)]):
                out.append({"kind": "apply", "N": Na, "G": 3, "ncols": ncols, "masked": masked, "codes_list": [list(c) for c in part],
                            "name": f"GroupBy.apply(user function)/N={Na},G=3/value columns={ncols}/mask={masked}/{len(part)} code sequences (part {k})"})
    # median / quantile: the real GroupBy.median / GroupBy.quantile, with np.median / np.quantile as uninterpreted functions of the
    # values they are handed (NumPy's own functions are the specification: what is checked is WHAT they are called on)
    for masked in (False, True):
        for k, part in enumerate([aseqs[i::2] for i in range(2)]):
            out.append({"kind": "apply", "N": Na, "G": 3, "ncols": 1, "masked": masked, "via": "median", "codes_list": [list(c) for c in part],
                        "name": f"GroupBy.median/N={Na},G=3/mask={masked}/{len(part)} code sequences (part {k})"})
            out.append({"kind": "apply_vec", "N": Na, "G": 3, "ret": "fixed2", "masked": masked, "via": "quantile", "q": [0.25, 0.75], "codes_list": [list(c) for c in part],
                        "name": f"GroupBy.quantile(q=[0.25, 0.75])/N={Na},G=3/mask={masked}/{len(part)} code sequences (part {k})"})
    for order in ([2, 0, 1],):
        for k, part in enumerate([aseqs[i::2] for i in range(2)]):
            out.append({"kind": "apply", "N": Na, "G": 3, "ncols": 1, "masked": True, "transform": True, "label_order": order, "via": "median", "codes_list": [list(c) for c in part],
                        "name": f"GroupBy.median(transform=True)/N={Na},G=3/label order {order}/mask=True/{len(part)} code sequences (part {k})"})
    # composite helpers on the public reduction path (labelled pandas contract model, as in C01's assembly family)
    for labels, st in (([0, 1], "categorical"), ([1, 0], "appearance"), (["b", "a"], "appearance")):
        for mk in ("none", "bool_sym"):
            for comp in ("agg_list", "ratio", "density", "density_size", "margin_sum", "margin_mean") + (("subset_ratio",) if mk == "bool_sym" else ()):
                c = {"kind": "composite", "comp": comp, "N": 3, "G": 2, "labels": labels, "state": st, "mask": {"kind": mk}, "dtype": "float64", "func": "sum",
                     "observed_only": True}
                c["name"] = f"GroupBy.{comp}/N=3,G=2/labels={labels}({st})/mask={mk}"
                out.append(c)
    # vector-valued user functions: input-aligned (one value per row of the group) or fixed length; values AND the kind of index chosen
    for ret in ("aligned", "fixed1", "fixed2"):
        for masked in (False, True):
            for k, part in enumerate([aseqs[i::2] for i in range(2)]):
                out.append({"kind": "apply_vec", "N": Na, "G": 3, "ret": ret, "masked": masked, "codes_list": [list(c) for c in part],
                            "name": f"GroupBy.apply(vector function: {ret})/N={Na},G=3/mask={masked}/{len(part)} code sequences (part {k})"})
    # transform=True: every row receives its own group's result (labels in any order, unobserved labels, null keys)
    for order in ([0, 1, 2], [2, 0, 1], [1, 2, 0]):
        for masked in (False, True):
            for k, part in enumerate([aseqs[i::2] for i in range(2)]):
                out.append({"kind": "apply", "N": Na, "G": 3, "ncols": 1, "masked": masked, "transform": True, "label_order": order, "codes_list": [list(c) for c in part],
                            "name": f"GroupBy.apply(user function, transform=True)/N={Na},G=3/label order {order}/mask={masked}/{len(part)} code sequences (part {k})"})
    return out


def run_case(E, case):
    if case["kind"] == "var":
        return run_var(E, case)
    if case["kind"] == "apply_vec":
        return run_apply_vec(E, case)
    if case["kind"] == "composite":
        return run_composite(E, case)
    return run_apply(E, case)


def _blank():
    return {"verdict": "unsat", "solver_s": 0.0, "symex_s": 0.0, "n_queries": 0, "obligations": 0, "failed_obligations": [],
            "witnesses": {}, "candidates": [], "subcases": 0}


# ------------------------------------------------------------------ var / std
def run_var(E, case):
    t0 = time.time()
    N, G, ddof, f = case["N"], case["G"], case["ddof"], case["func"]
    GB = install_cuts(E)
    res = _blank()
    old = (Config.sq_uninterpreted, Config.div_uninterpreted)
    Config.sq_uninterpreted = False
    Config.div_uninterpreted = False
    saved = GB._apply_gb_reduction

    def kernel_level_reduction(self, func_name, values=None, mask=None, transform=False, margins=False, observed_only=True):
        """cut: the pandas assembly of _apply_gb_reduction is replaced by the kernel path it wraps (per-group arrays as a Series)"""
        vals = values if isinstance(values, A) else values.arr
        ff = "sum" if func_name == "mean" else func_name
        (r, c), = self._apply_gb_func_across_chunked_group_keys(ff, [vals], mask)
        n = len(self.result_index)
        if func_name in ("count", "size"):
            return FakeSeries(c[:n], self.result_index)
        return FakeSeries(r[:n], self.result_index)
    try:
        if not case.get("transform"):
            GB._apply_gb_reduction = kernel_level_reduction
        for codes in case["codes_list"]:
            members = {g: [i for i in range(N) if codes[i] == g] for g in range(G)}
            is_int = case.get("dtype") == "int64"
            for nulls in (itertools.product([False, True], repeat=N) if not is_int else [tuple([False] * N)]):
                if any(nulls[i] and codes[i] < 0 for i in range(N)):
                    continue
                inp = Inputs()
                if is_int:
                    vs = inp.ints("x", N, -2**40, 2**40)          # sums stay inside 64 bits, squares need not
                    for a_ in range(N):
                        for b_ in range(a_ + 1, N):
                            inp.pre.append(vs[a_] != vs[b_])     # distinct values: a wrapped intermediate then shows in the result (replayable)
                    xs = list(vs)
                else:
                    vs = inp.floats("x", N, nullable=False)
                    xs = [float("nan") if nulls[i] else vs[i] for i in range(N)]
                inp.vars["k"] = ("const", list(codes), "int64")
                inp.vars["nulls"] = ("const", [int(b) for b in nulls], "int64")
                rt = fresh_runtime()
                rt.check_int_overflow = is_int
                gb = make_gb(E, G, codes=A(list(codes), "int64"))
                vals = A(xs, "int64" if is_int else "float64").tag("input:values")
                if case.get("transform"):
                    out = getattr(gb, f)(vals, ddof=ddof, transform=True)
                else:
                    out = getattr(gb, f)(vals, ddof=ddof)
                out = out.arr if isinstance(out, FakeSeries) else out
                bl = []
                if case.get("transform") and len(out.cells) != N:
                    bl.append((f"transform result has {len(out.cells)} rows", True))
                    dec = decide(inp, bl, rt, timeout_ms=60_000)
                    _merge(res, dec, case, {"codes": list(codes), "nulls": [bool(b) for b in nulls]}, f"{f}:transform")
                    continue
                targets = [(g, g) for g in range(G)] if not case.get("transform") else [(i, codes[i]) for i in range(N)]
                for pos, g in targets:
                    if g < 0:
                        bl.append((f"{f}: row {pos} with a null key gets null", b_not(SF.of(out.cells[pos]).nan)))
                        continue
                    valid = [SF.of(vs[i]) for i in members[g] if not nulls[i]]
                    n = len(valid)
                    r = SF.of(out.cells[pos])
                    if n - ddof <= 0:
                        bl.append((f"{f}[g={g}] null with {n} value(s)", b_not(r.nan)))
                        continue
                    mean = total(valid) / SF.of(float(n))
                    tp = total([(v - mean) * (v - mean) for v in valid]) / SF.of(float(n - ddof))
                    if f == "var":
                        bl.append((f"var[g={g}] == two-pass variance", b_not(same(r, tp))))
                    else:
                        bl.append((f"std[g={g}]^2 == two-pass variance, std >= 0", b_not(b_and(same(r * r, tp), b_or(r.nan, r.v >= 0)))))
                dec = decide(inp, bl, rt, timeout_ms=60_000)
                _merge(res, dec, case, {"codes": list(codes), "nulls": [bool(b) for b in nulls]}, f"{f}:ddof={ddof}" + (":transform" if case.get("transform") else ""))
    finally:
        GB._apply_gb_reduction = saved
        Config.sq_uninterpreted, Config.div_uninterpreted = old
    res["symex_s"] = time.time() - t0 - res["solver_s"]
    res["encoded"] = sorted(E.encoded) + ["groupby_lib/groupby/core.py::var", "groupby_lib/groupby/core.py::std"]
    res["witnesses"] = {f"{res['subcases']} (code sequence, null pattern) pairs decided": True}
    return res


def _merge(res, dec, case, extra, sig):
    res["subcases"] += 1
    res["solver_s"] += dec.solver_s
    res["n_queries"] += dec.n_queries
    res["obligations"] += dec.obligations
    if dec.verdict == "unknown" and res["verdict"] != "sat":
        res["verdict"] = "unknown"
        res["detail"] = f"unknown at {extra}"
    if dec.verdict == "sat" or dec.failed_obligations:
        res["verdict"] = "sat"
        model = dec.model if dec.verdict == "sat" else dec.ob_model
        if len(res["candidates"]) < 4:
            res["candidates"].append({"signature": f"{PROP}:{sig}", "case": dict({k: v for k, v in case.items() if k != "codes_list"}, **extra),
                                      "inputs": jsonable(model), "kind": "property",
                                      "labels": dec.which[:4] + [f"{a}@{b}" for a, b in dec.failed_obligations[:3]]})


# ------------------------------------------------------------------ apply routing with an uninterpreted user function
def run_apply(E, case):
    t0 = time.time()
    N, G, ncols, masked = case["N"], case["G"], case["ncols"], case["masked"]
    GB = install_cuts(E)
    res = _blank()
    F = z3.Function("user_func", z3.IntSort(), *([z3.RealSort()] * N), z3.RealSort())

    aliased = []

    def user(sub):
        if isinstance(sub, A) and sub.st.origin is not None:
            aliased.append(sub.st.origin)          # the callback was handed a view of caller-owned storage
        cells = sub.cells if isinstance(sub, A) else list(sub)
        args = [c.v if isinstance(c, SF) else z3.RealVal(c) for c in cells] + [z3.RealVal(0)] * (N - len(cells))
        return SF(False, F(z3.IntVal(len(cells)), *args))
    for codes in case["codes_list"]:
        masks = [None] if not masked else [m for m in itertools.product([True, False], repeat=N)][1::5]
        for mbits in masks:
            inp = Inputs()
            cols = [inp.floats(f"v{c}_", N, nullable=False) for c in range(ncols)]
            inp.vars["k"] = ("const", list(codes), "int64")
            if mbits is not None:
                inp.vars["mask"] = ("const", [int(b) for b in mbits], "int64")
            rt = fresh_runtime()
            rt.size_hints = [sum(1 for c in codes if c >= 0)]
            gb = make_gb(E, G, codes=A(list(codes), "int64"))
            order = case.get("label_order")
            if order is not None and order != sorted(order):
                gb.__dict__["_labels_argsort"] = A(list(order), "int64")
                gb._sort = True
                gb._index_is_sorted = False
            vals = [A(c, "float64").tag("input:values") for c in cols]
            mask = A(list(mbits), "bool").tag("input:mask") if mbits is not None else None
            extra = {"codes": list(codes), "mask": list(mbits) if mbits is not None else None}
            del aliased[:]
            try:
                if case.get("via") == "median":
                    npshim = E["core"]["np"]
                    npshim.median = user               # instance attribute shadows the model for this call only
                    try:
                        out = gb.median(vals[0], mask, bool(case.get("transform")))
                    finally:
                        del npshim.median
                else:
                    out = gb.apply(vals if ncols > 1 else vals[0], user, mask, bool(case.get("transform")))
            except (Unsupported, OutsideModel):
                raise
            except Exception as e:      # noqa: BLE001
                res["verdict"] = "sat"
                res["subcases"] += 1
                if len(res["candidates"]) < 4:
                    res["candidates"].append({"signature": f"{PROP}:raises:{type(e).__name__}:apply:cols={ncols}",
                                              "case": dict({k: v for k, v in case.items() if k != "codes_list"}, **extra),
                                              "inputs": {f"v{c}_": [float(i + 1 + 10 * c) for i in range(N)] for c in range(ncols)}, "kind": "raises",
                                              "labels": [f"{type(e).__name__}: {str(e)[:150]}"]})
                continue
            series = [out[c] for c in out.columns] if isinstance(out, FakeFrame) else [out]
            sel = [codes[i] >= 0 and (mbits is None or mbits[i]) for i in range(N)]
            groups = [g for g in (order or range(G)) if any(sel[i] and codes[i] == g for i in range(N))]
            bl = []
            if aliased and case.get("via") != "median":          # np.median is not user code and does not write
                bl.append(("the user function is handed an array that aliases caller-owned storage (C19)", True))
            if case.get("transform"):
                arr = series[0].arr if isinstance(series[0], FakeSeries) else series[0]
                cells = arr.cells if isinstance(arr, A) else [x for x in real_np.asarray(arr, dtype=object).ravel()]
                if len(cells) != N:
                    bl.append((f"transform result has {len(cells)} rows, not {N}", True))
                else:
                    for i in range(N):
                        g = codes[i]
                        r = SF.of(cells[i])
                        if g < 0 or g not in groups:
                            bl.append((f"row {i} (null key / group without a selected row) gets null", b_not(r.nan)))
                        else:
                            mem = [cols[0][j] for j in range(N) if sel[j] and codes[j] == g]
                            bl.append((f"row {i} gets func(values of its group)", b_not(same(r, user(A(mem, "float64"))))))
                dec = decide(inp, bl, rt)
                _merge(res, dec, case, extra, f"apply:transform:mask={masked}")
                continue
            if len(series) != ncols:
                bl.append(("one result column per value column", True))
            for c, s in enumerate(series[:ncols]):
                arr = s.arr if isinstance(s, FakeSeries) else s
                cells = arr.cells if isinstance(arr, A) else [x for x in real_np.asarray(arr, dtype=object).ravel()]
                if len(cells) != len(groups):
                    bl.append((f"column {c}: one result per observed group ({len(cells)} != {len(groups)})", True))
                    continue
                for pos, g in enumerate(groups):
                    mem = [cols[c][i] for i in range(N) if sel[i] and codes[i] == g]
                    exp = user(A(mem, "float64"))
                    bl.append((f"column {c}, group {g}: func(values of the group in row order)", b_not(same(SF.of(cells[pos]), exp))))
            dec = decide(inp, bl, rt)
            _merge(res, dec, case, extra, f"apply:cols={ncols}:mask={masked}")
    res["symex_s"] = time.time() - t0 - res["solver_s"]
    res["encoded"] = sorted(E.encoded) + ["groupby_lib/groupby/core.py::apply"]
    res["witnesses"] = {f"{res['subcases']} (code sequence, mask) pairs decided": True}
    return res


# ------------------------------------------------------------------ composite helpers: agg list, ratio, density
def run_composite(E, case, prop=None):
    """agg([f1, f2]) == the individual calls side by side; ratio == sum / sum; single-key density == 100 * group share (adds up to 100).
    The real methods (agg, ratio, density, sum, size, max, _apply_gb_reduction with margins, add_row_margin for one level) run on a
    directly constructed state and the labelled pandas contract model; the observed-label filter forks."""
    from . import assembly as ASM
    from . import reductions as R
    from ..runtime import run_paths, _model_gap
    from ..symarray import fdiv
    from ..values import total
    t0 = time.time()
    comp, N, G, labels = case["comp"], case["N"], case["G"], case["labels"]
    prop = prop or PROP
    mfunc = comp.split("_", 1)[1] if comp.startswith("margin_") else None
    inp = Inputs()
    d = R.build(dict(case, func=mfunc) if mfunc else case, inp)
    inp.pre.extend(ASM.state_invariant(case, d["codes"]))
    dt = real_np.dtype("float64")
    if comp == "ratio":
        # documented precondition of ratio: both inputs null at the same rows
        w = inp.values("w", N, dt, sum_safe=True)
        d["values2"] = [SF(v.nan, x.v) if isinstance(v, SF) else x for v, x in zip(d["values"], w)]
    if comp == "subset_ratio":
        d["gmask"] = inp.bools("g", N)          # the global mask; d["mask"] is the subset mask
    merged = MergedRT()

    def body():
        gb = ASM._state(E, case, d)
        arrs = R.shadow_arrays(case, d)
        try:
            if comp == "subset_ratio":
                return "ok", gb.subset_ratio(arrs["values"], arrs["mask"], A(list(d["gmask"]), "bool").tag("input:mask"))
            if comp == "agg_list":
                return "ok", gb.agg(arrs["values"], ["sum", "max"], mask=arrs["mask"])
            if comp == "ratio":
                return "ok", gb.ratio(arrs["values"], A(d["values2"], dt).tag("input:values"), mask=arrs["mask"])
            if comp == "density":
                return "ok", gb.density(arrs["values"], mask=arrs["mask"])
            if mfunc == "size":
                return "ok", gb.size(mask=arrs["mask"], margins=True)
            if mfunc:
                return "ok", getattr(gb, mfunc)(arrs["values"], mask=arrs["mask"], margins=True)
            return "ok", gb.density(mask=arrs["mask"])
        except (Unsupported, OutsideModel):
            raise
        except Exception as e:      # noqa: BLE001
            gap = _model_gap(e)
            if gap:
                raise Unsupported("model gap: " + gap) from e
            return "raised", f"{type(e).__name__}: {e}"
    paths = run_paths(body)
    rows = R.selected_rows(case, d)
    bads = []
    member = [[b_and(s_, c == g) for c, v, s_ in rows] for g in range(G)]
    observed = [b_or(*member[g]) for g in range(G)]
    from .reductions import is_null_val, num

    def gsum(vals, g, size=False):
        if size:
            return total([ite(m, 1, 0) for m in member[g]], 0)
        return total([ite(b_and(m, b_not(is_null_val(v, dt))), num(v), 0) for m, v in zip(member[g], vals)], 0)
    for pc, (status, out), rt in paths:
        pcz = b_and(*pc) if pc else True
        for kind, g_, c_, where in rt.obligations:
            merged.obligations.append((kind, b_and(pcz, g_), c_, where))
        merged.pre.extend(rt.pre)
        if status == "raised":
            bads.append((f"raises {out[:120]}", pcz))
            continue
        if comp == "subset_ratio":
            # not among C16's composites: what is decided here is C19's part (no input is written: obligations) and, for groups with a row
            # in the subset, subset total / global total
            if not isinstance(out, FakeSeries):
                bads.append((f"a Series was expected, got {type(out).__name__}", pcz))
                continue
            got = list(out.index.labels)
            for g in range(G):
                both = [b_and(s_, c == g, d["gmask"][i]) for i, (c, v, s_) in enumerate(rows)]
                glob = [b_and(c == g, d["gmask"][i]) for i, (c, v, s_) in enumerate(rows)]
                pos = [i for i, lab in enumerate(got) if lab == labels[g] and type(lab) is type(labels[g])]
                if not pos:
                    bads.append((f"subset_ratio: label {labels[g]!r} missing although a row of the subset carries it", b_and(pcz, b_or(*both))))
                    continue
                num_ = total([ite(b_and(m, b_not(is_null_val(v, dt))), num(v), 0) for m, (c, v, s_) in zip(both, rows)], 0)
                den_ = total([ite(b_and(m, b_not(is_null_val(v, dt))), num(v), 0) for m, (c, v, s_) in zip(glob, rows)], 0)
                bads.append((f"subset_ratio[{labels[g]!r}] == subset total / global total",
                             b_and(pcz, b_or(*both), b_not(R.approx_same(out.arr.cells[pos[0]], fdiv(num_, den_))))))
            continue
        if comp == "agg_list":
            if not isinstance(out, FakeFrame) or list(out.columns) != ["sum", "max"]:
                bads.append((f"agg list must give one column per aggregation, got {getattr(out, 'columns', type(out).__name__)}", pcz))
                continue
            series = {"sum": out["sum"], "max": out["max"]}
        else:
            if not isinstance(out, FakeSeries):
                bads.append((f"a Series was expected, got {type(out).__name__}", pcz))
                continue
            series = {comp: out}
        for name, ser in series.items():
            got = list(ser.index.labels)
            cells = ser.arr.cells
            for g in range(G):
                pos = [i for i, lab in enumerate(got) if lab == labels[g] and type(lab) is type(labels[g])]
                if len(pos) > 1:
                    bads.append((f"{name}: label {labels[g]!r} listed twice", pcz))
                    continue
                if not pos:
                    bads.append((f"{name}: label {labels[g]!r} missing although a selected row carries it", b_and(pcz, observed[g])))
                    continue
                bads.append((f"{name}: label {labels[g]!r} listed although no selected row carries it", b_and(pcz, b_not(observed[g]))))
                r = cells[pos[0]]
                if name in ("sum", "max"):
                    sub = dict(case, func=name)
                    res = [0] * G
                    res[g] = r
                    for lab, cond in R.spec_bads(sub, d, res, None):
                        if f"[g={g}]" in lab:
                            bads.append((f"agg list column {lab} equals the individual call", b_and(pcz, cond)))
                elif name.startswith("margin_"):
                    sub = dict(case, func=name.split("_")[1])
                    res = [0] * G
                    res[g] = r
                    for lab, cond in R.spec_bads(sub, d, res, None):
                        if f"[g={g}]" in lab:
                            bads.append((f"{name}: ordinary row {lab} unchanged by the margin", b_and(pcz, cond)))
                elif name == "ratio":
                    exp = fdiv(gsum(d["values"], g), gsum(d["values2"], g))
                    bads.append((f"ratio[{labels[g]!r}] == sum(values1) / sum(values2)", b_and(pcz, b_not(R.approx_same(r, exp)))))
                else:
                    size = name == "density_size"
                    vals = d.get("values")
                    tot = total([gsum(vals, h, size) for h in range(G)], 0)
                    exp = fdiv(100 * gsum(vals, g, size), tot)
                    bads.append((f"density[{labels[g]!r}] == 100 * group total / grand total", b_and(pcz, b_not(R.approx_same(r, exp)))))
            extra = [lab for lab in got if not any(lab == l2 and type(lab) is type(l2) for l2 in labels)]
            if name.startswith("margin_"):
                # the single-key margin: one extra row 'All' = the same aggregation over ALL selected rows of all groups
                # (mean: total sum / total count, not a mean of means; min/max: the extremes)
                if extra != ["All"]:
                    bads.append((f"{name}: exactly one margin row 'All' expected, extra labels {extra!r}", pcz))
                else:
                    r_all = cells[got.index("All")]
                    one = dict(case, func=mfunc, G=1)
                    allcodes = [ite(c >= 0, 0, -1) if is_sym(c) else (0 if c >= 0 else -1) for c in d["codes"]]
                    for lab, cond in R.spec_bads(one, dict(d, codes=allcodes), [r_all], None):
                        bads.append((f"{name}: the 'All' row equals the aggregation over all selected rows ({lab})", b_and(pcz, cond)))
                extra = []
            if extra:
                bads.append((f"{name}: unexpected labels {extra!r}", pcz))
    dec = decide(inp, bads, merged)
    r = {"verdict": dec.verdict, "solver_s": dec.solver_s, "symex_s": time.time() - t0 - dec.solver_s, "n_queries": dec.n_queries,
         "obligations": dec.obligations, "failed_obligations": dec.failed_obligations, "witnesses": dec.witnesses, "candidates": [],
         "encoded": sorted(E.encoded), "paths": len(paths)}
    if dec.verdict == "sat":
        r["candidates"].append({"signature": f"{prop}:composite:{comp}:{case['state']}:mask={case['mask']['kind'] != 'none'}", "case": case,
                                "inputs": jsonable(dec.model), "kind": "property", "labels": dec.which[:4]})
    if dec.failed_obligations:
        r["verdict"] = "sat"
        r["candidates"].append({"signature": f"{prop}:obligation:composite:{comp}", "case": case, "inputs": jsonable(dec.ob_model), "kind": "obligation",
                                "labels": [f"{a}@{b}" for a, b in dec.failed_obligations[:4]]})
    return r


def _py_reduce(func, xs):
    ok = [float(x) for x in xs if x == x]
    if func == "size":
        return float(len(xs))
    if func == "count":
        return float(len(ok))
    if func == "sum":
        return float(sum(ok))
    if not ok:
        return float("nan")
    return {"mean": sum(ok) / len(ok), "min": min(ok), "max": max(ok)}[func]


def replay_composite(case, conc):
    import pandas as pd
    from groupby_lib import GroupBy
    from . import reductions as R
    from ..harness import to_float_cells
    conc = fix_nans(conc)
    comp, N, G, labels = case["comp"], case["N"], case["G"], case["labels"]
    codes = [int(x) for x in conc["k"]]
    v = R.np_values(to_float_cells(conc["v"]), "float64") if "v" in conc else real_np.zeros(N)
    mask = real_np.array(conc["m"], dtype=bool) if "m" in conc else None
    if case["state"] == "categorical":
        keys = pd.Categorical.from_codes(codes, categories=labels)
    elif all(isinstance(x, (int, float)) for x in labels):
        keys = real_np.array([float(labels[c]) if c >= 0 else float("nan") for c in codes])
    else:
        keys = real_np.array([labels[c] if c >= 0 else None for c in codes], dtype=object)
    sel = [codes[i] >= 0 and (mask is None or mask[i]) for i in range(N)]
    problems = []
    try:
        gb = GroupBy(keys)
        if comp == "agg_list":
            out = gb.agg(v, ["sum", "max"], mask=mask)
            ref = {"sum": gb.sum(v, mask=mask), "max": gb.max(v, mask=mask)}
            for name in ("sum", "max"):
                a, b = out[name], ref[name]
                if list(a.index) != list(b.index) or not real_np.array_equal(real_np.asarray(a, float), real_np.asarray(b, float), equal_nan=True):
                    problems.append(f"agg list column {name}: {a.to_dict()} != individual call {b.to_dict()}")
        else:
            if comp == "subset_ratio":
                gm = real_np.array(conc["g"], dtype=bool)
                keep = [x.copy() for x in (v, mask, gm)]
                out = gb.subset_ratio(v, mask, gm)
                for nm, a, b in zip(("values", "subset_mask", "global_mask"), (v, mask, gm), keep):
                    if not real_np.array_equal(a, b, equal_nan=a.dtype.kind == "f"):
                        problems.append(f"subset_ratio modified the caller's {nm}: {b.tolist()} -> {a.tolist()}")
                for g in range(G):
                    rows = [i for i in range(N) if codes[i] == g and keep[1][i] and gm[i]]
                    grow = [i for i in range(N) if codes[i] == g and gm[i]]
                    if rows:
                        den = float(real_np.nansum(v[grow]))
                        if den != 0 and (labels[g] not in out.index or not approx_same(float(out.loc[labels[g]]), float(real_np.nansum(v[rows])) / den)):
                            problems.append(f"subset_ratio[{labels[g]!r}] = {out.get(labels[g])!r}")
                return bool(problems), {"problems": problems[:5], "codes": codes, "labels": labels, "inputs": jsonable(conc)}
            if comp == "ratio":
                w = R.np_values(to_float_cells(conc["w"]), "float64")
                w = real_np.where(real_np.isnan(v), real_np.nan, w)
                out = gb.ratio(v, w, mask=mask)
            elif comp == "density":
                out = gb.density(v, mask=mask)
            elif comp.startswith("margin_"):
                mf = comp.split("_", 1)[1]
                out = gb.size(mask=mask, margins=True) if mf == "size" else getattr(gb, mf)(v, mask=mask, margins=True)
                allsel = [i for i in range(N) if sel[i]]
                exp_all = _py_reduce(mf, [v[i] for i in allsel] if mf != "size" else allsel)
                if "All" not in out.index or not approx_same(float(out.loc["All"]), exp_all):
                    problems.append(f"'All' row {out.get('All')!r}, expected {exp_all!r}")
            else:
                out = gb.density(mask=mask)
            for g in range(G):
                rows = [i for i in range(N) if sel[i] and codes[i] == g]
                listed = [lab for lab in out.index if lab == labels[g]]
                if bool(rows) != bool(listed):
                    problems.append(f"label {labels[g]!r}: listed={bool(listed)} but it has {len(rows)} selected row(s)")
                    continue
                if not rows:
                    continue
                got = float(out.loc[listed[0]])
                if comp.startswith("margin_"):
                    mf = comp.split("_", 1)[1]
                    exp = _py_reduce(mf, [v[i] for i in rows] if mf != "size" else rows)
                elif comp == "ratio":
                    exp = float(real_np.nansum(v[rows])) / float(real_np.nansum(w[rows])) if float(real_np.nansum(w[rows])) != 0 else None
                elif comp == "density":
                    tot = float(real_np.nansum(v[[i for i in range(N) if sel[i]]]))
                    exp = 100 * float(real_np.nansum(v[rows])) / tot if tot != 0 else None
                else:
                    exp = 100 * len(rows) / sum(sel)
                if exp is not None and not approx_same(got, exp):
                    problems.append(f"{comp}[{labels[g]!r}] = {got!r}, expected {exp!r}")
    except Exception as e:      # noqa: BLE001
        problems.append(f"real call raised {type(e).__name__}: {e}")
    return bool(problems), {"problems": problems[:5], "codes": codes, "labels": labels, "inputs": jsonable(conc)}


# ------------------------------------------------------------------ apply with vector-valued user functions
class _MarkIndex(FakeIndex):
    def __init__(self, n, kind):
        FakeIndex.__init__(self, n)
        self.kind = kind
        self.names = [None, None]

    def set_levels(self, levels, level=None, **kw):
        self.levels_set = list(levels)
        return self


def run_apply_vec(E, case):
    """GroupBy.apply with a user function returning a vector: the concatenated values, and which index the library decides to
    build - (group, original row) for input-aligned functions, (group, 0..k-1) for fixed-length ones; the decision runs the real
    util.check_if_func_is_non_reduce probe on the uninterpreted function.  Cuts: the two pandas index builders return markers."""
    from ..models import LIndex
    t0 = time.time()
    N, G, masked, ret = case["N"], case["G"], case["masked"], case["ret"]
    GB = install_cuts(E)
    core = E["core"]
    res = _blank()
    F = z3.Function("user_vec", z3.IntSort(), z3.IntSort(), *([z3.RealSort()] * N), z3.RealSort())
    k_fixed = {"aligned": None, "fixed1": 1, "fixed2": 2}[ret]

    def user(sub):
        cells = sub.cells if isinstance(sub, A) else list(sub)
        args = [c.v if isinstance(c, SF) else z3.RealVal(c) for c in cells] + [z3.RealVal(0)] * (N - len(cells))
        if len(args) > N:
            args = args[:N]                  # the probe may hand a tiled input; only its length matters for the decision
        n_out = len(cells) if k_fixed is None else k_fixed
        return A([SF(False, F(z3.IntVal(j), z3.IntVal(len(cells)), *args)) for j in range(n_out)], "float64")
    saved_expand = core["expand_index_to_new_level"]
    saved_gsi = GB._build_group_sorted_index
    core["expand_index_to_new_level"] = lambda index, new_level: _MarkIndex(len(index) * len(new_level), "fixed")
    GB._build_group_sorted_index = lambda self, inner_index=None: _MarkIndex(len(self), "group_sorted")
    try:
        for codes in case["codes_list"]:
            masks = [None] if not masked else [m for m in itertools.product([True, False], repeat=N)][1::3]
            for mbits in masks:
                inp = Inputs()
                col = inp.floats("v0_", N, nullable=False)
                inp.vars["k"] = ("const", list(codes), "int64")
                if mbits is not None:
                    inp.vars["mask"] = ("const", [int(b) for b in mbits], "int64")
                rt = fresh_runtime()
                rt.size_hints = [sum(1 for c in codes if c >= 0)]
                gb = make_gb(E, G, codes=A(list(codes), "int64"))
                gb._result_index = LIndex(list(range(G)), "key")
                vals = A(col, "float64").tag("input:values")
                mask = A(list(mbits), "bool").tag("input:mask") if mbits is not None else None
                extra = {"codes": list(codes), "mask": list(mbits) if mbits is not None else None}
                sel = [codes[i] >= 0 and (mbits is None or mbits[i]) for i in range(N)]
                groups = [g for g in range(G) if any(sel[i] and codes[i] == g for i in range(N))]
                try:
                    if case.get("via") == "quantile":
                        npshim = E["core"]["np"]
                        npshim.quantile = lambda a, q=None: user(a)
                        try:
                            out = gb.quantile(vals, case["q"], mask)
                        finally:
                            del npshim.quantile
                    else:
                        out = gb.apply(vals, user, mask)
                except (Unsupported, OutsideModel):
                    raise
                except Exception as e:      # noqa: BLE001
                    from ..runtime import _model_gap
                    if not groups:
                        continue             # nothing selected: whatever happens is outside the statement
                    if _model_gap(e):
                        raise Unsupported("model gap: " + _model_gap(e)) from e
                    res["verdict"] = "sat"
                    res["subcases"] += 1
                    if len(res["candidates"]) < 4:
                        res["candidates"].append({"signature": f"{PROP}:raises:{type(e).__name__}:apply_vec:{ret}",
                                                  "case": dict({k: v for k, v in case.items() if k != "codes_list"}, **extra),
                                                  "inputs": {"v0_": [float(i + 1) for i in range(N)]}, "kind": "raises",
                                                  "labels": [f"{type(e).__name__}: {str(e)[:150]}"]})
                    continue
                if not groups:
                    continue
                ser = out[out.columns[0]] if isinstance(out, FakeFrame) else out
                arr = ser.arr if isinstance(ser, FakeSeries) else ser
                cells = arr.cells if isinstance(arr, A) else list(arr)
                exp = []
                for g in groups:
                    mem = [col[i] for i in range(N) if sel[i] and codes[i] == g]
                    exp.extend(user(A(mem, "float64")).cells)
                bl = []
                if len(cells) != len(exp):
                    bl.append((f"{len(cells)} values returned, {len(exp)} expected", True))
                else:
                    for j, (a, b) in enumerate(zip(cells, exp)):
                        bl.append((f"value {j} of the concatenated per-group results", b_not(same(SF.of(a), b))))
                kind = getattr(getattr(ser, "index", None), "kind", None)
                want = "group_sorted" if k_fixed is None else "fixed"
                if kind != want:
                    bl.append((f"index kind {kind!r} chosen for a {ret} function (expected {want!r})", True))
                dec = decide(inp, bl, rt)
                _merge(res, dec, case, extra, f"apply_vec:{ret}:mask={masked}")
    finally:
        core["expand_index_to_new_level"] = saved_expand
        GB._build_group_sorted_index = saved_gsi
    res["symex_s"] = time.time() - t0 - res["solver_s"]
    res["encoded"] = sorted(E.encoded) + ["groupby_lib/groupby/core.py::apply", "groupby_lib/util.py::check_if_func_is_non_reduce"]
    res["witnesses"] = {f"{res['subcases']} (code sequence, mask) pairs decided": True}
    return res


def replay_vec(case, conc):
    from . import c03 as C3
    N, G, ret = case["N"], case["G"], case["ret"]
    codes = case["codes"]
    gb = C3.real_gb(G, codes=codes)
    vals = real_np.array([float(x) for x in conc["v0_"]])
    mask = real_np.array(case["mask"], dtype=bool) if case.get("mask") is not None else None
    fn = {"aligned": lambda a: a * 2.0 + real_np.arange(len(a)),
          "fixed1": lambda a: real_np.array([a.sum() + 0.5 * a[0]]),
          "fixed2": lambda a: real_np.array([a.sum(), a[0] - a[-1]])}[ret]
    sel = [codes[i] >= 0 and (mask is None or mask[i]) for i in range(N)]
    groups = [g for g in range(G) if any(sel[i] and codes[i] == g for i in range(N))]
    if case.get("via") == "quantile":
        q = case["q"]
        fn = lambda a: real_np.quantile(a, q)      # noqa: E731
    try:
        out = gb.quantile(vals, case["q"], mask) if case.get("via") == "quantile" else gb.apply(vals, fn, mask)
    except Exception as e:      # noqa: BLE001
        return True, f"real call raised {type(e).__name__}: {e}"
    exp_vals, exp_inner = [], []
    for g in groups:
        rows = [i for i in range(N) if sel[i] and codes[i] == g]
        r = fn(vals[rows])
        exp_vals.extend(float(x) for x in r)
        exp_inner.extend(rows if ret == "aligned" else range(len(r)))
    got_vals = [float(x) for x in real_np.asarray(out, dtype=float).ravel()]
    problems = []
    if len(got_vals) != len(exp_vals) or any(not approx_same(a, b) for a, b in zip(got_vals, exp_vals)):
        problems.append(f"values {got_vals} != {exp_vals}")
    if case.get("via") == "quantile":
        inner = [float(x) for x in out.index.get_level_values(out.index.nlevels - 1)]
        want = [float(case["q"][j]) for j in exp_inner]
        if inner != want:
            problems.append(f"quantile level {inner} != {want}")
        return bool(problems), {"problems": problems, "codes": codes, "mask": case.get("mask")}
    try:
        inner = [int(x) for x in out.index.get_level_values(out.index.nlevels - 1)]
    except Exception as e:      # noqa: BLE001
        inner = f"unreadable ({type(e).__name__})"
    if inner != [int(x) for x in exp_inner]:
        problems.append(f"inner index level {inner} != {list(exp_inner)} ({'original row of every value' if ret == 'aligned' else 'position within the fixed-length result'})")
    return bool(problems), {"problems": problems, "codes": codes, "mask": case.get("mask")}


def replay_median(case, conc):
    import pandas as pd
    from groupby_lib import GroupBy
    from . import c03 as C3
    N, G, codes = case["N"], case["G"], case["codes"]
    vals = real_np.array([float(x) for x in conc["v0_"]])
    mask = real_np.array(case["mask"], dtype=bool) if case.get("mask") is not None else None
    sel = [codes[i] >= 0 and (mask is None or mask[i]) for i in range(N)]
    try:
        if case.get("transform"):
            gb = C3.real_gb(G, codes=codes)
            order = case.get("label_order")
            if order is not None and order != sorted(order):
                gb.__dict__["_labels_argsort"] = real_np.array(order)
                gb._sort = True
                gb._index_is_sorted = False
            out = real_np.asarray(gb.median(vals, mask, True), dtype=float)
            bad = []
            for i in range(N):
                mem = [vals[j] for j in range(N) if sel[j] and codes[j] == codes[i] and codes[i] >= 0]
                exp = float(real_np.median(mem)) if mem else float("nan")
                if not approx_same(float(out[i]), exp):
                    bad.append((i, float(out[i]), exp))
            return bool(bad), {"wrong_rows": jsonable(bad[:6]), "codes": codes, "mask": case.get("mask")}
        gb = GroupBy(pd.Categorical.from_codes(codes, categories=[f"g{g}" for g in range(G)]))
        out = gb.median(vals, mask)
        bad = []
        for g in range(G):
            mem = [vals[i] for i in range(N) if sel[i] and codes[i] == g]
            if not mem:
                if f"g{g}" in out.index:
                    bad.append((g, "listed although it has no selected row"))
                continue
            try:
                got = float(out.loc[f"g{g}"])
            except Exception as e:      # noqa: BLE001
                bad.append((g, f"missing: {e}"))
                continue
            if not approx_same(got, float(real_np.median(mem))):
                bad.append((g, got, float(real_np.median(mem))))
        return bool(bad), {"problems": jsonable(bad[:6]), "codes": codes, "mask": case.get("mask")}
    except Exception as e:      # noqa: BLE001
        return True, f"real call raised {type(e).__name__}: {e}"


# ------------------------------------------------------------------ replay through the public API
def replay(case, conc, cand=None):
    import pandas as pd
    from groupby_lib import GroupBy
    conc = fix_nans(conc)
    if case.get("kind") == "apply_vec":
        return replay_vec(case, conc)
    if case.get("kind") == "composite":
        return replay_composite(case, conc)
    if case.get("via") == "median":
        return replay_median(case, conc)
    N, G = case["N"], case["G"]
    codes = case["codes"]
    keys = pd.Series([float(c) if c >= 0 else float("nan") for c in codes] + [float(g) for g in range(G)])
    try:
        if case["kind"] == "var" and case.get("dtype") == "int64":
            xi = [int(x) for x in conc["x"]]
            keys = pd.Series([float(c) if c >= 0 else float("nan") for c in codes])
            got = getattr(GroupBy(keys), case["func"])(real_np.array(xi, dtype="int64"), ddof=case["ddof"])
            bad, detail = [], {}
            from fractions import Fraction
            for g in sorted(set(c for c in codes if c >= 0)):
                vals = [Fraction(xi[i]) for i in range(N) if codes[i] == g]
                n = len(vals)
                if n - case["ddof"] <= 0:
                    continue
                m = sum(vals) / n
                exp = float(sum((v - m) ** 2 for v in vals) / (n - case["ddof"]))
                if case["func"] == "std":
                    exp = exp ** 0.5
                g_ = float(got.loc[float(g)])
                # rounding bound proportional to the squared magnitude of the data (one-pass formula in float64)
                tol = 64 * 2.3e-16 * n * float(max(abs(v) for v in vals)) ** 2 if case["func"] == "var" else None
                ok = abs(g_ - exp) <= tol + 1e-9 if tol is not None else (g_ == g_ and g_ >= 0 and abs(g_ * g_ - exp * exp) <= 64 * 2.3e-16 * n * float(max(abs(v) for v in vals)) ** 2 + 1e-9)
                detail[g] = (g_, exp)
                if not ok:
                    bad.append(g)
            return bool(bad), {"got_vs_expected": jsonable(detail), "wrong_groups": bad, "x": xi, "codes": codes}
        if case["kind"] == "var":
            xs = [float("nan") if case["nulls"][i] else float(conc["x"][i]) for i in range(N)]
            keys = pd.Series([float(c) if c >= 0 else float("nan") for c in codes])
            gb = GroupBy(keys)
            if case.get("transform"):
                got = real_np.asarray(getattr(gb, case["func"])(real_np.array(xs), ddof=case["ddof"], transform=True), dtype=float)
                bad = []
                for i in range(N):
                    vals = [xs[j] for j in range(N) if codes[j] == codes[i] and codes[i] >= 0 and xs[j] == xs[j]]
                    n = len(vals)
                    if n - case["ddof"] <= 0:
                        exp = float("nan")
                    else:
                        m = sum(vals) / n
                        exp = sum((v - m) ** 2 for v in vals) / (n - case["ddof"])
                        if case["func"] == "std":
                            exp = exp ** 0.5
                    if len(got) != N or not approx_same(float(got[i]), exp):
                        bad.append(i)
                return bool(bad), {"transform": jsonable(list(got)), "wrong_rows": bad, "x": jsonable(xs), "codes": codes}
            got = getattr(gb, case["func"])(real_np.array(xs), ddof=case["ddof"])
            bad = []
            detail = {}
            for g in sorted(set(c for c in codes if c >= 0)):
                vals = [xs[i] for i in range(N) if codes[i] == g and xs[i] == xs[i]]
                n = len(vals)
                if n - case["ddof"] <= 0:
                    exp = float("nan")
                else:
                    m = sum(vals) / n
                    exp = sum((v - m) ** 2 for v in vals) / (n - case["ddof"])
                    if case["func"] == "std":
                        exp = exp ** 0.5
                g_ = float(got.loc[float(g)])
                detail[g] = (g_, exp)
                if not approx_same(g_, exp):
                    bad.append(g)
            return bool(bad), {"got_vs_expected": jsonable(detail), "wrong_groups": bad, "x": jsonable(xs), "codes": codes}
        ncols = case["ncols"]
        if case.get("transform"):
            from . import c03 as C3
            gb = C3.real_gb(G, codes=codes)
            order = case.get("label_order")
            if order is not None and order != sorted(order):
                gb.__dict__["_labels_argsort"] = real_np.array(order)
                gb._sort = True
                gb._index_is_sorted = False
            vals = real_np.array([float(x) for x in conc["v0_"]])
            mask = real_np.array(case["mask"], dtype=bool) if case.get("mask") is not None else None

            shared_t = []

            def f(a):
                if real_np.shares_memory(a, vals):
                    shared_t.append(True)
                return float(real_np.sum(a * real_np.arange(1, len(a) + 1)))
            out = real_np.asarray(gb.apply(vals, f, mask, True), dtype=float)
            if shared_t:
                return True, {"problem": "the user function received a view of the caller's values array (an in-place callback would modify the input)", "codes": codes}
            sel = [codes[i] >= 0 and (mask is None or mask[i]) for i in range(N)]
            bad = []
            for i in range(N):
                mem = [vals[j] for j in range(N) if sel[j] and codes[j] == codes[i] and codes[i] >= 0]
                exp = float(sum(v * (j + 1) for j, v in enumerate(mem))) if mem else float("nan")
                if not approx_same(float(out[i]), exp):
                    bad.append((i, float(out[i]), exp))
            return bool(bad), {"transform": jsonable(list(out)), "wrong_rows": jsonable(bad[:6]), "codes": codes, "label_order": order, "mask": case.get("mask")}
        keys = pd.Series([float(c) if c >= 0 else float("nan") for c in codes])
        # make sure every label exists (unused categories) so that empty groups are part of the grouping
        cat = pd.Categorical.from_codes(codes, categories=[f"g{g}" for g in range(G)])
        gb = GroupBy(cat)
        cols = [real_np.array([float(x) for x in conc[f"v{c}_"]]) for c in range(ncols)]
        mask = real_np.array(case["mask"], dtype=bool) if case.get("mask") is not None else None
        shared = []

        def cb(a):
            if any(real_np.shares_memory(a, c_) for c_ in cols):
                shared.append(True)
            return float(real_np.sum(a * real_np.arange(1, len(a) + 1)))
        out = gb.apply(cols if ncols > 1 else cols[0], cb, mask)
        if shared:
            return True, {"problem": "the user function received a view of the caller's values array (an in-place callback would modify the input)", "codes": codes}
        sel = [codes[i] >= 0 and (mask is None or mask[i]) for i in range(N)]
        bad = []
        frame = out.to_frame() if isinstance(out, pd.Series) else out
        for c in range(ncols):
            for g in range(G):
                mem = [cols[c][i] for i in range(N) if sel[i] and codes[i] == g]
                if not mem:
                    continue
                exp = float(sum(v * (j + 1) for j, v in enumerate(mem)))
                try:
                    got = float(frame.iloc[:, c].loc[f"g{g}"])
                except Exception as e:      # noqa: BLE001
                    bad.append((c, g, f"missing: {e}"))
                    continue
                if not approx_same(got, exp):
                    bad.append((c, g, got, exp))
        return bool(bad), {"problems": jsonable(bad[:6]), "codes": codes, "mask": case.get("mask")}
    except Exception as e:      # noqa: BLE001
        return True, f"real call raised {type(e).__name__}: {e}"


META = {
    "glue": ['groupby_lib/groupby/core.py::apply', 'groupby_lib/groupby/core.py::median', 'groupby_lib/groupby/core.py::quantile', 'groupby_lib/util.py::check_if_func_is_non_reduce', 'groupby_lib/groupby/core.py::std', 'groupby_lib/groupby/core.py::var'],
    "bounds": {"quick": {"var/std": "N=4,G=2, a third of the 81 code sequences x every null pattern", "apply": "N=4,G=3, all 256 code sequences, 1-2 value columns, a fifth of the masks"},
               "thorough": {"var/std": "N=5,G=2, all code sequences x every null pattern", "apply": "N=5,G=3"}},
    "enumerated": ["code sequence and null pattern (counts become constants: the variance check is then a polynomial identity)", "ddof", "masks for apply", "number of value columns"],
    "symbolic": ["the non-null values", "the user function of apply: an uninterpreted function of (number of values, values in order)"],
    "assumptions": ["var/std: the real GroupBy.var/std bodies run on a directly constructed instance; _apply_gb_reduction is cut to the kernel path it wraps "
                    "(per-group arrays in a Series fake), so the observed-label filter and sorting are not exercised",
                    "exact arithmetic: var * (n - ddof) == sum (x - mean)^2; sqrt by its defining property",
                    "apply: pd.DataFrame/Series/Index are construction-only fakes; labels are compared by position among the observed groups"],
    "outside": ["the floating-point rounding bound of the one-pass variance formula (symbolic x symbolic FP64 multiplication: not decided within reach)",
                "NumPy's median/quantile kernels", "agg lists, ratio, subset_ratio, density (pandas arithmetic)", "var/std/median/apply with transform=True through pandas"],
}

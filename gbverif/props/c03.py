"""C03 - results do not depend on the execution strategy (threads, completion order, value chunks, chunked keys)."""
import itertools
import time
import numpy as real_np
import z3
from ..values import SF, MIN_INT, is_sym, conc_bool, b_and, b_or, b_not, ite, same, Unsupported, OutsideModel
from ..symarray import A
from ..models import FakeChunked, Schedule
from ..runtime import fresh_runtime, run_paths, current
from ..harness import Inputs, decide, jsonable, to_float_cells
from . import reductions as R, common
from .reductions import approx_same, np_to_cells, np_values
from .gbcore import make_gb, ChunkedState, compositions
from .common import MergedRT

PROP = "C03"


# ------------------------------------------------------------------ (e) the largest thread count the public API can choose
def t_max(E):
    """probe the real expressions at and around the switch-over sizes (input to the exploration, not an assertion)"""
    GB = E["core"]["GroupBy"]

    class Sized:
        def __init__(self, n):
            self.n = n

        def __len__(self):
            return self.n
    best = 1
    seen = {}
    for n in (0, 1, 999_999, 1_000_000, 1_000_001, 1_999_999, 2_000_000, 2_999_999, 3_000_000, 3_000_001, 10**7, 10**8, 2**31 - 1):
        gb = object.__new__(GB)
        gb.__dict__["_group_key_lengths"] = [n]
        try:
            t = int(gb._max_threads_for_numba)
        except Exception:      # noqa: BLE001
            continue
        seen[n] = t
        best = max(best, t)
    return best, seen


def cases(tier, seed):
    out = []
    N, G = (4, 2) if tier == "quick" else (6, 3)
    funcs = ("sum", "count", "max", "first", "last", "mean", "size", "min") if tier == "quick" else R.FUNCS
    # (a) thread counts vs one thread, (b) value chunk layouts vs contiguous, (d) every completion order
    for f in funcs:
        for dt in (("float64", "int64") + (("bool",) if f in ("first", "last", "min", "max") else ()) if tier == "quick" else ("float64", "int64", "bool", "datetime64[ns]")):
            if dt.startswith("datetime") and f in ("sum", "mean", "sum_squares") or dt == "bool" and f in ("mean", "sum_squares"):
                continue
            base = {"kind": "strategy", "func": f, "dtype": dt, "N": N, "G": G}
            for T in range(2, 5):
                for mk in ({"kind": "none"}, {"kind": "fancy", "L": 3}):
                    out.append(dict(base, mask=mk, threads=T, witness=(dt == "float64" and mk["kind"] == "none")))
            for comp in compositions(N, 2 if tier == "quick" else 3, 2):
                for mk in ({"kind": "none"}, {"kind": "bool_sym"}):
                    out.append(dict(base, mask=mk, threads=1, chunks=comp))
            if dt == "float64":
                for T in (3, 4) if tier == "thorough" else (3,):
                    for order in itertools.permutations(range(T)):
                        if order == tuple(range(T)):
                            continue
                        out.append(dict(base, mask={"kind": "none"}, threads=T, order=list(order)))
                if tier == "quick" and f in ("first", "sum"):
                    for order in list(itertools.permutations(range(4)))[1::4]:
                        out.append(dict(base, mask={"kind": "none"}, threads=4, order=list(order)))
    for c in out:
        c["name"] = "vs single-thread contiguous:" + R.case_name(c)
    # (c) chunked key state (per-chunk dictionaries + pointer tables) vs contiguous global codes
    if tier == "thorough":
        N = 5          # chunked-key states: N=6 with three symbolic pointer tables exceeds the solver budget
    lay = compositions(N, 2 if tier == "quick" else 3, 2)
    if tier == "quick":
        lay = lay + [[1, 2, 1]]          # one three-chunk layout in the quick tier as well
    gfuncs = ("sum", "min", "max", "first", "last", "count", "mean") if tier == "quick" else ("sum", "min", "max", "first", "last", "count", "mean", "sum_squares", "size")
    for lengths in lay:
        for f in gfuncs:
            for mk in ("none", "bool_sym"):
                for ncols in ((1, 2) if (f in ("sum", "first") and mk == "none") else (1,)):
                    c = {"kind": "chunked_keys", "func": f, "lengths": lengths, "N": N, "G": G, "mask": {"kind": mk}, "ncols": ncols, "dtype": "float64",
                         "witness": f == "sum" and mk == "none" and ncols == 1}
                    c["name"] = f"chunked keys vs contiguous:GroupBy.{f}/chunks={'+'.join(map(str, lengths))},G={G}/mask={mk}/value columns={ncols}"
                    out.append(c)
        for f in ("first", "last", "max", "min", "sum"):
            for dtx in ("bool", "int64", "uint64") if tier == "thorough" else ("bool", "int64"):
                c = {"kind": "chunked_keys", "func": f, "lengths": lengths, "N": N, "G": G, "mask": {"kind": "none"}, "ncols": 1, "dtype": dtx}
                c["name"] = f"chunked keys vs contiguous:GroupBy.{f}/{dtx}/chunks={'+'.join(map(str, lengths))},G={G}/mask=none"
                out.append(c)
        # slice bounds inside, on and beyond both ends of the rows (Python clamps: a start below -len is row 0, one above len selects nothing)
        for sl in ((1, None), (None, -1), (2, None), (-1, None), (None, 1), (lengths[0], None), (-N - 1, None), (-N - 2, N - 1), (N + 1, None), (-N, None)):
            for f in ("sum", "first"):
                c = {"kind": "chunked_keys", "func": f, "lengths": lengths, "N": N, "G": G, "mask": {"kind": "slice", "start": sl[0], "stop": sl[1], "step": None},
                     "ncols": 1, "dtype": "float64"}
                c["name"] = f"chunked keys vs contiguous:GroupBy.{f}/chunks={'+'.join(map(str, lengths))},G={G}/mask=slice({sl[0]},{sl[1]})"
                out.append(c)
        for f in ("sum", "first", "count_ikey"):
            c = {"kind": "chunked_keys", "func": f, "lengths": lengths, "N": N, "G": G, "mask": {"kind": "fancy", "L": 2}, "ncols": 1 if f != "count_ikey" else 0, "dtype": "float64"}
            c["name"] = f"chunked keys vs contiguous:GroupBy.{f}/chunks={'+'.join(map(str, lengths))},G={G}/mask=positions(L=2)"
            out.append(c)
        c = {"kind": "chunked_keys", "func": "count_ikey", "lengths": lengths, "N": N, "G": G, "mask": {"kind": "bool_sym"}, "ncols": 0, "dtype": "float64"}
        c["name"] = f"chunked keys vs contiguous:GroupBy.count_ikey/chunks={'+'.join(map(str, lengths))},G={G}/mask=bool_sym"
        out.append(c)
    for f in ("sum", "first", "max", "count", "mean"):
        for mt in (2, 3, 4):
            for ncols in (1, 2):
                Nt = N if tier == "quick" else 5
                bitsets = [[True, False] * (Nt // 2) + [True] * (Nt % 2), [False] * (Nt - 1) + [True], [True] + [False] * (Nt - 1)]
                for mk in [{"kind": "none"}, {"kind": "fancy", "L": 3}] + [{"kind": "bool", "bits": b} for b in bitsets]:
                    if tier == "quick" and (mt == 3 or (ncols == 2 and mk["kind"] != "none")):
                        continue
                    c = {"kind": "gb_threads", "func": f, "N": Nt, "G": G, "mask": mk, "ncols": ncols, "max_threads": mt, "dtype": "float64"}
                    c["name"] = f"GroupBy.{f} with up to {mt} threads per call == single thread/contiguous keys/N={Nt},G={G}/mask={R.mask_desc(mk)}/value columns={ncols}"
                    out.append(c)
    out.append({"kind": "tmax", "name": "largest thread count the public API can choose (probed from the real expressions)"})
    # (e) whole factorization vs chunk-wise factorization through the sorted-prefix fast path and per-chunk dictionaries: the real constructor
    # glue on enumerated keys (symbolic values) must give the per-key answer, i.e. what factorizing the key whole gives
    Nk = 4 if tier == "quick" else 6
    for first in ((1.0, 2.0) if tier == "quick" else (1.0, 2.0, 3.0, None)):
        for sort_ in ((True,) if first == 1.0 and tier == "quick" else (True, False)):
            out.append({"kind": "chunked_constructor", "N": Nk, "alphabet": [1.0, 2.0, 3.0, float("nan")], "first": float("nan") if first is None else first,
                        "sort": sort_, "max_chunks": 2, "funcs": ["sum", "first"],
                        "name": f"GroupBy(chunked keys) == whole-key answer/N={Nk} over {{1,2,3,null}} starting with {first}/every 2-chunk layout/sort={sort_}"})
    return out


def run_case(E, case):
    if case["kind"] == "strategy":
        return run_strategy(E, case)
    if case["kind"] == "chunked_keys":
        return run_chunked(E, case)
    if case["kind"] == "gb_threads":
        return run_gb_threads(E, case)
    if case["kind"] == "chunked_constructor":
        from . import constructor
        return constructor.run_case(E, case, PROP)
    if case["kind"] == "tmax":
        t0 = time.time()
        tm, seen = t_max(E)
        ok = 1 <= tm <= 4
        return {"verdict": "unsat" if ok else "inconclusive", "detail": "" if ok else f"the API can choose {tm} threads; the exploration covers 1..4",
                "solver_s": 0.0, "symex_s": time.time() - t0, "n_queries": 0, "obligations": 0, "failed_obligations": [],
                "witnesses": {f"public API chooses at most {tm} threads per call (sizes probed: {sorted(seen.items())})": True}, "candidates": [],
                "encoded": ["groupby_lib/groupby/core.py::_max_threads_for_numba"]}
    raise Unsupported(case["kind"])


# ------------------------------------------------------------------ (a) (b) (d)
def run_strategy(E, case):
    t0 = time.time()
    inp = Inputs()
    d = R.build(case, inp)
    rt = fresh_runtime()
    base = dict(case, threads=1, order=None)
    base.pop("chunks", None)
    try:
        out = R.shadow_call(E, case, R.shadow_arrays(case, d))
        ref = R.shadow_call(E, base, R.shadow_arrays(base, d))
    except (Unsupported, OutsideModel):
        raise
    except Exception as e:      # noqa: BLE001 - the strategy raised on valid input
        from ..harness import solve_exists
        res_, m = solve_exists(list(inp.pre) + list(getattr(e, "gb_pc", [])), True)
        Schedule.order = None
        return {"verdict": "sat", "solver_s": 0.0, "symex_s": time.time() - t0, "n_queries": 1, "obligations": 0, "failed_obligations": [],
                "witnesses": {}, "encoded": sorted(E.encoded),
                "candidates": [{"signature": f"{PROP}:raises:{type(e).__name__}:strategy:{R.ENTRY[case['func']]}", "case": case,
                                "inputs": jsonable(inp.eval(m)) if m is not None else {}, "kind": "raises", "labels": [f"{type(e).__name__}: {str(e)[:160]}"]}]}
    Schedule.order = None
    bads = [(f"{case['func']}[g={g}] differs from the single-thread contiguous run", b_not(same(out.cells[g], ref.cells[g]))) for g in range(case["G"])]
    wit = R.witnesses(case, d) if case.get("witness") else []
    dec = decide(inp, bads, rt, witnesses=wit)
    r = {"verdict": dec.verdict, "solver_s": dec.solver_s, "symex_s": time.time() - t0 - dec.solver_s, "n_queries": dec.n_queries,
         "obligations": dec.obligations, "failed_obligations": dec.failed_obligations, "witnesses": dec.witnesses, "candidates": [],
         "encoded": sorted(E.encoded)}
    if case.get("order") is not None:
        r["witnesses"]["a completion order other than submission order"] = True
    sig = f"{PROP}:strategy:{R.ENTRY[case['func']]}:{real_np.dtype(case['dtype']).kind}:" + \
          ("order" if case.get("order") is not None else ("valchunks" if case.get("chunks") else "threads"))
    if dec.verdict == "sat" or dec.failed_obligations:
        model = dec.model if dec.verdict == "sat" else dec.ob_model
        r["verdict"] = "sat"
        r["candidates"].append({"signature": sig, "case": case, "inputs": jsonable(model), "kind": "property",
                                "labels": dec.which[:4] + [f"{a}@{b}" for a, b in dec.failed_obligations[:4]]})
    return r


def replay_strategy(case, conc):
    conc = common.fix_nans(conc)
    base = dict(case, threads=1, order=None)
    base.pop("chunks", None)
    try:
        a = np_to_cells(R.real_call(case, conc))
        b = np_to_cells(R.real_call(base, conc))
    except Exception as e:      # noqa: BLE001
        return True, f"real call raised {type(e).__name__}: {e}"
    bad = [g for g in range(case["G"]) if not approx_same(a[g], b[g])]
    if case.get("order") is not None and not bad:
        # completion order cannot be forced on the real thread pool: evaluate the real parallel_map source on the model
        return False, "completion order is not controllable on the real executor"
    return bool(bad), {"strategy": jsonable(a), "single_thread_contiguous": jsonable(b), "differ_at": bad, "inputs": jsonable(conc)}


# ------------------------------------------------------------------ (c)
def _uniques_for(lengths, G):
    return [min(L, G) for L in lengths]


def build_chunked(case, inp):
    lengths, G = case["lengths"], case["G"]
    st = ChunkedState(inp, lengths, _uniques_for(lengths, G), G)
    N = sum(lengths)
    d = {"state": st}
    d["values"] = [inp.values(f"v{c}_", N, case["dtype"], sum_safe=case["func"] in ("sum", "mean", "sum_squares")) for c in range(max(case["ncols"], 1))]
    if case["mask"]["kind"] == "bool_sym":
        d["mask"] = inp.bools("m", N)
    elif case["mask"]["kind"] == "fancy":
        d["mask"] = inp.ints("p", case["mask"]["L"], -N, N - 1)
    return d


def _mask_obj(case, d):
    m = case["mask"]
    if m["kind"] == "fancy":
        return A(d["mask"], "int64").tag("input:mask")
    if m["kind"] == "bool_sym":
        return A(d["mask"], "bool").tag("input:mask")
    if m["kind"] == "slice":
        return slice(m["start"], m["stop"], m["step"])
    return None


def run_chunked(E, case):
    t0 = time.time()
    inp = Inputs()
    d = build_chunked(case, inp)
    st = d["state"]
    G = case["G"]
    merged = MergedRT()

    def call(gb):
        def body():
            mask = _mask_obj(case, d)
            if case["func"] == "count_ikey":
                return [(gb.count_ikey(mask), None)]
            vals = [A(v, case["dtype"]).tag("input:values") for v in d["values"]][: max(case["ncols"], 1)]
            f = "count" if case["func"] == "size" else case["func"]
            return gb._apply_gb_func_across_chunked_group_keys("sum" if f == "mean" else f, vals, mask)
        return run_paths(body)
    try:
        gb1 = make_gb(E, G, chunks=st.chunk_arrays(), pointers=st.pointer_arrays())
        p1 = call(gb1)
        gb2 = make_gb(E, G, codes=A(st.global_codes(), "int64").tag("state:_group_ikey"))
        p2 = call(gb2)
    except (Unsupported, OutsideModel):
        raise
    except Exception as e:      # noqa: BLE001
        return common.raises_result(E, inp, PROP, f"chunked_keys:{case['func']}:mask={case['mask']['kind']}", case, e, t0)
    bads = []
    for pc1, o1, rt1 in p1:
        for pc2, o2, rt2 in p2:
            pcz = b_and(*(pc1 + pc2)) if (pc1 or pc2) else True
            for col, ((ra, ca), (rb, cb)) in enumerate(zip(o1, o2)):
                for g in range(G):
                    # for count/size the public result is the count array; the first array is an unused by-product
                    if case["func"] not in ("count", "size"):
                        bads.append((f"result[col {col}, g={g}]", b_and(pcz, b_not(same(ra.cells[g], rb.cells[g])))))
                    if ca is not None and cb is not None and case["func"] != "last":
                        bads.append((f"count[col {col}, g={g}]", b_and(pcz, b_not(same(ca.cells[g], cb.cells[g])))))
    for paths in (p1, p2):
        for pc, _, rt in paths:
            for kind, g_, c_, where in rt.obligations:
                merged.obligations.append((kind, b_and(*pc, g_) if pc else g_, c_, where))
            merged.pre.extend(rt.pre)
    wit = []
    if case.get("witness"):
        gl = st.global_codes()
        L0 = case["lengths"][0]
        wit = [("group absent from the first key chunk but present later", b_and(b_not(b_or(*[gl[i] == 0 for i in range(L0)])), b_or(*[gl[i] == 0 for i in range(L0, len(gl))]))),
               ("null key inside a chunk", b_or(*[x == -1 for x in gl])),
               ("pointer table that is not the identity", st.pointers[0][0] != 0)]
    dec = decide(inp, bads, merged, witnesses=wit)
    r = {"verdict": dec.verdict, "solver_s": dec.solver_s, "symex_s": time.time() - t0 - dec.solver_s, "n_queries": dec.n_queries,
         "obligations": dec.obligations, "failed_obligations": dec.failed_obligations, "witnesses": dec.witnesses, "candidates": [],
         "encoded": sorted(E.encoded)}
    if dec.verdict == "sat" or dec.failed_obligations:
        model = dec.model if dec.verdict == "sat" else dec.ob_model
        r["verdict"] = "sat"
        r["candidates"].append({"signature": f"{PROP}:chunked_keys:{case['func']}:mask={case['mask']['kind']}", "case": case, "inputs": jsonable(model),
                                "kind": "property", "labels": dec.which[:4] + [f"{a}@{b}" for a, b in dec.failed_obligations[:4]]})
    return r


def run_gb_threads(E, case):
    t0 = time.time()
    inp = Inputs()
    N, G = case["N"], case["G"]
    codes = inp.codes("k", N, G)
    cols = [inp.values(f"v{c}_", N, "float64") for c in range(case["ncols"])]
    d = {}
    mk = case["mask"]["kind"]
    if mk == "bool":
        d["mask"] = list(case["mask"]["bits"])
    elif mk == "fancy":
        d["mask"] = inp.ints("p", case["mask"]["L"], -N, N - 1)
    merged = MergedRT()

    def call(mt):
        def body():
            gb = make_gb(E, G, codes=A(codes, "int64").tag("state:_group_ikey"), max_threads=mt)
            mask = A(d["mask"], "bool" if mk == "bool" else "int64").tag("input:mask") if "mask" in d else None
            f = "sum" if case["func"] == "mean" else case["func"]
            return gb._apply_gb_func_across_chunked_group_keys(f, [A(c, "float64").tag("input:values") for c in cols], mask)
        return run_paths(body)
    try:
        p1, p2 = call(case["max_threads"]), call(1)
    except (Unsupported, OutsideModel):
        raise
    except Exception as e:      # noqa: BLE001
        return common.raises_result(E, inp, PROP, f"gb_threads:{case['func']}", case, e, t0)
    bads = []
    for pc1, o1, rt1 in p1:
        for pc2, o2, rt2 in p2:
            pcz = b_and(*(pc1 + pc2)) if (pc1 or pc2) else True
            for col, ((ra, ca), (rb, cb)) in enumerate(zip(o1, o2)):
                for g in range(G):
                    if case["func"] != "count":
                        bads.append((f"result[col {col}, g={g}]", b_and(pcz, b_not(same(ra.cells[g], rb.cells[g])))))
                    if case["func"] != "last":
                        bads.append((f"count[col {col}, g={g}]", b_and(pcz, b_not(same(ca.cells[g], cb.cells[g])))))
    for paths in (p1, p2):
        for pc, _, rt in paths:
            for kind, g_, c_, where in rt.obligations:
                merged.obligations.append((kind, b_and(*pc, g_) if pc else g_, c_, where))
            merged.pre.extend(rt.pre)
    dec = decide(inp, bads, merged)
    r = {"verdict": dec.verdict, "solver_s": dec.solver_s, "symex_s": time.time() - t0 - dec.solver_s, "n_queries": dec.n_queries,
         "obligations": dec.obligations, "failed_obligations": dec.failed_obligations, "witnesses": {}, "candidates": [], "encoded": sorted(E.encoded)}
    if dec.verdict == "sat" or dec.failed_obligations:
        r["verdict"] = "sat"
        model = dec.model if dec.verdict == "sat" else dec.ob_model
        r["candidates"].append({"signature": f"{PROP}:gb_threads:{case['func']}:mask={mk}", "case": case, "inputs": jsonable(model), "kind": "property",
                                "labels": dec.which[:4] + [f"{a}@{b}" for a, b in dec.failed_obligations[:3]]})
    return r


def replay_gb_threads(case, conc):
    conc = common.fix_nans(conc)
    N, G = case["N"], case["G"]
    mk = case["mask"]["kind"]
    mask = real_np.array(case["mask"]["bits"], dtype=bool) if mk == "bool" else (real_np.array(conc["p"], dtype="int64") if mk == "fancy" else None)
    vals = [np_values(to_float_cells(conc[f"v{c}_"]), "float64") for c in range(case["ncols"])]
    f = "sum" if case["func"] == "mean" else case["func"]
    try:
        from groupby_lib.groupby.core import GroupBy

        def run(mt):
            gb = real_gb(G, codes=conc["k"])
            gb.__class__ = type("GroupBy_t", (GroupBy,), {"_max_threads_for_numba": property(lambda self: mt)})
            return gb._apply_gb_func_across_chunked_group_keys(f, vals, mask)
        a, b = run(case["max_threads"]), run(1)
    except Exception as e:      # noqa: BLE001
        return True, f"real call raised {type(e).__name__}: {e}"
    bad = []
    for col, ((ra, ca), (rb, cb)) in enumerate(zip(a, b)):
        for g in range(G):
            if case["func"] != "count" and not approx_same(np_to_cells(ra)[g], np_to_cells(rb)[g]):
                bad.append(("result", col, g))
            if case["func"] != "last" and int(ca[g]) != int(cb[g]):
                bad.append(("count", col, g))
    return bool(bad), {"threads": jsonable([np_to_cells(x[0]) for x in a]), "single": jsonable([np_to_cells(x[0]) for x in b]), "differ": jsonable(bad)}


def real_gb(G, chunks=None, pointers=None, codes=None):
    """the same directly constructed state on the REAL class (numba-compiled kernels)"""
    import pandas as pd
    import pyarrow as pa
    from groupby_lib.groupby.core import GroupBy
    gb = object.__new__(GroupBy)
    if chunks is not None:
        gb._group_ikey = pa.chunked_array([pa.array(real_np.array(c, dtype="int64")) for c in chunks])
        gb._group_key_pointers = [real_np.array(p, dtype="int64") for p in pointers] if pointers is not None else None
    else:
        gb._group_ikey = real_np.array(codes, dtype="int64")
        gb._group_key_pointers = None
    gb._result_index = pd.Index(real_np.arange(G), name="key")
    gb._sort = False
    gb._index_is_sorted = True
    gb._key_index = None
    return gb


def replay_chunked(case, conc):
    conc = common.fix_nans(conc)
    lengths, G = case["lengths"], case["G"]
    loc = [conc[f"l{c}_"] for c in range(len(lengths))]
    ptr = [conc[f"p{c}_"] for c in range(len(lengths))]
    glob = [(-1 if x < 0 else p[x]) for l, p in zip(loc, ptr) for x in l]
    N = sum(lengths)
    m = case["mask"]
    mask = real_np.array(conc["m"], dtype=bool) if m["kind"] == "bool_sym" else (slice(m["start"], m["stop"], m["step"]) if m["kind"] == "slice" else (
        real_np.array(conc["p"], dtype="int64") if m["kind"] == "fancy" else None))
    try:
        gb1 = real_gb(G, chunks=loc, pointers=ptr)
        gb2 = real_gb(G, codes=glob)
        if case["func"] == "count_ikey":
            a = [(gb1.count_ikey(mask), None)]
            b = [(gb2.count_ikey(mask), None)]
        else:
            vals = [np_values(to_float_cells(conc[f"v{c}_"]), case["dtype"]) for c in range(max(case["ncols"], 1))]
            f = "count" if case["func"] == "size" else ("sum" if case["func"] == "mean" else case["func"])
            a = gb1._apply_gb_func_across_chunked_group_keys(f, vals, mask)
            b = gb2._apply_gb_func_across_chunked_group_keys(f, vals, mask)
    except Exception as e:      # noqa: BLE001
        return True, f"real call raised {type(e).__name__}: {e}"
    bad = []
    for col, ((ra, ca), (rb, cb)) in enumerate(zip(a, b)):
        for g in range(G):
            if case["func"] not in ("count", "size") and not approx_same(np_to_cells(ra)[g], np_to_cells(rb)[g]):
                bad.append(("result", col, g))
            if ca is not None and cb is not None and case["func"] != "last" and int(ca[g]) != int(cb[g]):
                bad.append(("count", col, g))
    return bool(bad), {"chunked": jsonable([np_to_cells(x[0]) for x in a]), "contiguous": jsonable([np_to_cells(x[0]) for x in b]), "differ": jsonable(bad),
                       "local_codes": loc, "pointers": ptr, "inputs": jsonable(conc)}


def replay(case, inputs, cand=None):
    if case["kind"] == "strategy":
        return replay_strategy(case, inputs)
    if case["kind"] == "chunked_keys":
        return replay_chunked(case, inputs)
    if case["kind"] == "gb_threads":
        return replay_gb_threads(case, inputs)
    if case["kind"] == "chunked_constructor":
        from . import constructor
        return constructor.replay(case, inputs, cand)
    raise Unsupported(case["kind"])


def validate(E, seed, tier):
    # chunked bool values cannot be replayed: pyarrow's bit-packed booleans do not convert zero-copy (container layer, outside the claim)
    cs = [c for c in cases("quick", seed) if c["kind"] == "strategy" and c.get("order") is None and (not c.get("chunks") or c["dtype"] in ("float64", "int64"))]
    return R.validate_cases(E, cs, seed, 40 if tier == "quick" else 150)


META = {
    "glue": ['groupby_lib/groupby/core.py::_apply_gb_func_across_chunked_group_keys', 'groupby_lib/groupby/core.py::_apply_gb_reduction', 'groupby_lib/groupby/core.py::_find_first_chunk_in_slice', 'groupby_lib/groupby/core.py::_group_sort_indexer', 'groupby_lib/groupby/core.py::_max_threads_for_numba', 'groupby_lib/groupby/core.py::_resolve_mask_argument_into_chunks', 'groupby_lib/groupby/core.py::_unify_for_positional_mask', 'groupby_lib/groupby/core.py::_unify_group_key_chunks', 'groupby_lib/groupby/core.py::count_ikey', 'groupby_lib/groupby/numba.py::_apply_group_method_single_chunk', 'groupby_lib/groupby/numba.py::_build_target_for_groupby', 'groupby_lib/groupby/numba.py::_chunk_args_for_chunked_values', 'groupby_lib/groupby/numba.py::_chunk_args_for_unchunked_values', 'groupby_lib/groupby/numba.py::_chunk_groupby_args', 'groupby_lib/groupby/numba.py::_group_func_wrap', 'groupby_lib/groupby/numba.py::combine_chunk_results_for_factorized_key', 'groupby_lib/groupby/numba.py::group_count', 'groupby_lib/groupby/numba.py::group_mean', 'groupby_lib/groupby/numba.py::group_size', 'groupby_lib/groupby/numba.py::group_sum', 'groupby_lib/util.py::_cast_timestamps_to_ints', 'groupby_lib/util.py::_null_value_for_numpy_type', 'groupby_lib/util.py::array_split_with_chunk_handling', 'groupby_lib/util.py::check_data_inputs_aligned', 'groupby_lib/util.py::jit_is_null', 'groupby_lib/util.py::parallel_map'],
    "bounds": {"quick": {"N": 4, "G": 2, "threads": "2..4 vs 1", "value_chunks": "2 parts", "key_chunks": "2 chunks", "completion orders": "all 3!, a quarter of 4!"},
               "thorough": {"N": 6, "G": 3, "threads": "2..4 vs 1", "value_chunks": "<= 3 parts", "key_chunks": "<= 3 chunks", "completion orders": "all 3! and 4!"}},
    "enumerated": ["thread count", "chunk layouts of values and of keys", "completion order of the thread-pool tasks (permutation handed to the as_completed model)",
                   "slice bounds", "number of value columns"],
    "symbolic": ["group codes / chunk-local codes", "pointer tables (any injective map into the labels)", "values and null flags", "mask bits", "integer positions"],
    "assumptions": ["relational: every strategy is compared with the single-thread, contiguous run of the same real code (C04 ties that run to the definition)",
                    "concurrent.futures model: submit runs the task and stores result/exception, as_completed yields the futures in the enumerated order; "
                    "independence from interleaving INSIDE tasks rests on the write logs (tasks write only arrays they allocate; no input writes: side obligation)",
                    "chunked key states are constructed directly (object.__new__): any local codes in [-1, u), any injective pointer tables - a superset of "
                    "the states the constructor produces; counterexamples are replayed on the real class constructed the same way",
                    "sums/means equal in exact arithmetic (i.e. up to floating-point rounding)",
                    "the largest thread count the API can pick is probed from the real expressions at and around the 1,000,000-row switch-over"],
    "outside": ["the hardware memory model / real thread scheduling", "arrays of >= 10^6 rows themselves (only their consequences for thread count and block layout)",
                "the key factorizers of pandas/pyarrow that produce the chunk-local dictionaries", "N > 6"],
}

"""The chunk-wise key factorization of the GroupBy constructor (_factorize_group_key_in_chunks: sorted-prefix fast path,
per-chunk dictionaries, pointer tables) followed by reductions.  The key sequence and its chunk layout are enumerated
(pandas' factorize_array / Index.drop_duplicates / sort_values / get_indexer are contract models on concrete keys); the values
stay symbolic, so the solver decides 'every label's result is the reduction of exactly the rows carrying that key' for all values."""
import itertools
import math
import time
import numpy as real_np
import z3
from ..values import SF, is_sym, conc_bool, b_and, b_or, b_not, ite, same, total, Unsupported, OutsideModel
from ..symarray import A
from ..models import FakeChunked, NumbaList
from ..runtime import fresh_runtime, current
from ..harness import Inputs, decide, jsonable, to_float_cells
from .reductions import approx_same
from .gbcore import install_cuts, compositions

NAN = float("nan")


class ModelIndex(list):
    """contract model of the pandas Index operations used by the constructor, on concrete labels"""
    def __init__(self, data=(), dtype=None, copy=None, name=None):
        if isinstance(data, A):
            data = data.cells
        elif hasattr(data, "tolist"):
            data = data.tolist()
        super().__init__(data)
        self.names = [name]
        self.name = name

    def drop_duplicates(self):
        out = []
        for x in self:
            if not any(_eq(x, y) for y in out):
                out.append(x)
        return ModelIndex(out)

    def sort_values(self, return_indexer=False, ascending=True, **kw):
        if kw or not ascending:
            raise Unsupported("Index.sort_values options")
        order = sorted((i for i, x in enumerate(self) if x == x), key=lambda i: self[i]) + [i for i, x in enumerate(self) if x != x]
        out = ModelIndex([self[i] for i in order])
        if return_indexer:
            return out, A([int(i) for i in order], "int64")
        return out

    def get_indexer(self, target):
        t = target.cells if isinstance(target, A) else list(target)
        out = []
        for x in t:
            pos = [i for i, y in enumerate(self) if _eq(x, y)]
            out.append(pos[0] if pos else -1)
        return A(out, "int64")

    def __getitem__(self, i):
        r = list.__getitem__(self, i)
        return ModelIndex(r) if isinstance(i, slice) else r

    def __array__(self, dtype=None, copy=None):
        return real_np.array(list(self), dtype=float)


def _eq(a, b):
    return a == b or (a != a and b != b)


def model_factorize_array(values, **kw):
    """pandas.core.algorithms.factorize_array by contract: codes in first-appearance order, NaN -> -1"""
    cells = values.cells if isinstance(values, A) else list(values)
    uniq = []
    codes = []
    for x in cells:
        if x != x:
            codes.append(-1)
            continue
        if x not in uniq:
            uniq.append(x)
        codes.append(uniq.index(x))
    return A(codes, "int64"), A(uniq, "float64")


def case_name(c):
    return (f"GroupBy(chunked keys {c['keys']} as {'+'.join(map(str, c['chunks']))}, sort={c['sort']}).{c['func']}")


def build_state(E, keys, chunks, sort):
    """run the real _factorize_group_key_in_chunks (shadow) on concrete chunked keys with the pandas contract models"""
    GB = install_cuts(E)
    core, fz = E["core"], E["factorization"]
    saved = {"pdIndex": E.pd.__dict__.get("Index"), "fa": core["factorize_array"], "pta": fz["pandas_type_from_array"]}
    parts = []
    p = 0
    for L in chunks:
        parts.append(A([float(x) for x in keys[p:p + L]], "float64"))
        p += L
    try:
        E.pd.Index = ModelIndex
        core["factorize_array"] = model_factorize_array
        fz["pandas_type_from_array"] = lambda arr: real_np.dtype("float64")
        gb = object.__new__(GB)
        gb._sort = sort
        gb._index_is_sorted = False
        gb._group_key_pointers = None
        gb._key_index = None
        rt = current()
        was = getattr(rt, "symbolic", True)
        rt.symbolic = False          # np.empty cells: plain zeros, the keys are concrete
        gb._factorize_group_key_in_chunks(FakeChunked(parts))
        rt.symbolic = was
    finally:
        if saved["pdIndex"] is None:
            E.pd.__dict__.pop("Index", None)
        else:
            E.pd.Index = saved["pdIndex"]
        core["factorize_array"] = saved["fa"]
        fz["pandas_type_from_array"] = saved["pta"]
    return gb


def run_case(E, case, prop):
    t0 = time.time()
    res = {"verdict": "unsat", "solver_s": 0.0, "symex_s": 0.0, "n_queries": 0, "obligations": 0, "failed_obligations": [], "witnesses": {},
           "candidates": [], "subcases": 0}
    alphabet, N, sort = case["alphabet"], case["N"], case["sort"]
    for keys in itertools.product(alphabet, repeat=N):
        if case.get("first") is not None and not _eq(keys[0], case["first"]):
            continue
        for chunks in compositions(N, case["max_chunks"], 2):
            inp = Inputs()
            vs = inp.floats("v", N, nullable=True)
            inp.vars["keys"] = ("const", [None if k != k else k for k in keys], "float64")
            rt = fresh_runtime()
            extra = {"keys": [None if k != k else k for k in keys], "chunks": chunks, "sort": sort}
            try:
                gb = build_state(E, keys, chunks, sort)
                labels = list(gb._result_index)
                bl = []
                want = sorted({k for k in keys if k == k}) if sort else list(dict.fromkeys(k for k in keys if k == k))
                if sorted(labels) != sorted(want) or len(set(labels)) != len(labels):
                    bl.append((f"labels {labels} are not exactly the distinct non-null keys {want}", True))
                elif sort and labels != want:
                    bl.append((f"labels {labels} are not in ascending order", True))
                else:
                    for f in case["funcs"]:
                        (r, c), = gb._apply_gb_func_across_chunked_group_keys(f, [A(vs, "float64").tag("input:values")], None)
                        for g, lab in enumerate(labels):
                            rows = [i for i in range(N) if keys[i] == lab]
                            valid = [b_not(vs[i].nan) for i in rows]
                            if f == "sum":
                                exp = total([ite(b_not(vs[i].nan), vs[i], SF.of(0.0)) for i in rows], SF.of(0.0))
                                bl.append((f"sum[label {lab}]", b_not(same(SF.of(r.cells[g]), exp))))
                            elif f == "first":
                                opts = [b_and(valid[j], b_not(b_or(*valid[:j])), same(SF.of(r.cells[g]), vs[i])) for j, i in enumerate(rows)]
                                bl.append((f"first[label {lab}]", b_not(ite(b_or(*valid), b_or(*opts), SF.of(r.cells[g]).nan))))
                            bl.append((f"{f}.count[label {lab}]", b_not(c.cells[g] == total([ite(v, 1, 0) for v in valid], 0))))
            except (Unsupported, OutsideModel):
                raise
            except Exception as e:      # noqa: BLE001
                from ..runtime import _model_gap
                if _model_gap(e):
                    raise Unsupported("model gap: " + _model_gap(e)) from e
                res["verdict"] = "sat"
                res["subcases"] += 1
                if len(res["candidates"]) < 3:
                    res["candidates"].append({"signature": f"{prop}:raises:{type(e).__name__}:chunked_constructor:sort={sort}",
                                              "case": dict({k: v for k, v in case.items()}, **extra), "inputs": {"v": [float(i + 1) for i in range(N)]},
                                              "kind": "raises", "labels": [f"{type(e).__name__}: {str(e)[:160]}"]})
                continue
            dec = decide(inp, bl, rt)
            res["subcases"] += 1
            res["solver_s"] += dec.solver_s
            res["n_queries"] += dec.n_queries
            res["obligations"] += dec.obligations
            if dec.verdict == "unknown" and res["verdict"] != "sat":
                res["verdict"] = "unknown"
            if dec.verdict == "sat" or dec.failed_obligations:
                res["verdict"] = "sat"
                model = dec.model if dec.verdict == "sat" else dec.ob_model
                if len(res["candidates"]) < 4:
                    res["candidates"].append({"signature": f"{prop}:chunked_constructor:sort={sort}", "case": dict(case, **extra), "inputs": jsonable(model),
                                              "kind": "property", "labels": dec.which[:4] + [f"{a}@{b}" for a, b in dec.failed_obligations[:3]]})
    res["symex_s"] = time.time() - t0 - res["solver_s"]
    res["encoded"] = sorted(E.encoded) + ["groupby_lib/groupby/core.py::_factorize_group_key_in_chunks", "groupby_lib/groupby/factorization.py::monotonic_factorization"]
    res["witnesses"] = {f"{res['subcases']} (key sequence, chunk layout) pairs decided for all values": True,
                        "sorted prefix longer than a quarter of the rows, followed by an unsorted tail": True}
    return res


def replay(case, conc, cand=None):
    """public API: GroupBy(pa.chunked_array(keys)).sum/first(values) against a plain reference by key"""
    import pyarrow as pa
    import pandas as pd
    from groupby_lib import GroupBy
    keys = [NAN if k is None else float(k) for k in case["keys"]]
    N = len(keys)
    vals = real_np.array([NAN if x is None else float(x) for x in conc["v"]])
    parts = []
    p = 0
    for L in case["chunks"]:
        parts.append(keys[p:p + L])
        p += L
    bad = []
    try:
        gb = GroupBy(pa.chunked_array(parts), sort=case["sort"])
        for f in case["funcs"]:
            out = getattr(gb, f)(vals)
            for lab in sorted({k for k in keys if k == k}):
                rows = [i for i in range(N) if keys[i] == lab]
                v = [vals[i] for i in rows if vals[i] == vals[i]]
                exp = (sum(v) if f == "sum" else (v[0] if v else NAN))
                try:
                    got = float(out.loc[lab])
                except Exception as e:      # noqa: BLE001
                    bad.append((f, lab, f"label missing: {type(e).__name__}"))
                    continue
                if not approx_same(got, float(exp)):
                    bad.append((f, lab, got, exp))
            if len(out) != len({k for k in keys if k == k}):
                bad.append((f, "number of labels", len(out)))
    except Exception as e:      # noqa: BLE001
        return True, f"real call raised {type(e).__name__}: {e}"
    return bool(bad), {"problems": jsonable(bad[:6]), "keys": case["keys"], "chunks": case["chunks"], "sort": case["sort"], "values": jsonable(list(vals))}

"""C15 - head/tail/nth select exactly the requested rows of each group (positions; any group size via an inductive step)."""
from . import rowselect as F
from . import restore as RS
from . import inductive as I
from . import common

PROP = "C15"


def cases(tier, seed):
    out = []
    if tier == "quick":
        N, G, ns_nth, ns_ht = 4, 2, range(-5, 6), range(0, 6)          # n up to beyond the largest possible group
    else:
        N, G, ns_nth, ns_ht = 7, 3, range(-8, 9), range(0, 9)
    for mk in ("none", "bool_sym"):
        for n in ns_nth:
            out.append({"op": "nth", "n": n, "N": N, "G": G, "mask": {"kind": mk}, "witness": n in (0, 1, -1)})
        for n in ns_ht:
            out.append({"op": "head", "n": n, "N": N, "G": G, "mask": {"kind": mk}, "witness": n == 2})
            out.append({"op": "tail", "n": n, "N": N, "G": G, "mask": {"kind": mk}, "witness": n == 2})
    # the public glue GroupBy.head/tail/nth on directly constructed states (contiguous; chunked with per-chunk dictionaries)
    lays = [None, [2, 2]] if tier == "quick" else [None, [3, 3], [2, 2, 2], [1, 5]]
    Ng, Gg = (4, 2) if tier == "quick" else (6, 3)
    for lay in lays:
        for op, ns in (("nth", (-3, -1, 0, 1, 3) if tier == "quick" else range(-6, 7)), ("head", range(0, Ng + 2)), ("tail", range(0, Ng + 2))):
            for n in ns:
                c = {"op": op, "n": n, "N": Ng, "G": Gg, "mask": {"kind": "none"}, "via": "contiguous" if lay is None else "chunked"}
                if lay:
                    c["lengths"] = lay
                out.append(c)
    for c in out:
        c["name"] = F.case_name(c)
    # index restoration: the real _get_row_selection(keep_input_index=True) on a RangeIndex with symbolic start and step
    for ncols in (1, 2):
        for L in ((2, 3) if tier == "quick" else (2, 3, 4)):
            c = {"kind": "restore", "N": 4 if tier == "quick" else 5, "L": L, "ncols": ncols}
            c["name"] = RS.case_name(c)
            out.append(c)
        c = {"kind": "restore", "N": 4 if tier == "quick" else 5, "L": 4, "shape": [2, 2], "ncols": ncols}
        c["name"] = RS.case_name(c)
        out.append(c)
    for op in ("nth", "head", "tail"):
        for neg in ((False, True) if op == "nth" else (False,)):
            c = {"op": op, "G": 2 if tier == "quick" else 3, "inductive": True, "neg": neg}
            c["name"] = I.case_name(c)
            out.append(c)
    return out


def run_case(E, case):
    if case.get("inductive"):
        return I.run_case(E, case, PROP)
    if case.get("kind") == "restore":
        return common.run_generic(E, case, PROP, RS)
    return common.run_generic(E, case, PROP, F)


def replay(case, inputs, cand=None):
    if case.get("inductive"):
        return I.replay(case, inputs, cand)
    if case.get("kind") == "restore":
        return RS.replay(case, inputs, cand)
    return F.replay(case, inputs, cand)


def validate(E, seed, tier):
    cs = [c for c in cases("quick", seed) if not c.get("inductive") and not c.get("via") and c.get("kind") != "restore"]
    return F.validate_cases(E, cs, seed, 60 if tier == "quick" else 200)


META = {
    "glue": ['groupby_lib/groupby/core.py::_get_row_selection', 'groupby_lib/groupby/core.py::_validate_input_lengths_and_indexes', 'groupby_lib/groupby/core.py::_get_indexes_from_values',
             'groupby_lib/util.py::convert_data_to_arr_list_and_keys', 'groupby_lib/groupby/core.py::_maybe_squeeze_to_1d', 'groupby_lib/groupby/numba.py::find_first_n', 'groupby_lib/groupby/numba.py::find_last_n', 'groupby_lib/groupby/core.py::head',
             'groupby_lib/groupby/core.py::tail', 'groupby_lib/groupby/core.py::nth', 'groupby_lib/groupby/core.py::_unify_group_key_chunks'],
    "bounds": {"quick": {"N": 4, "G": 2, "n_nth": "-5..5", "n_head_tail": "0..5", "inductive": "row index and counts < 2^40, G=2"},
               "thorough": {"N": 7, "G": 3, "n_nth": "-8..8", "n_head_tail": "0..8", "inductive": "row index and counts < 2^40, G=3"}},
    "enumerated": ["n", "mask present or not"],
    "symbolic": ["group codes", "boolean mask bits", "index restoration: start and step of the RangeIndex, the selected positions, the values", "inductive step: row index, per-group visit counts, n, the row's code and mask bit"],
    "assumptions": ["kernel and glue families: positions only (GroupBy._get_row_selection is cut to 'return the positions')",
                    "index-restoration family: the real GroupBy._get_row_selection(keep_input_index=True) on the pandas contract model "
                    "(convert_data_to_arr_list_and_keys, _validate_input_lengths_and_indexes, boolean compress of the positions (forks), "
                    "RangeIndex take = start + step * position, DataFrame(dict).iloc[positions].set_index, _maybe_squeeze_to_1d); values are a "
                    "Series or a dict of Series over ONE RangeIndex with symbolic start (|start| <= 50) and step (0 < |step| <= 5); positions are "
                    "arbitrary distinct rows or -1 as a vector (nth) or a (groups, n) matrix with ascending rows (head/tail) - what the kernels return is "
                    "the other families' subject; grouping with sort off; the order across groups is left open, as in the property; "
                    "replayed through the public nth(0) / head(n) on a categorical key built to select exactly those positions",
                    "GroupBy.head/tail/nth: the real methods run on directly constructed states (contiguous codes; chunked codes with per-chunk "
                    "dictionaries, N=4 quick / 6 thorough); _get_row_selection is cut to 'return the positions'",
                    "inductive step: pre-state = any state satisfying 'seen = count wrapped into the counter dtype, out = what the "
                    "definition gives after that many rows'; such states are reachable by a group with that many rows, which is how a "
                    "counterexample is replayed", "NumPy/numba models (DESIGN 3.5)"],
    "outside": ["index restoration for indexes other than a RangeIndex (labelled, duplicated, Multi), the final sort_index of a sorting grouper, "
                "keep_input_index=False (the (group, rank) MultiIndex)", "N > 6 for the bounded part"],
}

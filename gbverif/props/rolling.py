"""Harness family for numba.rolling_sum/mean/min/max/shift/diff (-> _apply_rolling -> _rolling_*_1d)."""
import numpy as real_np
import z3
from ..values import SF, MIN_INT, is_sym, conc_bool, b_and, b_or, b_not, ite, same, total, Unsupported
from ..symarray import A, fdiv
from ..harness import jsonable, to_float_cells, dtype_range
from .reductions import is_null_val, approx_same, num, count_true, np_values, np_to_cells
from . import common
from . import cumulative as _cum

OPS = ("rolling_sum", "rolling_mean", "rolling_min", "rolling_max", "rolling_shift", "rolling_diff")


def case_name(c):
    s = f"{c['op']}/{c['dtype']}/N={c['N']},G={c['G']}/W={c['W']}"
    if c["op"] not in ("rolling_shift", "rolling_diff"):
        s += f",min_periods={c.get('min_periods')}"
    s += f"/mask={c['mask']['kind']}"
    if c.get("chunks"):
        s += "/valchunks=" + "+".join(map(str, c["chunks"]))
    if c.get("codes") is not None:
        s += "/codes=" + ",".join(map(str, c["codes"]))
    if c["mask"]["kind"] == "bool":
        s += "/bits=" + "".join("1" if b else "0" for b in c["mask"]["bits"])
    if c.get("via"):
        s = "GroupBy." + s + ("/key chunks=" + "+".join(map(str, c["lengths"])) if c.get("lengths") else "/contiguous key")
    return s


def unroll(case):
    return case["W"] + 2


def prepare_rt(case, rt):
    # temporal values must come back bit-exact from min/max/shift/diff: any store of a 64-bit integer into a float
    # array on the way is a side obligation (|v| <= 2^53), decided by the solver like every other obligation
    dt = real_np.dtype(case["dtype"])
    rt.exact_ints = dt.kind in "mM" and case["op"] in ("rolling_min", "rolling_max", "rolling_shift", "rolling_diff")


def build(case, inp):
    N, G, dt = case["N"], case["G"], real_np.dtype(case["dtype"])
    d = {}
    if case.get("codes") is not None:
        d["codes"] = list(case["codes"])
        if inp.concrete is None:
            inp.vars["k"] = ("const", list(case["codes"]), "int64")
    elif case.get("lengths"):
        from .gbcore import ChunkedState
        st = ChunkedState(inp, case["lengths"], [min(L, G) for L in case["lengths"]], G)
        d["codes"] = st.global_codes()
        d["state"] = st
    else:
        d["codes"] = inp.codes("k", N, G)
    d["values"] = inp.values("v", N, dt, sum_safe=case["op"] in ("rolling_sum", "rolling_mean", "rolling_diff"))
    mk = case["mask"]["kind"]
    if mk == "bool_sym":
        d["mask"] = inp.bools("m", N)
    elif mk == "bool":
        d["mask"] = list(case["mask"]["bits"])
    return d


def call_gb(E, case, d):
    """the public GroupBy.rolling_sum/mean/min/max, shift, diff on a directly constructed state; cuts as in gbcore.install_cuts"""
    from ..models import FakeSeries
    from .cumulative import _gb_state
    gb = _gb_state(E, case, d)
    dt = real_np.dtype(case["dtype"])
    vals = A(d["values"], dt).tag("input:values")
    mask = A(d["mask"], "bool").tag("input:mask") if "mask" in d else None
    op, W = case["op"], case["W"]
    if op == "rolling_shift":
        out = gb.shift(vals, W, mask)
    elif op == "rolling_diff":
        out = gb.diff(vals, W, mask)
    else:
        out = getattr(gb, op)(vals, window=W, min_periods=case.get("min_periods"), mask=mask)     # keyword call: the parameter order differs between methods
    return out.arr if isinstance(out, FakeSeries) else out


def call(E, case, d):
    if case.get("via"):
        return call_gb(E, case, d)
    nbm = E["gbnumba"]
    dt = real_np.dtype(case["dtype"])
    codes = A(d["codes"], "int64").tag("input:group_key")
    vals = A(d["values"], dt).tag("input:values")
    if case.get("chunks"):
        # a chunked values array: the kernels walk the chunks one after the other
        from ..models import FakeChunked
        parts, p0 = [], 0
        for L in case["chunks"]:
            parts.append(vals[p0:p0 + L])
            p0 += L
        vals = FakeChunked(parts)
    mask = A(d["mask"], "bool").tag("input:mask") if "mask" in d else None
    G, W = case["G"], case["W"]
    if case["op"] in ("rolling_shift", "rolling_diff"):
        return nbm[case["op"]](codes, vals, G, W, mask)
    return nbm[case["op"]](codes, vals, G, W, case.get("min_periods"), mask)


def expected_dtype(case):
    dt = real_np.dtype(case["dtype"])
    if dt.kind in "mM":
        if case["op"] == "rolling_diff":
            unit = real_np.datetime_data(dt)[0]
            return real_np.dtype(f"m8[{unit}]")
        return dt
    return real_np.dtype("float64")


def bads(case, d, out):
    op, N, W, dt = case["op"], case["N"], case["W"], real_np.dtype(case["dtype"])
    mp = case.get("min_periods")
    if mp is None:
        mp = W
    res = out.cells if isinstance(out, A) else list(out)
    bl = []
    if isinstance(out, A) and out.dtype != expected_dtype(case):
        bl.append((f"{op}.dtype({out.dtype}!={expected_dtype(case)})", True))
    codes, vals = d["codes"], d["values"]
    sel = d.get("mask", [True] * N)
    temporal = dt.kind in "mM"
    out_null = MIN_INT if temporal else float("nan")
    for i in range(N):
        active = b_and(codes[i] >= 0, sel[i])
        if conc_bool(active) is False:
            continue
        member = [b_and(sel[j], codes[j] == codes[i]) for j in range(i + 1)]
        # number of group rows strictly after j up to and including i
        later = [count_true(member[j + 1:]) for j in range(i + 1)]
        r = res[i]
        lab = f"{op}[{i}]"
        if op in ("rolling_shift", "rolling_diff"):
            src = [b_and(member[j], later[j] == W) for j in range(i + 1)]
            has = b_or(*src)
            opts = []
            for j in range(i + 1):
                if op == "rolling_shift":
                    exp = _out_val(vals[j], dt)
                    opts.append(b_and(src[j], same(r, exp)))
                else:
                    if temporal:
                        exp = num(vals[i]) - num(vals[j])
                        opts.append(b_and(src[j], same(r, exp)))
                    else:
                        exp = _f(vals[i]) - _f(vals[j])
                        opts.append(b_and(src[j], approx_same(r, exp)))
            okv = ite(has, b_or(*opts), same(r, out_null))
            if op == "rolling_diff" and temporal:
                # a difference involving NaT is not specified here
                nat = b_or(is_null_val(vals[i], dt), *[b_and(src[j], is_null_val(vals[j], dt)) for j in range(i + 1)])
                okv = b_or(nat, okv)
            bl.append((lab, b_and(active, b_not(okv))))
            continue
        inwin = [b_and(member[j], later[j] < W) for j in range(i + 1)]
        valid = [b_and(inwin[j], b_not(is_null_val(vals[j], dt))) for j in range(i + 1)]
        nn = count_true(valid)
        enough = nn >= mp
        if op in ("rolling_sum", "rolling_mean"):
            s = total([ite(valid[j], num(vals[j]), 0) for j in range(i + 1)], 0)
            if op == "rolling_mean":
                exp = fdiv(s, nn)
            else:
                exp = s
            if temporal:
                from ..symarray import coerce
                exp = coerce(exp if isinstance(exp, SF) or not is_sym(exp) else exp, real_np.dtype("int64"))
                okv = ite(enough, approx_same(r, exp), same(r, out_null))
            else:
                exp = exp if isinstance(exp, SF) else (SF.of(exp) if is_sym(exp) else float(exp))
                okv = ite(enough, approx_same(r, exp), same(r, out_null))
        else:
            is_mem = b_or(*[b_and(valid[j], same(r, _out_val(vals[j], dt))) for j in range(i + 1)])
            if op == "rolling_min":
                bnd = b_and(*[b_or(b_not(valid[j]), _le(r, _out_val(vals[j], dt))) for j in range(i + 1)])
            else:
                bnd = b_and(*[b_or(b_not(valid[j]), _le(_out_val(vals[j], dt), r)) for j in range(i + 1)])
            okv = ite(enough, b_and(is_mem, bnd), same(r, out_null))
        bl.append((lab, b_and(active, b_not(okv))))
    return bl


def _f(v):
    v = num(v)
    if isinstance(v, SF):
        return v
    if is_sym(v):
        return SF.of(v)
    return float(v)


def _out_val(v, dt):
    """an input value as it appears in the output array (ints are stored into float64 outputs unless temporal)"""
    if dt.kind in "mM":
        return v
    return _f(v)


def _le(a, b):
    a, b = num(a), num(b)
    if isinstance(a, SF) or isinstance(b, SF):
        return SF.of(a).le(b)
    return a <= b


def wits(case, d):
    N, W = case["N"], case["W"]
    codes, vals = d["codes"], d["values"]
    dt = real_np.dtype(case["dtype"])
    sel = d.get("mask", [True] * N)
    out = []
    if N > W:
        out.append(("window evicts a null value", b_and(*[codes[j] == 0 for j in range(W + 1)], *[sel[j] for j in range(W + 1)], is_null_val(vals[0], dt))))
        out.append(("window evicts the current extremum", b_and(*[codes[j] == 0 for j in range(W + 1)], *[sel[j] for j in range(W + 1)],
                                                             *[_lt(vals[j], vals[0]) for j in range(1, W + 1)])))
    if N >= 3:
        out.append(("null-key row between two rows of one group", b_and(codes[0] == 0, codes[1] == -1, codes[2] == 0)))
        if case["G"] > 1:
            out.append(("interleaved groups", b_and(codes[0] == 0, codes[1] == 1, codes[2] == 0)))
    if "mask" in d:
        out.append(("masked row inside a window", b_and(codes[0] == 0, codes[1] == 0, codes[2] == 0, sel[0], b_not(sel[1]), sel[2]) if N >= 3 else False))
    return out


def _lt(a, b):
    a, b = num(a), num(b)
    if isinstance(a, SF) or isinstance(b, SF):
        return SF.of(a).lt(b)
    return a < b


def signature(case, labels):
    lab = ":dtype" if labels and ".dtype" in labels[0] else ""
    return f"{case['op']}:{real_np.dtype(case['dtype']).kind}:mask={case['mask']['kind'] != 'none'}{lab}"


def real_call(case, conc):
    import groupby_lib.groupby.numba as rnb
    if case.get("via"):
        from .cumulative import real_gb_of
        gb = real_gb_of(case, conc)
        vals = np_values(to_float_cells(conc["v"]), case["dtype"])
        mask = real_np.array(conc["m"], dtype=bool) if case["mask"]["kind"] == "bool_sym" else None
        op, W = case["op"], case["W"]
        if op == "rolling_shift":
            return real_np.asarray(gb.shift(vals, W, mask))
        if op == "rolling_diff":
            return real_np.asarray(gb.diff(vals, W, mask))
        return real_np.asarray(getattr(gb, op)(vals, window=W, min_periods=case.get("min_periods"), mask=mask))
    codes = real_np.array(conc["k"], dtype="int64")
    vals = np_values(to_float_cells(conc["v"]), case["dtype"])
    if case.get("chunks"):
        import pyarrow as pa
        parts, p0 = [], 0
        for L in case["chunks"]:
            parts.append(pa.array(vals[p0:p0 + L], from_pandas=False))
            p0 += L
        vals = pa.chunked_array(parts)
    mk = case["mask"]["kind"]
    mask = None
    if mk == "bool_sym":
        mask = real_np.array(conc["m"], dtype=bool)
    elif mk == "bool":
        mask = real_np.array(case["mask"]["bits"], dtype=bool)
    G, W = case["G"], case["W"]
    if case["op"] in ("rolling_shift", "rolling_diff"):
        return getattr(rnb, case["op"])(codes, vals, G, W, mask)
    return getattr(rnb, case["op"])(codes, vals, G, W, case.get("min_periods"), mask)


def replay(case, conc, cand=None):
    import sys
    me = sys.modules[__name__]
    conc = common.fix_nans(conc)
    d = common.concrete_d(me, case, conc)
    try:
        out = real_call(case, conc)
    except Exception as e:      # noqa: BLE001
        return True, f"real call raised {type(e).__name__}: {e}"
    o = A(np_to_cells(out), out.dtype)
    failed = [lab for lab, b in bads(case, d, o) if conc_bool(b) is True]
    return bool(failed), {"real_output": jsonable(np_to_cells(out)), "real_dtype": str(out.dtype), "failed": failed, "inputs": jsonable(conc)}


def random_concrete(case, rnd):
    N, G, dt = case["N"], case["G"], real_np.dtype(case["dtype"])
    conc = {"k": list(case["codes"]) if case.get("codes") is not None else [rnd.randint(-1, G - 1) for _ in range(N)]}
    if dt.kind == "f":
        conc["v"] = [float("nan") if rnd.random() < 0.25 else float(rnd.randint(-6, 6)) / 2 for _ in range(N)]
    elif dt.kind in "mM":
        conc["v"] = [MIN_INT if rnd.random() < 0.2 else rnd.randint(-50, 50) for _ in range(N)]
    elif dt.kind == "b":
        conc["v"] = [rnd.random() < 0.5 for _ in range(N)]
    else:
        lo, hi = dtype_range(dt)
        conc["v"] = [rnd.randint(max(lo, -9), min(hi, 9)) for _ in range(N)]
    if case["mask"]["kind"] == "bool_sym":
        conc["m"] = [rnd.random() < 0.6 for _ in range(N)]
    return conc


def validate_cases(E, cases, seed, n):
    import sys
    return _cum.validate_cases(E, cases, seed, n, fam=sys.modules[__name__])

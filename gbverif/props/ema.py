"""Harness family for the EMA kernels and entry points (emas.py).  The group-code sequence is enumerated
(each sequence gives a polynomial identity), values / null flags / mask / alpha / timestamps stay symbolic."""
import itertools
import time
from fractions import Fraction
import numpy as real_np
import z3
from ..values import SF, MIN_INT, is_sym, conc_bool, b_and, b_or, b_not, ite, same, total, Unsupported, OutsideModel, to_real
from ..symarray import A, fdiv
from ..runtime import fresh_runtime, run_paths
from ..harness import Inputs, decide, jsonable, to_float_cells, solve_exists
from .reductions import approx_same, num, np_to_cells
from . import common

POW2 = z3.Function("pow2", z3.RealSort(), z3.RealSort())


class Ln2Scaled:
    """coef * ln 2"""
    def __init__(self, coef):
        self.coef = coef

    def __neg__(self):
        return Ln2Scaled(-_r(self.coef))

    def __mul__(self, o):
        return Ln2Scaled(_mulr(self.coef, o))

    __rmul__ = __mul__

    def __truediv__(self, o):
        return Ln2Scaled(_divr(self.coef, o))


def _r(x):
    if isinstance(x, SF):
        return x.v
    return to_real(x)


def _mulr(a, b):
    return _r(a) * _r(b)


def _divr(a, b):
    return _r(a) / _r(b)


class ExpModel:
    """np.log(2) -> ln2 ; np.exp(c * ln 2) -> 2^c : exact table for integer c in [-maxd, 0], otherwise an uninterpreted
    strictly positive function (terms are recorded so that monotonicity axioms can be instantiated)"""
    def __init__(self, maxd=0, table=True):
        self.maxd = maxd
        self.table = table
        self.terms = []

    def log(self, x):
        if is_sym(x) or isinstance(x, SF) or float(x) != 2.0:
            raise Unsupported("np.log of something other than 2")
        return Ln2Scaled(z3.RealVal(1))

    def exp(self, x):
        if not isinstance(x, Ln2Scaled):
            raise Unsupported("np.exp of a term that is not a multiple of ln 2")
        c = z3.simplify(_r(x.coef))
        self.terms.append(c)
        if z3.is_rational_value(c):
            q = Fraction(c.numerator_as_long(), c.denominator_as_long())
            if q.denominator == 1:
                return SF(False, z3.RealVal(Fraction(2) ** int(q)))
        e = POW2(c)
        if self.table:
            for m in range(self.maxd, -1, -1):
                e = z3.If(c == -m, z3.RealVal(Fraction(1, 2 ** m)), e)
        return SF(False, e)

    def axioms(self):
        ax = []
        for a in self.terms:
            ax.append(POW2(a) > 0)
            ax.append(z3.Implies(a == 0, POW2(a) == 1))
            ax.append(z3.Implies(a < 0, POW2(a) < 1))
            for b in self.terms:
                if a is not b:
                    ax.append(z3.Implies(a < b, POW2(a) < POW2(b)))
        return ax


def install_exp(rt, maxd=0, table=True):
    rt.div_obligation = True
    m = ExpModel(maxd, table)
    rt.model_exp = m.exp
    rt.model_log = m.log
    rt.exp_model = m
    return m


# ------------------------------------------------------------------ specification
def ema_spec_bads(codes, xs, sel, out, beta_pow, valid_of, label, check_null_rows=False):
    """beta_pow(j, i) = decay weight between group rows j < i (product of the per-step decays); returns bads.
    out_i * sum_j w_ij [valid_j] == sum_j w_ij x_j at valid rows; invalid rows repeat the previous output of the group."""
    N = len(codes)
    bl = []
    for i in range(N):
        g = codes[i]
        if g < 0:
            continue
        J = [j for j in range(i + 1) if codes[j] == g]
        valid = {j: valid_of(j) for j in J}
        o = out[i]
        # valid row: cross-multiplied weighted mean
        num_terms = [ite(valid[j], beta_pow(j, i) * _sf(xs[j]), _sf(0.0)) for j in J]
        den_terms = [ite(valid[j], beta_pow(j, i), _sf(0.0)) for j in J]
        numer = total(num_terms)
        denom = total(den_terms)
        ok_valid = same(_sf(o) * denom, numer) if (is_sym_any(o, numer, denom)) else approx_same(_fl(o) * _fl(denom), _fl(numer))
        ok_valid = b_and(b_not(_isnan(o)), ok_valid)
        prevs = [j for j in J if j < i]
        if prevs:
            ok_inv = same(_sf(o), _sf(out[prevs[-1]])) if is_sym_any(o, out[prevs[-1]]) else approx_same(o, out[prevs[-1]])
        else:
            ok_inv = _isnan(o)
        bl.append((f"{label}[{i}]", b_not(ite(valid[i], ok_valid, ok_inv))))
    return bl


def is_sym_any(*xs):
    return any(isinstance(x, SF) or is_sym(x) for x in xs)


def _sf(x):
    if isinstance(x, SF):
        return x
    if is_sym(x):
        return SF.of(x)
    if isinstance(x, Fraction):
        return SF(False, z3.RealVal(x))
    return SF.of(float(x))


def _fl(x):
    return float(x)


def _isnan(x):
    if isinstance(x, SF):
        return x.nan
    if isinstance(x, float):
        return x != x
    return False


def valid_fn(xs, sel, dt):
    def f(j):
        notnan = b_not(_isnan(xs[j])) if dt.kind == "f" else True
        return b_and(notnan, sel[j])
    return f


# ------------------------------------------------------------------ cases
def all_codes(N, G, allow_null=True):
    lo = -1 if allow_null else 0
    return list(itertools.product(range(lo, G), repeat=N))


def run_grouped(E, case, prop):
    """_ema_grouped over every code sequence; symbolic values / nulls / mask / alpha"""
    t0 = time.time()
    N, G, dt = case["N"], case["G"], real_np.dtype(case["dtype"])
    em = E["emas"]
    res = _blank()
    masked = case["mask"]
    for codes in all_codes(N, G, case.get("null_keys", True)):
        if case.get("first") is not None and codes[0] != case["first"]:
            continue
        inp = Inputs()
        xs = _values(inp, N, dt)
        alpha = inp.scalar_real("alpha")
        inp.pre.append(z3.And(alpha > 0, alpha <= 1))
        sel = inp.bools("m", N) if masked else [True] * N
        inp.vars["k"] = ("const", list(codes), "int64")
        if case.get("public"):
            # the public entry point ema_grouped(...) (argument checks, dispatch to a kernel) instead of the kernel itself
            from ..runtime import run_paths

            def call(codes=codes, xs=xs, sel=sel, alpha=alpha):
                from ..runtime import current as _cur
                _cur().div_obligation = True
                return em["ema_grouped"](A(list(codes), "int64").tag("input:group_key"), G, _varr(xs, dt).tag("input:values"), alpha=SF(False, alpha),
                                         mask=A(sel, "bool").tag("input:mask") if masked else None)
            try:
                paths = run_paths(call)
            except (Unsupported, OutsideModel):
                raise
            except Exception as e:      # noqa: BLE001 - valid arguments rejected / the entry point fails
                from ..harness import solve_exists
                r_, m_ = solve_exists(list(inp.pre) + list(getattr(e, "gb_pc", [])), True)
                res["verdict"] = "sat"
                res["subcases"] += 1
                if len(res["candidates"]) < 4:
                    res["candidates"].append({"signature": f"{prop}:raises:{type(e).__name__}:ema_grouped(public):mask={masked}", "case": dict(case, codes=list(codes)),
                                              "kind": "raises", "inputs": jsonable(inp.eval(m_)) if m_ is not None else {},
                                              "labels": [f"{type(e).__name__}: {str(e)[:150]}"]})
                continue
            if len(paths) > 8:
                raise Unsupported(f"ema_grouped forked into {len(paths)} paths on valid arguments")
        else:
            rt = fresh_runtime()
            rt.div_obligation = True
            out = em["_ema_grouped"](A(list(codes), "int64").tag("input:group_key"), _varr(xs, dt).tag("input:values"), SF(False, alpha), G,
                                     A(sel, "bool").tag("input:mask") if masked else None)
            paths = [([], out, rt)]
        beta = SF(False, 1 - alpha)

        def beta_pow(j, i, codes=codes, beta=beta):
            e = sum(1 for l in range(j + 1, i + 1) if codes[l] == codes[i])
            w = _sf(1.0)
            for _ in range(e):
                w = w * beta
            return w
        pre0 = list(inp.pre)
        for pc, out, rt in paths:          # every path of the entry point (a dispatch on a symbolic argument forks) is decided under its own condition
            inp.pre[:] = pre0 + list(pc)
            bl = ema_spec_bads(codes, xs, sel, out.cells, beta_pow, valid_fn(xs, sel, dt), "ema_grouped")
            if case.get("null_rows_constant"):
                for i in range(N):
                    if codes[i] < 0:
                        bl.append((f"ema_grouped.nullrow[{i}]", b_not(_isnan(out.cells[i]))))
            _decide_into(res, inp, bl, rt, case, prop, {"codes": list(codes)}, sig=f"ema_grouped{'(public)' if case.get('public') else ''}:{dt.kind}:mask={masked}")
        inp.pre[:] = pre0
    res["symex_s"] = time.time() - t0 - res["solver_s"]
    return _finish(res, E)


def _mask_gap_possible(codes):
    return True


def run_timed(E, case, prop):
    """_ema_grouped_timed: all rows on one timeline with an arbitrary (symbolic, any sign) origin and enumerated gaps
    (multiples of the halflife), so that every decay factor is an exact power of two"""
    t0 = time.time()
    N, G, dt = case["N"], case["G"], real_np.dtype(case["dtype"])
    em = E["emas"]
    H = case.get("halflife", 1000)
    res = _blank()
    masked = case["mask"]
    gaps = case.get("gaps", (0, 1, 2))
    seqs = [c for c in all_codes(N, G, case.get("null_keys", True)) if case.get("first") is None or c[0] == case["first"]]
    for codes in seqs:
        for ds in itertools.product(gaps, repeat=N - 1):
            inp = Inputs()
            xs = _values(inp, N, dt)
            sel = inp.bools("m", N) if masked else [True] * N
            origin = inp.scalar_int("t0", -10**6, 10**6)
            offs = [0] + list(itertools.accumulate(ds))
            ts = [origin + H * o for o in offs]
            inp.vars["k"] = ("const", list(codes), "int64")
            inp.vars["offsets"] = ("const", offs, "int64")
            rt = fresh_runtime()
            install_exp(rt, maxd=0)
            out = em["_ema_grouped_timed"](A(list(codes), "int64").tag("input:group_key"), _varr(xs, dt).tag("input:values"),
                                           A(ts, "int64").tag("input:times"), H, G, A(sel, "bool").tag("input:mask") if masked else None)

            def beta_pow(j, i, offs=offs):
                return SF(False, z3.RealVal(Fraction(1, 2 ** (offs[i] - offs[j]))))
            bl = ema_spec_bads(codes, xs, sel, out.cells, beta_pow, valid_fn(xs, sel, dt), "ema_grouped_timed")
            _decide_into(res, inp, bl, rt, case, prop, {"codes": list(codes), "halflife": H, "offsets": offs},
                         sig=f"ema_grouped_timed:{dt.kind}:mask={masked}")
    res["symex_s"] = time.time() - t0 - res["solver_s"]
    return _finish(res, E)


def _values(inp, N, dt):
    """float64: symbolic reals with NaN flags.  int64: the kernels' arithmetic is the same source, only np.isnan(int) is
    always False - modelled as reals without NaN (integrality is not needed for a polynomial identity)"""
    if dt.kind == "f":
        return inp.values("x", N, dt)
    return inp.floats("x", N, nullable=False)


def _varr(xs, dt):
    return A(xs, "float64")


def run_ungrouped(E, case, prop):
    """_ema_adjusted vs the weighted-mean definition, and grouped(single group) == ungrouped from the first valid row on"""
    t0 = time.time()
    N, dt = case["N"], real_np.dtype(case["dtype"])
    em = E["emas"]
    res = _blank()
    inp = Inputs()
    xs = _values(inp, N, dt)
    alpha = inp.scalar_real("alpha")
    inp.pre.append(z3.And(alpha > 0, alpha <= 1))
    rt = fresh_runtime()
    rt.div_obligation = True
    codes = [0] * N
    og = em["_ema_grouped"](A(codes, "int64"), _varr(xs, dt).tag("input:values"), SF(False, alpha), 1, None)
    if case.get("public"):
        # the public entry point ema(values, alpha=...) (argument checks, dispatch) instead of the kernel
        from ..runtime import run_paths

        def call():
            from ..runtime import current as _cur
            _cur().div_obligation = True
            return em["ema"](_varr(xs, dt).tag("input:values"), alpha=SF(False, alpha))
        try:
            paths = run_paths(call)
        except (Unsupported, OutsideModel):
            raise
        except Exception as e:      # noqa: BLE001 - valid arguments rejected / the entry point fails
            from ..harness import solve_exists
            r_, m_ = solve_exists(list(inp.pre) + list(getattr(e, "gb_pc", [])), True)
            res["verdict"] = "sat"
            res["subcases"] += 1
            res["candidates"].append({"signature": f"{prop}:raises:{type(e).__name__}:ema(public):{dt.kind}", "case": dict(case), "kind": "raises",
                                      "inputs": jsonable(inp.eval(m_)) if m_ is not None else {}, "labels": [f"{type(e).__name__}: {str(e)[:150]}"]})
            return _finish(res, E)
        if len(paths) > 8:
            raise Unsupported(f"ema forked into {len(paths)} paths on valid arguments")
    else:
        paths = [([], em["_ema_adjusted"](_varr(xs, dt).tag("input:values"), SF(False, alpha)), None)]
    pre0 = list(inp.pre)
    ob0 = list(rt.obligations)
    for pc, ou, rt2 in paths:
        inp.pre[:] = pre0 + list(pc)
        rt.obligations[:] = ob0 + (list(rt2.obligations) if rt2 is not None else [])
        bl = []
        seen_valid = False
        for i in range(N):
            seen_valid = b_or(seen_valid, b_not(_isnan(xs[i])) if dt.kind == "f" else True)
            bl.append((f"single-group grouped == ungrouped[{i}]", b_and(seen_valid, b_not(same(_sf(og.cells[i]), _sf(ou.cells[i]))))))
        _decide_into(res, inp, bl, rt, case, prop, {}, sig=f"ema_single_group_vs_ungrouped:{dt.kind}")
    inp.pre[:] = pre0
    res["symex_s"] = time.time() - t0 - res["solver_s"]
    return _finish(res, E)


def run_ungrouped_timed(E, case, prop):
    """_ema_time_weighted (the ungrouped, time-weighted entry) == _ema_grouped_timed of a single group, from the first valid row on"""
    t0 = time.time()
    N = case["N"]
    em = E["emas"]
    res = _blank()
    H = 1000
    for ds in itertools.product((0, 1, 2), repeat=N - 1):
        inp = Inputs()
        xs = inp.values("x", N, "float64")
        origin = inp.scalar_int("t0", -10**6, 10**6)
        offs = [0] + list(itertools.accumulate(ds))
        ts = [origin + H * o for o in offs]
        inp.vars["offsets"] = ("const", offs, "int64")
        rt = fresh_runtime()
        install_exp(rt, maxd=0)
        og = em["_ema_grouped_timed"](A([0] * N, "int64"), A(xs, "float64").tag("input:values"), A(ts, "int64").tag("input:times"), H, 1, None)
        ou = em["_ema_time_weighted"](A(xs, "float64").tag("input:values"), A(ts, "int64").tag("input:times"), H)
        bl = []
        seen_valid = False
        for i in range(N):
            seen_valid = b_or(seen_valid, b_not(_isnan(xs[i])))
            bl.append((f"time-weighted: single-group grouped == ungrouped[{i}]", b_and(seen_valid, b_not(same(_sf(og.cells[i]), _sf(ou.cells[i]))))))
        _decide_into(res, inp, bl, rt, case, prop, {"offsets": offs}, sig="ema_timed_single_group_vs_ungrouped")
    res["symex_s"] = time.time() - t0 - res["solver_s"]
    return _finish(res, E)


def run_halflife_api(E, case, prop):
    """ema(halflife=h) and ema_grouped(halflife=h) must both use alpha = 1 - 2^(-1/h), for every real h > 0
    (native run of the real parameter handling; pd.Timedelta contract stub; exp as pow2; kernels replaced by recorders)"""
    t0 = time.time()
    em = E["emas"]
    res = _blank()
    inp = Inputs()
    h = inp.scalar_real("h")
    inp.pre.append(h > 0)
    captured = {}
    saved = {k: em[k] for k in ("_ema_grouped", "_ema_adjusted", "pd")}

    class Timedelta:
        def __init__(self, x):
            if is_sym(x) or isinstance(x, SF):
                xv = x.v if isinstance(x, SF) else x
                self.value = z3.ToInt(xv) if z3.is_real(xv) else xv       # contract: integer nanoseconds, truncating
            elif isinstance(x, (int, float)):
                self.value = int(x)
            else:
                raise OutsideModel("pd.Timedelta of a string")

    class PDX:
        Series = E.pd.Series

    PDX.Timedelta = Timedelta
    vals = A([SF(False, z3.RealVal(1)), SF(False, z3.RealVal(2))], "float64")
    keys = A([0, 0], "int64")
    models = []
    try:
        em["pd"] = PDX
        em["_ema_grouped"] = lambda **kw: captured.__setitem__("grouped", kw["alpha"]) or A([0.0, 0.0], "float64")
        em["_ema_adjusted"] = lambda arr, alpha: captured.__setitem__("ungrouped", alpha) or A([0.0, 0.0], "float64")

        def scenario():
            rt = __import__("gbverif.runtime", fromlist=["current"]).current()
            models.append(install_exp(rt, table=False))
            captured.clear()
            out = {}
            for name, fn in (("grouped", lambda: em["ema_grouped"](keys, 1, vals, halflife=SF(False, h))),
                             ("ungrouped", lambda: em["ema"](vals, halflife=SF(False, h)))):
                try:
                    fn()
                    out[name] = ("ok", captured.get(name))
                except ValueError as e:
                    out[name] = ("ValueError", str(e))
            return out
        paths = run_paths(scenario)
    finally:
        for k, v in saved.items():
            em[k] = v
    bl = []
    axioms = []
    for m in models:
        axioms += m.axioms()
    want = SF(False, 1 - POW2(-1 / h))
    for pc, out, rt in paths:
        pcz = b_and(*pc) if pc else True
        for name in ("grouped", "ungrouped"):
            st, al = out[name]
            if st != "ok":
                bl.append((f"{name}: raises {st} for a positive halflife", pcz))
            else:
                bl.append((f"{name}: alpha != 1 - 2^(-1/h)", b_and(pcz, b_not(same(_sf(al), want)))))
    # the reference term -1/h participates in the monotonicity axioms as well
    m0 = ExpModel(table=False)
    m0.terms = [z3.simplify(-1 / h)] + [t for m in models for t in m.terms]
    rt = fresh_runtime()
    rt.pre = m0.axioms()
    _decide_into(res, inp, bl, rt, case, prop, {}, sig="ema_halflife_alpha_relation", small=False)
    res["symex_s"] = time.time() - t0 - res["solver_s"]
    res["paths"] = len(paths)
    return _finish(res, E)


def run_timed_api(E, case, prop):
    """ema_grouped(..., halflife='1<unit>', times=<M8[unit] array>) through the real glue: the decay between two rows that
    are d real-time units apart must be 2^-d, whatever the array's time unit"""
    t0 = time.time()
    em = E["emas"]
    unit = case["unit"]
    res = _blank()
    ns_per = {"ns": 1, "us": 10**3, "ms": 10**6, "s": 10**9}[unit]
    saved_pd = em["pd"]

    class Timedelta:
        def __init__(self, x):
            if isinstance(x, str):
                table = {"1ns": 1, "1us": 10**3, "1ms": 10**6, "1s": 10**9, "1500us": 1_500_000, "500ms": 500_000_000, "2500ms": 2_500_000_000}
                if x not in table:
                    raise OutsideModel(f"pd.Timedelta({x!r})")
                self.value = table[x]
            else:
                self.value = int(x)

    class PDX:
        Series = E.pd.Series
        Index = E.pd.Index

    PDX.Timedelta = Timedelta
    N = case["N"]
    hl = case.get("halflife", f"1{unit}")
    hl_ns = {"1ns": 1, "1us": 10**3, "1ms": 10**6, "1s": 10**9, "1500us": 1_500_000, "500ms": 500_000_000, "2500ms": 2_500_000_000}[hl]
    dmul = case.get("dmul", 1)                 # gaps are multiples of dmul ticks so that gap / halflife is a whole number
    per_tick = Fraction(ns_per * dmul, hl_ns)  # halflives per allowed gap step
    if per_tick.denominator != 1:
        raise Unsupported("gap / halflife must be a whole number")
    per_tick = int(per_tick)
    for codes in all_codes(N, 1, False):
        inp = Inputs()
        xs = inp.values("x", N, "float64", nullable=False)
        ts = inp.ints("t", N, -10**6, 10**6)
        ds = inp.ints("d", N, 0, 3)
        inp.vars["k"] = ("const", list(codes), "int64")
        for i in range(1, N):
            inp.pre.append(ts[i] == ts[i - 1] + ds[i] * dmul)        # d * dmul units of the array's own time unit
        rt = fresh_runtime()
        install_exp(rt, maxd=3 * N * per_tick)
        try:
            em["pd"] = PDX
            out = em["ema_grouped"](A(list(codes), "int64"), 1, A(xs, "float64").tag("input:values"), halflife=hl,
                                    times=A(ts, f"M8[{unit}]").tag("input:times"))
        except (Unsupported, OutsideModel):
            raise
        except Exception as e:      # noqa: BLE001 - a valid halflife / times combination is rejected
            from ..harness import solve_exists
            r_, m_ = solve_exists(list(inp.pre), True)
            res["verdict"] = "sat"
            res["subcases"] += 1
            if len(res["candidates"]) < 3:
                res["candidates"].append({"signature": f"{prop}:raises:{type(e).__name__}:ema_timed_unit:{unit}:{hl}", "case": dict(case, codes=list(codes)), "kind": "raises",
                                          "inputs": jsonable(inp.eval(m_)) if m_ is not None else {}, "labels": [f"{type(e).__name__}: {str(e)[:150]}"]})
            continue
        finally:
            em["pd"] = saved_pd

        def beta_pow(j, i, ts=ts):
            diff = ts[i] - ts[j]          # in ticks of the array's unit; (diff / dmul) * per_tick halflives
            e = z3.RealVal(0)
            for m in range(3 * N, -1, -1):
                e = z3.If(diff == m * dmul, z3.RealVal(Fraction(1, 2 ** (m * per_tick))), e)
            return SF(False, e)
        bl = ema_spec_bads(codes, xs, [True] * N, out.cells, beta_pow, lambda j: True, f"ema_grouped(times=M8[{unit}])")
        _decide_into(res, inp, bl, rt, case, prop, {"codes": list(codes), "unit": unit}, sig=f"ema_timed_unit:{unit}:{hl}")
    res["symex_s"] = time.time() - t0 - res["solver_s"]
    return _finish(res, E)


# ------------------------------------------------------------------ plumbing
def _blank():
    return {"verdict": "unsat", "solver_s": 0.0, "symex_s": 0.0, "n_queries": 0, "obligations": 0, "failed_obligations": [],
            "witnesses": {}, "candidates": [], "subcases": 0}


def _decide_into(res, inp, bl, rt, case, prop, extra, sig, small=True):
    dec = decide(inp, bl, rt, prefer_small=small, timeout_ms=60_000)
    res["subcases"] += 1
    res["solver_s"] += dec.solver_s
    res["n_queries"] += dec.n_queries
    res["obligations"] += dec.obligations
    if dec.verdict == "unknown" and res["verdict"] != "sat":
        res["verdict"] = "unknown"
        res["detail"] = f"unknown at {extra}"
    if dec.verdict == "sat" or dec.failed_obligations:
        res["verdict"] = "sat"
        model = dec.model if dec.verdict == "sat" else dec.ob_model
        labels = dec.which[:4] + [f"{a}@{b}" for a, b in dec.failed_obligations[:4]]
        if len(res["candidates"]) < 6:
            res["candidates"].append({"signature": f"{prop}:{sig}", "case": dict(case, **extra), "inputs": jsonable(model),
                                      "kind": "property", "labels": labels})
        res["failed_obligations"] += dec.failed_obligations


def _finish(res, E):
    res["encoded"] = sorted(E.encoded)
    res["witnesses"] = {f"{res['subcases']} enumerated code sequences decided": True} if res["subcases"] > 1 else {}
    return res


# ------------------------------------------------------------------ replay on the real code
def _ref(codes, xs, sel, weight, is_float=True):
    N = len(codes)
    out = [float("nan")] * N
    for i in range(N):
        g = codes[i]
        if g < 0:
            continue
        J = [j for j in range(i + 1) if codes[j] == g]
        valid = {j: (not (is_float and xs[j] != xs[j])) and bool(sel[j]) for j in J}
        if valid[i]:
            num_ = sum(weight(j, i) * float(xs[j]) for j in J if valid[j])
            den_ = sum(weight(j, i) for j in J if valid[j])
            out[i] = num_ / den_
        else:
            prev = [j for j in J if j < i]
            out[i] = out[prev[-1]] if prev else float("nan")
    return out


def _cmp(real, ref, codes, null_rows_nan=False):
    bad = []
    for i, (a, b) in enumerate(zip(real, ref)):
        if codes[i] < 0:
            if null_rows_nan and a == a:
                bad.append(i)
            continue
        if not approx_same(float(a), float(b)):
            bad.append(i)
    return bad


def replay(case, conc, cand=None):
    import groupby_lib.emas as rem
    conc = common.fix_nans(conc)
    v = case["variant"]
    if v == "layout":
        return replay_layout(case, conc)
    try:
        if v in ("grouped", "timed"):
            codes = case["codes"]
            dt = real_np.dtype(case["dtype"])
            N = len(codes)
            xs = [float(c) if dt.kind == "f" else int(c) for c in to_float_cells(conc["x"])]
            sel = conc.get("m", [True] * N)
            arr = real_np.array(xs, dtype=dt)
            mask = real_np.array(sel, dtype=bool) if case["mask"] else None
            k = real_np.array(codes, dtype="int64")
            if v == "grouped":
                alpha = float(conc["alpha"][0])
                if case.get("public"):
                    out = rem.ema_grouped(k, case["G"], arr, alpha=alpha, mask=mask)
                else:
                    out = rem._ema_grouped(k, arr, alpha, case["G"], mask)
                beta = 1 - alpha
                ref = _ref(codes, xs, sel, lambda j, i: beta ** sum(1 for l in range(j + 1, i + 1) if codes[l] == codes[i]), dt.kind == "f")
            else:
                H = case["halflife"]
                t = [int(conc["t0"][0]) + H * o for o in case["offsets"]]
                out = rem._ema_grouped_timed(k, arr, real_np.array(t, dtype="int64"), H, case["G"], mask)
                ref = _ref(codes, xs, sel, lambda j, i: 2.0 ** (-(t[i] - t[j]) / H), dt.kind == "f")
            bad = _cmp(list(out), ref, codes, case.get("null_rows_constant", False))
            return bool(bad), {"real": jsonable(list(out)), "reference": jsonable(ref), "wrong_rows": bad, "inputs": jsonable(conc), "codes": codes}
        if v == "ungrouped":
            dt = real_np.dtype(case["dtype"])
            xs = [float(c) if dt.kind == "f" else int(c) for c in to_float_cells(conc["x"])]
            arr = real_np.array(xs, dtype=dt)
            alpha = float(conc["alpha"][0])
            og = rem._ema_grouped(real_np.zeros(len(xs), dtype="int64"), arr, alpha, 1, None)
            ou = rem.ema(arr, alpha=alpha) if case.get("public") else rem._ema_adjusted(arr, alpha)
            started = False
            bad = []
            for i in range(len(xs)):
                started = started or not (dt.kind == "f" and xs[i] != xs[i])
                if started and not approx_same(float(og[i]), float(ou[i])):
                    bad.append(i)
            return bool(bad), {"grouped": jsonable(list(og)), "ungrouped": jsonable(list(ou)), "wrong_rows": bad}
        if v == "ungrouped_timed":
            xs = [float(c) for c in to_float_cells(conc["x"])]
            H = 1000
            t = [int(conc["t0"][0]) + H * o for o in case["offsets"]]
            og = rem._ema_grouped_timed(real_np.zeros(len(xs), dtype="int64"), real_np.array(xs), real_np.array(t, dtype="int64"), H, 1, None)
            ou = rem._ema_time_weighted(real_np.array(xs), real_np.array(t, dtype="int64"), H)
            started = False
            bad = []
            for i in range(len(xs)):
                started = started or xs[i] == xs[i]
                if started and not approx_same(float(og[i]), float(ou[i])):
                    bad.append(i)
            return bool(bad), {"grouped": jsonable(list(og)), "ungrouped": jsonable(list(ou)), "wrong_rows": bad, "x": jsonable(xs), "t": t}
        if v == "halflife_api":
            h = float(conc["h"][0])
            vals = real_np.array([1.0, 2.0, 4.0])
            keys = real_np.zeros(3, dtype="int64")
            want = rem.ema(vals, alpha=1 - 2 ** (-1 / h))
            res = {}
            bad = []
            for name, fn in (("ema", lambda: rem.ema(vals, halflife=h)), ("ema_grouped", lambda: rem.ema_grouped(keys, 1, vals, halflife=h))):
                try:
                    o = fn()
                    res[name] = jsonable(list(o))
                    if not all(approx_same(float(a), float(b)) for a, b in zip(o, want)):
                        bad.append(name)
                except Exception as e:      # noqa: BLE001
                    res[name] = f"raise {type(e).__name__}: {e}"
                    bad.append(name)
            return bool(bad), {"halflife": h, "expected(alpha=1-2^(-1/h))": jsonable(list(want)), "got": res, "differs": bad}
        if v == "timed_api":
            codes = case["codes"]
            unit = case["unit"]
            xs = [float(c) for c in to_float_cells(conc["x"])]
            t = [int(x) for x in conc["t"]]
            hl = case.get("halflife", f"1{unit}")
            hl_ns = {"1ns": 1, "1us": 10**3, "1ms": 10**6, "1s": 10**9, "1500us": 1_500_000, "500ms": 500_000_000, "2500ms": 2_500_000_000}[hl]
            ns_per = {"ns": 1, "us": 10**3, "ms": 10**6, "s": 10**9}[unit]
            out = rem.ema_grouped(real_np.array(codes, dtype="int64"), 1, real_np.array(xs), halflife=hl,
                                  times=real_np.array(t, dtype="int64").view(f"M8[{unit}]"))
            ref = _ref(codes, xs, [True] * len(xs), lambda j, i: 2.0 ** (-(t[i] - t[j]) * ns_per / hl_ns))
            bad = _cmp(list(out), ref, codes)
            return bool(bad), {"real": jsonable(list(out)), "reference": jsonable(ref), "wrong_rows": bad, "t": t, "unit": unit}
    except Exception as e:      # noqa: BLE001
        return True, f"real call raised {type(e).__name__}: {e}"
    raise Unsupported(v)


def validate(E, seed, n):
    """concrete shadow run of the kernels vs the compiled kernels"""
    import random
    import groupby_lib.emas as rem
    rnd = random.Random(seed)
    em = E["emas"]
    mism = []
    done = 0
    for _ in range(n):
        N = rnd.randint(2, 6)
        G = rnd.randint(1, 3)
        codes = [rnd.randint(0, G - 1) for _ in range(N)]
        xs = [float("nan") if rnd.random() < 0.2 else rnd.randint(-8, 8) / 2 for _ in range(N)]
        sel = [rnd.random() < 0.7 for _ in range(N)]
        alpha = rnd.choice([0.25, 0.5, 0.75, 1.0])
        rt = fresh_runtime()
        rt.symbolic = False
        sh = em["_ema_grouped"](A(codes, "int64"), A(xs, "float64"), alpha, G, A(sel, "bool")).cells
        re_ = list(rem._ema_grouped(real_np.array(codes), real_np.array(xs), alpha, G, real_np.array(sel)))
        done += 1
        if not all(approx_same(float(a), float(b)) for a, b in zip(sh, re_)):
            mism.append({"case": "_ema_grouped", "codes": codes, "x": jsonable(xs), "m": sel, "shadow": jsonable(sh), "real": jsonable(re_)})
        sh = em["_ema_adjusted"](A(xs, "float64"), alpha).cells
        re_ = list(rem._ema_adjusted(real_np.array(xs), alpha))
        done += 1
        if not all(approx_same(float(a), float(b)) for a, b in zip(sh, re_)):
            mism.append({"case": "_ema_adjusted", "x": jsonable(xs), "shadow": jsonable(sh), "real": jsonable(re_)})
    return {"cases": done, "mismatches": mism}


# ------------------------------------------------------------------ C05: mask vs filter-first / mask vs NaN-substitution
def _in_decay_class(codes, bits):
    """an unselected row of a group lies strictly between two selected rows of that group"""
    N = len(codes)
    for b in range(N):
        if bits[b] or codes[b] < 0:
            continue
        g = codes[b]
        if any(bits[a] and codes[a] == g for a in range(b)) and any(bits[c] and codes[c] == g for c in range(b + 1, N)):
            return True
    return False


def run_mask_relations(E, case, prop):
    t0 = time.time()
    N, G = case["N"], case["G"]
    timed = case["variant"] == "mask_timed"
    em = E["emas"]
    res = _blank()
    dt = real_np.dtype("float64")
    H = 1000
    for codes in all_codes(N, G, False):
        if case.get("first") is not None and codes[0] != case["first"]:
            continue
        for bits in itertools.product([True, False], repeat=N):
            if all(bits) or not any(bits):
                continue
            keep = [i for i in range(N) if bits[i]]
            gapsets = itertools.product((0, 1, 2), repeat=N - 1) if timed else [None]
            for ds in gapsets:
                inp = Inputs()
                xs = inp.values("x", N, dt)
                inp.vars["k"] = ("const", list(codes), "int64")
                inp.vars["bits"] = ("const", [int(b) for b in bits], "int64")
                rt = fresh_runtime()
                rt.div_obligation = True
                if timed:
                    install_exp(rt, maxd=0)
                    origin = inp.scalar_int("t0", -10**6, 10**6)
                    offs = [0] + list(itertools.accumulate(ds))
                    ts = [origin + H * o for o in offs]
                    inp.vars["offsets"] = ("const", offs, "int64")

                    def kern(cs, vs, tt, mk):
                        return em["_ema_grouped_timed"](A(list(cs), "int64"), A(vs, dt), A(tt, "int64"), H, G, A(list(mk), "bool") if mk is not None else None)
                    om = kern(codes, xs, ts, bits)
                    of = kern([codes[i] for i in keep], [xs[i] for i in keep], [ts[i] for i in keep], None)
                    on = kern(codes, [xs[i] if bits[i] else float("nan") for i in range(N)], ts, None)
                else:
                    alpha = inp.scalar_real("alpha")
                    inp.pre.append(z3.And(alpha > 0, alpha <= 1))

                    def kern(cs, vs, mk):
                        return em["_ema_grouped"](A(list(cs), "int64"), A(vs, dt), SF(False, alpha), G, A(list(mk), "bool") if mk is not None else None)
                    om = kern(codes, xs, bits)
                    of = kern([codes[i] for i in keep], [xs[i] for i in keep], None)
                    on = kern(codes, [xs[i] if bits[i] else float("nan") for i in range(N)], None)
                extra = {"codes": list(codes), "bits": [bool(b) for b in bits]}
                if timed:
                    extra["offsets"] = offs
                # relation A: a masked row behaves like a row whose value is null
                blA = [(f"mask == null-substitution[row {i}]", b_not(same(_sf(om.cells[i]), _sf(on.cells[i])))) for i in range(N)]
                _decide_into(res, inp, blA, rt, case, prop, dict(extra, relation="nan_substitution"),
                             sig=f"ema_{'timed_' if timed else ''}mask_is_null_substitution")
                # relation B: at selected rows, the masked run equals the run on the filtered data
                blB = [(f"mask == filter-first[row {i}]", b_not(same(_sf(om.cells[i]), _sf(of.cells[r])))) for r, i in enumerate(keep)]
                rt2 = fresh_runtime()
                inclass = (not timed) and _in_decay_class(codes, bits)
                _decide_into(res, inp, blB, rt2, case, prop, dict(extra, relation="filter_first"),
                             sig=("ema_grouped:masked_rows_decay" if inclass else f"ema_{'timed_' if timed else ''}mask_is_filter"))
    res["symex_s"] = time.time() - t0 - res["solver_s"]
    return _finish(res, E)


def replay_mask_relations(case, conc):
    import groupby_lib.emas as rem
    conc = common.fix_nans(conc)
    codes, bits = case["codes"], case["bits"]
    N = len(codes)
    keep = [i for i in range(N) if bits[i]]
    xs = [float(c) for c in to_float_cells(conc["x"])]
    k = real_np.array(codes, dtype="int64")
    timed = case["variant"] == "mask_timed"
    if timed:
        H = 1000
        t = [int(conc["t0"][0]) + H * o for o in case["offsets"]]

        def kern(cs, vs, tt, mk):
            return list(rem._ema_grouped_timed(real_np.array(cs, dtype="int64"), real_np.array(vs, dtype=float), real_np.array(tt, dtype="int64"), H,
                                               case["G"], real_np.array(mk, dtype=bool) if mk is not None else None))
        om = kern(codes, xs, t, bits)
        other = kern([codes[i] for i in keep], [xs[i] for i in keep], [t[i] for i in keep], None) if case["relation"] == "filter_first" else \
            kern(codes, [xs[i] if bits[i] else float("nan") for i in range(N)], t, None)
    else:
        alpha = float(conc["alpha"][0])

        def kern(cs, vs, mk):
            return list(rem._ema_grouped(real_np.array(cs, dtype="int64"), real_np.array(vs, dtype=float), alpha, case["G"],
                                         real_np.array(mk, dtype=bool) if mk is not None else None))
        om = kern(codes, xs, bits)
        other = kern([codes[i] for i in keep], [xs[i] for i in keep], None) if case["relation"] == "filter_first" else \
            kern(codes, [xs[i] if bits[i] else float("nan") for i in range(N)], None)
    if case["relation"] == "filter_first":
        bad = [i for r, i in enumerate(keep) if not approx_same(float(om[i]), float(other[r]))]
    else:
        bad = [i for i in range(N) if not approx_same(float(om[i]), float(other[i]))]
    return bool(bad), {"masked": jsonable(om), case["relation"]: jsonable(other), "differ_at": bad, "codes": codes, "mask": bits, "x": jsonable(xs)}



# ------------------------------------------------------------------ GroupBy.ema(index_by_groups=True): the group-sorted layout
def run_layout(E, case, prop):
    """the numbers of the group-sorted layout are those of the row-aligned layout, listed group by group (labels in any order),
    rows in original order inside a group, rows with a null key left out"""
    from .gbcore import make_gb
    from ..models import FakeSeries
    t0 = time.time()
    N, G = case["N"], case["G"]
    res = _blank()
    for codes in all_codes(N, G, True):
        if case.get("first") is not None and codes[0] != case["first"]:
            continue
        nn = sum(1 for c in codes if c >= 0)
        if nn == 0:
            continue
        for order in case["orders"]:
            for mbits in case["masks"]:
                inp = Inputs()
                xs = inp.values("x", N, "float64")
                inp.vars["k"] = ("const", list(codes), "int64")
                rt = fresh_runtime()
                rt.div_obligation = True
                rt.size_hints = [nn]

                def gb_():
                    gb = make_gb(E, G, codes=A(list(codes), "int64"))
                    if list(order) != sorted(order):
                        gb.__dict__["_labels_argsort"] = A(list(order), "int64")
                        gb._sort = True
                        gb._index_is_sorted = False
                    return gb
                mask = A(list(mbits), "bool") if mbits is not None else None
                extra = {"codes": list(codes), "label_order": list(order), "mask": list(mbits) if mbits is not None else None}
                try:
                    o_sorted = gb_().ema(A(xs, "float64").tag("input:values"), alpha=0.5, mask=mask, index_by_groups=True)
                    o_rows = gb_().ema(A(xs, "float64").tag("input:values"), alpha=0.5, mask=mask)
                except (Unsupported, OutsideModel):
                    raise
                except Exception as e:      # noqa: BLE001
                    res["verdict"] = "sat"
                    res["subcases"] += 1
                    if len(res["candidates"]) < 3:
                        res["candidates"].append({"signature": f"{prop}:raises:{type(e).__name__}:ema_layout", "case": dict(case, **extra, variant="layout"),
                                                  "inputs": {"x": [float(i + 1) for i in range(N)]}, "kind": "raises", "labels": [f"{type(e).__name__}: {str(e)[:160]}"]})
                    continue
                o_sorted = o_sorted.arr if isinstance(o_sorted, FakeSeries) else o_sorted
                o_rows = o_rows.arr if isinstance(o_rows, FakeSeries) else o_rows
                want = sorted([i for i in range(N) if codes[i] >= 0], key=lambda i: (list(order).index(codes[i]), i))
                bl = []
                if len(o_sorted) != len(want):
                    bl.append((f"group-sorted layout has {len(o_sorted)} rows, expected {len(want)}", True))
                else:
                    for pos, i in enumerate(want):
                        bl.append((f"position {pos} holds the EMA of row {i}", b_not(same(_sf(o_sorted.cells[pos]), _sf(o_rows.cells[i])))))
                _decide_into(res, inp, bl, rt, dict(case, variant="layout"), prop, extra, sig="ema_group_sorted_layout")
    res["symex_s"] = time.time() - t0 - res["solver_s"]
    return _finish(res, E)


def replay_layout(case, conc):
    from . import c03 as C3
    conc = common.fix_nans(conc)
    codes, order = case["codes"], case["label_order"]
    N, G = len(codes), case["G"]
    xs = real_np.array([float(c) for c in to_float_cells(conc["x"])])
    mask = real_np.array(case["mask"], dtype=bool) if case.get("mask") is not None else None

    def gb_():
        gb = C3.real_gb(G, codes=codes)
        if list(order) != sorted(order):
            gb.__dict__["_labels_argsort"] = real_np.array(order)
            gb._sort = True
            gb._index_is_sorted = False
        return gb
    try:
        a = gb_().ema(xs, alpha=0.5, mask=mask, index_by_groups=True).to_numpy()
        b = gb_().ema(xs, alpha=0.5, mask=mask).to_numpy()
    except Exception as e:      # noqa: BLE001
        return True, f"real call raised {type(e).__name__}: {e}"
    want = sorted([i for i in range(N) if codes[i] >= 0], key=lambda i: (list(order).index(codes[i]), i))
    if len(a) != len(want):
        return True, {"group_sorted": jsonable(list(a)), "expected_rows": want}
    bad = [p for p, i in enumerate(want) if not approx_same(float(a[p]), float(b[i]))]
    return bool(bad), {"group_sorted": jsonable(list(a)), "row_aligned": jsonable(list(b)), "expected_rows": want, "wrong_positions": bad}

"""C06 - rows with a null key never influence any group (relational: no functional specification involved)."""
import itertools
from . import relational as REL
from . import ema as EMA
from . import nearby as NB

PROP = "C06"


def _roll(op, dt, N, G, W, mk):
    return {"fam": "roll", "op": op, "dtype": dt, "N": N, "G": G, "W": W, "min_periods": 1, "mask": {"kind": mk}}


def cases(tier, seed):
    out = []
    N, G = (4, 2) if tier == "quick" else (6, 3)
    Nd = 4 if tier == "quick" else 5
    red_funcs = ("sum", "count", "max", "first", "last", "mean", "size") if tier == "quick" else REL.R.FUNCS
    dts = ("float64", "int64") if tier == "quick" else ("float64", "int64", "datetime64[ns]", "bool")
    for rel in ("null_rows_noninterference",):
        for f in red_funcs:
            for dt in dts:
                if dt.startswith("datetime") and f in ("sum", "mean", "sum_squares") or dt == "bool" and f in ("mean", "sum_squares"):
                    continue
                for mk in ("none", "bool_sym"):
                    for T in ((1, 2) if mk == "none" else (1,)):
                        out.append({"rel": rel, "fam": "reduce", "func": f, "dtype": dt, "N": N, "G": G, "mask": {"kind": mk}, "threads": T})
        # integer-position masks (a separate loop of the kernel and a separate branch of the wrapper): a selected position may hold a null key
        for f in red_funcs:
            if f == "size":
                continue
            for dt in dts[:2]:
                out.append({"rel": rel, "fam": "reduce", "func": f, "dtype": dt, "N": N, "G": G, "mask": {"kind": "fancy", "L": 2 if tier == "quick" else 3}, "threads": 1})
        for op in REL.CU.OPS:
            for dt in (dts if op != "cumcount" else ("int64",)):
                if op == "cumsum" and dt.startswith("datetime"):
                    continue
                for mk in ("none", "bool_sym"):
                    out.append({"rel": rel, "fam": "cum", "op": op, "dtype": dt, "N": N, "G": G, "mask": {"kind": mk}, "skip_na": True})
        for op in REL.RO.OPS:
            for dt in ("float64", "datetime64[ns]") if tier == "quick" else ("float64", "int64", "datetime64[ns]", "timedelta64[s]"):
                if dt.startswith("datetime") and op in ("rolling_sum", "rolling_mean") or dt.startswith("timedelta") and op == "rolling_mean":
                    continue
                for mk in ("none", "bool_sym"):
                    out.append(dict(_roll(op, dt, N if (mk == "none" and dt in ("float64", "int64")) else min(N, 5), G if tier == "quick" else 2, 2, mk), rel=rel))
        for op, n in (("nth", 1), ("nth", -1), ("head", 2), ("tail", 2)):
            for mk in ("none", "bool_sym"):
                out.append({"rel": rel, "fam": "rowsel", "op": op, "n": n, "N": N, "G": G, "mask": {"kind": mk}, "dtype": "int64"})
    # the marker at null-key rows of row-aligned outputs is a constant
    for op in REL.CU.OPS:
        for dt in (("float64", "int64", "timedelta64[ns]") if op != "cumcount" else ("int64",)):
            for mk in ("none", "bool_sym"):
                out.append({"rel": "null_rows_constant", "fam": "cum", "op": op, "dtype": dt, "N": N, "G": G, "mask": {"kind": mk}, "skip_na": True,
                            "witness": dt == "float64"})
    for op in REL.RO.OPS:
        for dt in ("float64", "int64", "timedelta64[ns]"):
            if dt.startswith("timedelta") and op == "rolling_mean":
                continue
            out.append(dict(_roll(op, dt, N, G if tier == "quick" else 2, 2, "none"), rel="null_rows_constant"))
    # physically deleting the null-key rows changes nothing (null positions enumerated, group assignment symbolic)
    pats = [list(b) for b in itertools.product([True, False], repeat=Nd) if not all(b)]
    if tier == "quick":
        pats = pats[::2]
    for bits in pats:
        for f in (("sum", "first", "last", "max") if tier == "quick" else ("sum", "count", "min", "max", "first", "last", "mean")):
            out.append({"rel": "delete_null_rows", "fam": "reduce", "func": f, "dtype": "float64", "N": Nd, "G": 2, "mask": {"kind": "none"},
                        "threads": 1, "bits": bits})
        for op in ("cumsum", "cummax", "cumcount"):
            out.append({"rel": "delete_null_rows", "fam": "cum", "op": op, "dtype": "float64" if op != "cumcount" else "int64", "N": Nd, "G": 2,
                        "mask": {"kind": "none"}, "skip_na": True, "bits": bits})
        for op in ("rolling_sum", "rolling_max", "rolling_shift"):
            out.append(dict(_roll(op, "float64", Nd, 2, 2, "none"), rel="delete_null_rows", bits=bits))
        for op, n in (("nth", 1), ("head", 2), ("tail", 2)):
            out.append({"rel": "delete_null_rows", "fam": "rowsel", "op": op, "n": n, "N": Nd, "G": 2, "mask": {"kind": "none"}, "dtype": "int64", "bits": bits})
    for c in out:
        c["name"] = REL.rel_name(c)
    # EMA: rows with a null key get NaN and touch no group state (code sequences with nulls enumerated)
    for dt in ("float64",):
        for mk in (False, True):
            for first in range(-1, 2):
                out.append({"ema": "grouped", "variant": "grouped", "dtype": dt, "N": 4, "G": 2, "mask": mk, "first": first, "null_rows_constant": True,
                            "name": f"null rows constant + spec ignores them:_ema_grouped/{dt}/N=4,G=2/mask={mk}/first={first}"})
                out.append({"ema": "timed", "variant": "timed", "dtype": dt, "N": 3, "G": 2, "mask": mk, "first": first, "halflife": 1000,
                            "null_rows_constant": True,
                            "name": f"null rows constant + spec ignores them:_ema_grouped_timed/{dt}/N=3,G=2/mask={mk}/first={first}"})
    for c in NB.cases(tier):
        out.append(c)
    # the group listing (.groups, key counts): rows with a null key are in no list and shift nothing (symbolic codes, null rows anywhere)
    for rep, lay in (("contiguous", None), ("chunked", [2, 2])):
        for order in ([0, 1], [1, 0]):
            c = {"views": True, "kind": "views", "N": 4, "G": 2, "rep": rep, "label_values": order,
                 "name": f"null-key rows are in no group list:GroupBy.groups/{rep}/labels {order}/N=4"}
            if lay:
                c["lengths"] = lay
            out.append(c)
    return out


def run_case(E, case):
    if case.get("views"):
        from . import c02
        r = c02.run_views(E, case)
        for cand in r.get("candidates", []):
            cand["signature"] = PROP + cand["signature"][3:]
        return r
    if case.get("ema") == "grouped":
        return EMA.run_grouped(E, case, PROP)
    if case.get("ema") == "timed":
        return EMA.run_timed(E, case, PROP)
    if case.get("nearby"):
        return NB.run_case(E, case, PROP)
    return REL.run_case(E, case, PROP)


def replay(case, inputs, cand=None):
    if case.get("views"):
        from . import c02
        return c02.replay_views(case, inputs)
    if case.get("ema"):
        return EMA.replay(case, inputs, cand)
    if case.get("nearby"):
        return NB.replay(case, inputs, cand)
    return REL.replay(case, inputs, cand)


META = {
    "glue": ['groupby_lib/groupby/numba.py::_apply_cumulative', 'groupby_lib/groupby/numba.py::_apply_group_method_single_chunk', 'groupby_lib/groupby/numba.py::_apply_rolling', 'groupby_lib/groupby/numba.py::_build_target_for_groupby', 'groupby_lib/groupby/numba.py::_chunk_args_for_chunked_values', 'groupby_lib/groupby/numba.py::_chunk_args_for_unchunked_values', 'groupby_lib/groupby/numba.py::_chunk_groupby_args', 'groupby_lib/groupby/numba.py::_group_func_wrap', 'groupby_lib/groupby/numba.py::combine_chunk_results_for_factorized_key', 'groupby_lib/groupby/numba.py::cumcount', 'groupby_lib/groupby/numba.py::cummax', 'groupby_lib/groupby/numba.py::cummin', 'groupby_lib/groupby/numba.py::cumsum', 'groupby_lib/groupby/numba.py::group_count', 'groupby_lib/groupby/numba.py::group_mean', 'groupby_lib/groupby/numba.py::group_size', 'groupby_lib/groupby/numba.py::group_sum', 'groupby_lib/groupby/numba.py::rolling_diff', 'groupby_lib/groupby/numba.py::rolling_max', 'groupby_lib/groupby/numba.py::rolling_mean', 'groupby_lib/groupby/numba.py::rolling_min', 'groupby_lib/groupby/numba.py::rolling_shift', 'groupby_lib/groupby/numba.py::rolling_sum', 'groupby_lib/util.py::_cast_timestamps_to_ints', 'groupby_lib/util.py::_null_value_for_numpy_type', 'groupby_lib/util.py::check_data_inputs_aligned', 'groupby_lib/util.py::jit_is_null', 'groupby_lib/util.py::parallel_map'],
    "bounds": {"quick": {"N": 4, "G": 2, "W": 2, "deletion": "N=4, every second null pattern"},
               "thorough": {"N": 6, "G": 3, "W": 2, "deletion": "N=5, every null pattern"}},
    "enumerated": ["null positions for the deletion relation", "EMA code sequences", "operation, dtype, mask present or not"],
    "symbolic": ["group codes (null placement symbolic in the non-interference relation)", "values/masks at null-key rows vary freely between the two runs",
                 "all other values, null flags, mask bits"],
    "assumptions": ["oracle = the real code on related inputs (two runs), not a functional specification",
                    "row-aligned outputs are compared at rows with a non-null key; at null-key rows the output must equal the operation's "
                    "neutral marker (null of the result dtype; -1 for cumcount; NaN/NaT for rolling; NaN for EMA)",
                    "group_nearby_members: outputs compared as partitions (sub-group ids are counters)",
                    "multi-key null propagation (_weight_code_sum) and chunk-local null codes (_unify_group_key_chunks) are decided under C02/C13"],
    "outside": ["pandas-level assembly", "N > 6"],
}

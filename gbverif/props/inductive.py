"""One-step inductive queries for the per-group counters of the row-selection kernels (C15, any group size).

The loop body of the real kernel is cut out of its source, if-converted and executed once from a symbolic
pre-state: arbitrary row index i < 2^40, arbitrary true visit counts c[g] >= 0, `seen[g]` = c[g] wrapped into the
counter's REAL dtype (read from the kernel's own allocation), `out` as the specification leaves it after c[g] visits.
The assertion is that the step re-establishes the relation for c[key]+1, with no failed assert and no wrong write."""
import ast
import copy
import time
import numpy as real_np
import z3
from ..values import Unsupported, is_sym, conc_bool, b_and, b_or, b_not, ite, zb, UNDEF
from ..symarray import A
from ..runtime import fresh_runtime
from ..harness import Inputs, decide, jsonable, solve_exists
from .. import ifconv

BIG = 2**40


class AnyRow:
    """group_key / mask of unknown length: indexing with the (symbolic) row number yields the row's symbolic element"""
    def __init__(self, val):
        self.val = val

    def __getitem__(self, i):
        return self.val

    def __len__(self):
        raise Unsupported("len of the abstract row source")


class Recorder:
    """write-only 2-D output: remembers (row, col, value, guard) of every store"""
    def __init__(self):
        self.writes = []

    def store(self, idx, val, guard, rt):
        self.writes.append((idx, val, guard))

    def __getitem__(self, idx):
        raise Unsupported("read of the recorded output")


def _parts(E, funcname):
    sm = E.mods["gbnumba"]
    node = None
    for (n, _), fd in sm.funcdefs.items():
        if n == funcname:
            node = fd
    if node is None:
        from ..shadow import MissingAnchor
        raise MissingAnchor(funcname)
    body = [s for s in node.body if not (isinstance(s, ast.Expr) and isinstance(s.value, ast.Constant))]
    loops = [k for k, s in enumerate(body) if isinstance(s, ast.For)]
    if len(loops) != 1:
        raise Unsupported(f"{funcname}: expected exactly one top-level loop")
    k = loops[0]
    return sm, node, body[:k], body[k], body[k + 1:]


def _run_prologue(sm, node, prologue, argvals):
    """execute the statements before the loop natively (concrete arguments) and return the locals"""
    mod = ast.Module(body=copy.deepcopy(prologue), type_ignores=[])
    ast.fix_missing_locations(mod)
    loc = dict(argvals)
    exec(compile(mod, f"<prologue {node.name}>", "exec"), sm.ns, loc)
    return loc


def _step_function(sm, node, loop, names):
    """def __step(<names>): for __once in range(1): <loop body> ; if-converted"""
    fd = ast.FunctionDef(name="__step_" + node.name, args=ast.arguments(
        posonlyargs=[], args=[ast.arg(arg=n) for n in names], kwonlyargs=[], kw_defaults=[], defaults=[]),
        body=[ast.For(target=ast.Name(id="__once", ctx=ast.Store()),
                      iter=ast.Call(func=ast.Name(id="__builtin_range", ctx=ast.Load()), args=[ast.Constant(1)], keywords=[]),
                      body=copy.deepcopy(loop.body), orelse=[]),
              ast.Return(value=ast.Constant(None))],
        decorator_list=[], returns=None, type_comment=None, type_params=[])
    ast.fix_missing_locations(fd)
    return ifconv.convert(fd, sm.relpath, sm.ns, None)


def wrap_to(dt, c):
    dt = real_np.dtype(dt)
    bits = dt.itemsize * 8
    if dt.kind == "u":
        return c % (2**bits)
    return ((c + 2**(bits - 1)) % (2**bits)) - 2**(bits - 1)


def case_name(c):
    return f"inductive-step/{c['op']}/n{'<0' if c.get('neg') else '>=0'}/G={c['G']}"


def run_case(E, case, prop):
    t0 = time.time()
    op, G = case["op"], case["G"]
    func = "_find_nth" if op == "nth" else "_find_first_or_last_n"
    sm, node, prologue, loop, epilogue = _parts(E, func)
    if not (isinstance(loop.target, ast.Name)):
        raise Unsupported("loop target")
    ivar = loop.target.id
    # prologue with small concrete arguments, only to learn the dtypes the kernel allocates
    dummy_key = A([0], "int64")
    if op == "nth":
        loc = _run_prologue(sm, node, prologue, {"group_key": dummy_key, "ngroups": G, "n": (-1 if case.get("neg") else 0), "mask": A([True], "bool")})
    else:
        loc = _run_prologue(sm, node, prologue, {"group_key": dummy_key, "ngroups": G, "n": 1, "mask": A([True], "bool"),
                                                 "forward": op == "head"})
    if "seen" not in loc or not isinstance(loc["seen"], A):
        raise Unsupported("counter array `seen` not found in the kernel prologue")
    seen_dt = loc["seen"].dtype
    # ---- symbolic pre-state
    inp = Inputs()
    i = inp.scalar_int("i", 0, BIG)
    n = inp.scalar_int("n", 0, BIG)          # for nth this is the already-normalised non-negative rank
    k = inp.scalar_int("k", -1, G - 1)
    mbit = inp.bools("mbit", 1)[0]
    c = inp.ints("c", G, 0, BIG)
    p = inp.ints("p", G, 0, BIG)
    rt = fresh_runtime()
    rt.wrap_narrow = True
    seen = A([wrap_to(seen_dt, cg) for cg in c], "int64")
    seen.dtype = seen_dt
    if op == "nth":
        backward = bool(case.get("neg"))
        for g in range(G):
            inp.pre.append(p[g] != i)
            inp.pre.append(p[g] > i if backward else p[g] < i)
        out = A([ite(c[g] > n, p[g], -1) for g in range(G)], "int64")
    else:
        seen = A([wrap_to(seen_dt, ite(c[g] < n, c[g], n)) for g in range(G)], "int64")
        seen.dtype = seen_dt
        out = Recorder()
    names = sorted({a.arg for a in node.args.args} | {x for x in loc if not x.startswith("__")} | {ivar})
    step = _step_function(sm, node, loop, names)
    state = dict(loc)
    state.update({"group_key": AnyRow(k), "mask": AnyRow(mbit), "masked": True, "seen": seen, "out": out, "n": n, ivar: i,
                  "ngroups": G})
    args = [state.get(nm, UNDEF) for nm in names]
    step(*args)
    symex = time.time() - t0
    # ---- post-state relation
    hit = b_and(k >= 0, mbit)
    bads = []
    for g in range(G):
        isk = b_and(hit, k == g)
        if op == "nth":
            c2 = ite(isk, c[g] + 1, c[g])
            bads.append((f"seen[{g}] tracks the visit count", b_not(seen.cells[g] == wrap_to(seen_dt, c2))))
            exp_out = ite(b_and(isk, c[g] == n), i, ite(c[g] > n, p[g], -1))
            bads.append((f"out[{g}] is the n-th row", b_not(out.cells[g] == exp_out)))
        else:
            s_true = ite(c[g] < n, c[g], n)
            s2 = ite(b_and(isk, c[g] < n), s_true + 1, s_true)
            bads.append((f"seen[{g}] tracks min(count, n)", b_not(seen.cells[g] == wrap_to(seen_dt, s2))))
    if op != "nth":
        wr = out.writes
        any_w = b_or(*[g_ for _, _, g_ in wr]) if wr else False
        for idx, val, g_ in wr:
            row, col = idx
            okw = b_and(hit, row == k, c_at(c, k, G) < n, col == c_at(c, k, G), col >= 0, col < n, val == i)
            bads.append(("every write goes to (group, rank) with the current row", b_and(g_, b_not(okw))))
        bads.append(("a row of rank < n is recorded", b_and(hit, c_at(c, k, G) < n, b_not(any_w))))
    dec = decide(inp, bads, rt, prefer_small=False)
    r = {"verdict": dec.verdict, "solver_s": dec.solver_s, "symex_s": symex, "n_queries": dec.n_queries,
         "obligations": dec.obligations, "failed_obligations": dec.failed_obligations,
         "witnesses": {f"inductive step decided for the {seen_dt} counter of {func}": True},
         "candidates": [], "encoded": sorted(E.encoded) + [sm.relpath + "::" + func]}
    model = dec.model if dec.verdict == "sat" else (dec.ob_model if dec.failed_obligations else None)
    if model is not None:
        labels = dec.which[:4] + [f"{a}@{b}" for a, b in dec.failed_obligations[:4]]
        r["verdict"] = "sat"
        r["candidates"].append({"signature": f"{prop}:inductive:{op}:counter={seen_dt}", "case": case, "inputs": jsonable(model),
                                "kind": "inductive", "labels": labels})
    return r


def c_at(c, k, G):
    e = c[G - 1]
    for g in range(G - 2, -1, -1):
        e = ite(k == g, c[g], e)
    return e


def replay(case, conc, cand=None):
    """the pre-state is reachable by a group with that many rows: build it and run the compiled kernel"""
    import groupby_lib.groupby.numba as rnb
    op, G = case["op"], case["G"]
    k = conc["k"][0]
    if k < 0:
        k = 0
    ck = conc["c"][k]
    n = conc["n"][0]
    rows = ck + 2
    if rows > 3_000_000:
        return False, f"pre-state needs a group of {rows} rows: too large to replay"
    codes = real_np.full(rows, k, dtype="int64")
    member = real_np.arange(rows)
    try:
        if op == "nth":
            nn = -(n + 1) if case.get("neg") else n
            out = rnb._find_nth(codes, G, nn, None)
            exp = member[nn] if (n < rows) else -1
            bad = int(out[k]) != int(exp)
            return bad, {"rows": rows, "n": nn, "real": int(out[k]), "expected": int(exp)}
        n = min(n, rows + 5)
        if n > 2_000_000:
            return False, "n too large to replay"
        if op == "head":
            out = rnb.find_first_n(codes, G, n, None)
            exp = real_np.full(n, -1, dtype="int64")
            m = min(n, rows)
            exp[:m] = member[:m]
        else:
            out = rnb.find_last_n(codes, G, n, None)
            exp = real_np.full(n, -1, dtype="int64")
            m = min(n, rows)
            exp[n - m:] = member[rows - m:]
        bad = not real_np.array_equal(out[k], exp)
        where = real_np.nonzero(out[k] != exp)[0][:5].tolist() if bad else []
        return bad, {"rows": rows, "n": n, "first_wrong_columns": where}
    except Exception as e:      # noqa: BLE001
        return True, f"real call raised {type(e).__name__}: {e} (group of {rows} rows, n={n})"

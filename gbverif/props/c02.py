"""C02 - factorization is a faithful partition of the rows (library-owned logic: multi-key combination, monotonic fast
path, counting sort of row positions, range index; the 1-D factorizers of pandas/pyarrow are assumed by contract)."""
import itertools
import time
import numpy as real_np
import z3
from ..values import SF, MIN_INT, is_sym, conc_bool, b_and, b_or, b_not, ite, same, Unsupported, OutsideModel
from ..symarray import A, SymLen
from ..models import FakeIndex, FakeChunked, NumbaList
from ..runtime import run_paths, fresh_runtime, current
from ..harness import Inputs, decide, jsonable, to_float_cells, solve_exists
from .reductions import approx_same, np_to_cells, count_true, gather
from .gbcore import make_gb, ChunkedState, compositions
from .common import MergedRT, fix_nans

PROP = "C02"


def cases(tier, seed):
    out = []
    N = 4 if tier == "quick" else 6
    # (a) multi-key combination
    shapes = [(2, 2), (1, 3), (3, 2), (2, 1), (2, 2, 2), (2, 1, 2)] if tier == "quick" else [s for k in (2, 3) for s in itertools.product((1, 2, 3), repeat=k)]
    for sh in shapes:
        Nc = (N if tier == "quick" else 5) if len(sh) == 2 else (3 if tier == "quick" else 4)
        out.append({"kind": "combine", "N": Nc, "shape": list(sh),
                    "name": f"factorize_2d/_combine_factorizations: {len(sh)} keys with {sh} labels, N={Nc}", "witness": sh == (2, 2)})
    # (a') label spaces too large for the dense tracker: the hash-table branch of factorize_2d (typed dict keyed by the combined code)
    for sh in ([(65600, 65536)] if tier == "quick" else [(65600, 65536), (70000, 70000), (2000, 1500, 1500)]):
        out.append({"kind": "combine", "N": 3, "shape": list(sh),
                    "name": f"factorize_2d/_combine_factorizations (hash-table tracker): {len(sh)} keys with {sh} labels, N=3"})
    # (b) monotonic fast path
    # datetime64 keys reach the kernel as datetime64 (NaT compares false both ways in numba, exactly like NaN): float64 stands for them
    for dt in ("float64", "int64"):
        for comp in compositions(N, 1, 1) + compositions(N, 2 if tier == "quick" else 3, 2):
            out.append({"kind": "monotonic", "N": N, "dtype": dt, "chunks": comp,
                        "name": f"_monotonic_factorization/{dt}/chunks={'+'.join(map(str, comp))}", "witness": dt == "float64" and len(comp) == 1})
    # (c) counting sort of row positions (null positions enumerated: the output length is the number of non-null rows)
    Ns = 4 if tier == "quick" else 5
    for bits in itertools.product([True, False], repeat=Ns):
        for rep in ("contiguous", "chunked"):
            for km in (False, True):
                if tier == "quick" and km and rep == "chunked":
                    continue
                out.append({"kind": "sorted_indexer", "N": Ns, "G": 2 if tier == "quick" else 3, "bits": list(bits), "rep": rep, "key_map": km,
                            "name": f"group-sorted indexer/{rep}/key_map={km}/null pattern " + "".join("k" if b else "-" for b in bits),
                            "witness": list(bits) == [True, False, True, True][:Ns] + [True] * (Ns - 4)})
    # (f) the chunk-wise factorization of the constructor (sorted-prefix fast path, per-chunk dictionaries, pointer tables): keys enumerated
    Nk = 4 if tier == "quick" else 6
    for sort in (True, False):
        for first in (1.0, 2.0, 3.0, None):
            out.append({"kind": "chunked_constructor", "N": Nk, "alphabet": [1.0, 2.0, 3.0, float("nan")], "first": float("nan") if first is None else first,
                        "sort": sort, "max_chunks": 2, "funcs": ["sum", "first"],
                        "name": f"GroupBy(chunked keys).sum/first == per-key definition/N={Nk} over {{1,2,3,null}} starting with {first}/every 2-chunk layout/sort={sort}"})
    # (g) derived views of a grouping: .groups (label -> ascending row positions), ikey_count/key_count; symbolic codes, the sizes fork
    for rep in ("contiguous", "chunked"):
        for order in ([0, 1], [1, 0]) if tier == "quick" else ([0, 1, 2], [2, 0, 1], [1, 2, 0]):
            G = len(order)
            Nv = 4 if tier == "quick" else 5
            lays = [None] if rep == "contiguous" else ([[2, 2]] if tier == "quick" else [[2, 3], [1, 2, 2]])
            for lay in lays:
                c = {"kind": "views", "N": Nv, "G": G, "rep": rep, "label_values": order,
                     "name": f"GroupBy.groups / key counts/{rep}{'' if lay is None else ' ' + '+'.join(map(str, lay))}/labels {order}/N={Nv}", "witness": rep == "contiguous" and order == sorted(order)}
                if lay:
                    c["lengths"] = lay
                out.append(c)
    # (h) the library-owned parts of factorize_1d: the manual sort (labels re-ordered, codes re-mapped, null code kept) and the boolean route
    perms = [list(p) for U in (2, 3) for p in itertools.permutations([10.0, 20.0, 30.0][:U])]
    for u in (perms if tier == "thorough" else perms[1::2] + perms[:1]):
        out.append({"kind": "f1d", "route": "sort", "uniques": u, "N": 4, "name": f"factorize_1d(sort=True): labels {u} re-ordered, codes re-mapped/N=4"})
    out.append({"kind": "f1d", "route": "bool", "N": 3, "name": "factorize_1d(boolean key): code = the value, labels [False, True]/N=3"})
    # (i) the arrow route: a pre-chunked, dictionary-typed arrow key whose chunks carry different dictionaries (contract model of the pyarrow objects)
    dicts = [([["x", "y"], ["y", "z"]], [2, 2]), ([["x", "y", "z"], ["z", "x"]], [2, 2]), ([["a"], ["b", "a"]], [1, 3])]
    if tier != "quick":
        dicts += [([["x", "y"], ["x", "y"]], [2, 2]), ([["q", "p"], ["p"], ["r", "q"]], [2, 1, 2])]
    for dd, lens in dicts:
        out.append({"kind": "arrow_dict", "dictionaries": dd, "lengths": lens,
                    "name": f"factorize_1d(dictionary-typed arrow ChunkedArray): chunk dictionaries {dd}, chunk lengths {lens}"})
    # (e) range index
    for step in (-3, -2, -1, 1, 2, 3):
        out.append({"kind": "range_index", "N": N, "step": step, "name": f"factorize_range_index/step={step}/N={N}"})
    return out


def run_case(E, case):
    k = case["kind"]
    try:
        if k == "combine":
            return run_combine(E, case)
        if k == "monotonic":
            return run_monotonic(E, case)
        if k == "sorted_indexer":
            return run_sorted_indexer(E, case)
        if k == "range_index":
            return run_range_index(E, case)
        if k == "chunked_constructor":
            from . import constructor
            return constructor.run_case(E, case, PROP)
        if k == "views":
            return run_views(E, case)
        if k == "f1d":
            return run_f1d(E, case)
        if k == "arrow_dict":
            return run_arrow_dict(E, case)
    except (Unsupported, OutsideModel):
        raise
    raise Unsupported(k)


def _result(E, dec, t0, case, sig, extra_wit=None):
    r = {"verdict": dec.verdict, "solver_s": dec.solver_s, "symex_s": time.time() - t0 - dec.solver_s, "n_queries": dec.n_queries,
         "obligations": dec.obligations, "failed_obligations": dec.failed_obligations, "witnesses": dict(dec.witnesses, **(extra_wit or {})),
         "candidates": [], "encoded": sorted(E.encoded)}
    if dec.verdict == "sat" and not any(k_ == "bounds" for k_, w_ in dec.failed_obligations):
        r["candidates"].append({"signature": f"{PROP}:{sig}", "case": case, "inputs": jsonable(dec.model), "kind": "property", "labels": dec.which[:5]})
    if dec.failed_obligations:
        r["verdict"] = "sat"
        kinds = sorted({k for k, w in dec.failed_obligations})
        r["candidates"].append({"signature": f"{PROP}:obligation:{','.join(kinds)}:{sig}", "case": case, "inputs": jsonable(dec.ob_model),
                                "kind": "obligation", "labels": [f"{a}@{b}" for a, b in dec.failed_obligations[:4]]})
    return r


# ------------------------------------------------------------------ (a)
def run_combine(E, case):
    t0 = time.time()
    N, shape = case["N"], case["shape"]
    K = len(shape)
    fz = E["factorization"]
    inp = Inputs()
    cols = [inp.ints(f"c{j}_", N, -1, shape[j] - 1) for j in range(K)]
    saved = fz["factorize_1d"]

    class Labels(FakeIndex):
        pass
    keys = [("key", j) for j in range(K)]

    def fake_factorize_1d(x, sort=False, size_hint=None):
        j = x[1]
        return A(cols[j], "int64"), Labels(shape[j])
    rt = fresh_runtime()
    try:
        fz["factorize_1d"] = fake_factorize_1d
        combined, mi = fz["factorize_2d"](*keys, sort=False)
    finally:
        fz["factorize_1d"] = saved
    uniq = mi.codes[0].s if hasattr(mi.codes[0], "s") else None      # SymLen of the (re-used) stacked code matrix
    cc = combined.cells
    bads = []
    rows = [[cols[j][i] for j in range(K)] for i in range(N)]
    for i in range(N):
        anynull = b_or(*[c == -1 for c in rows[i]])
        bads.append((f"row {i}: combined code is null iff some key is null", b_not(_iff(anynull, cc[i] == -1))))
        for j in range(i + 1, N):
            both = b_and(cc[i] != -1, cc[j] != -1)
            eq_t = b_and(*[rows[i][k] == rows[j][k] for k in range(K)])
            bads.append((f"rows {i},{j}: same combined code iff same key tuple", b_and(both, b_not(_iff(cc[i] == cc[j], eq_t)))))
    if uniq is not None:
        ucells = uniq.arr.cells
        n_u = uniq.n
        for i in range(N):
            ok = True
            # uniques[code_i] == row_i
            for k in range(K):
                ok = b_and(ok, gather_2d(ucells, cc[i], k, K, N) == rows[i][k])
            bads.append((f"row {i}: label at its code equals its key tuple", b_and(cc[i] != -1, b_not(b_and(ok, cc[i] < n_u, cc[i] >= 0)))))
        for a in range(N):
            for b in range(a + 1, N):
                same_row = b_and(*[ucells[a * K + k] == ucells[b * K + k] for k in range(K)])
                bads.append((f"labels {a},{b} distinct", b_and(a < n_u, b < n_u, same_row)))
    wit = []
    if case.get("witness"):
        wit = [("null in the last key only", b_and(rows[0][K - 1] == -1, *[rows[0][k] != -1 for k in range(K - 1)])),
               ("null in the first key only", b_and(rows[0][0] == -1, *[rows[0][k] != -1 for k in range(1, K)])),
               ("repeated key tuple", b_and(*[rows[0][k] == rows[1][k] for k in range(K)], rows[0][0] != -1))]
    dec = decide(inp, bads, rt, witnesses=wit)
    return _result(E, dec, t0, case, "combine_factorizations")


def _iff(a, b):
    return b_or(b_and(a, b), b_and(b_not(a), b_not(b)))


def gather_2d(cells, row, col, K, N):
    if not is_sym(row):
        return cells[row * K + col] if 0 <= row < N else 0
    e = cells[(N - 1) * K + col]
    for r in range(N - 2, -1, -1):
        e = ite(row == r, cells[r * K + col], e)
    return e


def replay_combine(case, conc):
    from groupby_lib.groupby import factorization as rf
    import pandas as pd
    N, shape = case["N"], case["shape"]
    K = len(shape)
    cols = [conc[f"c{j}_"] for j in range(K)]
    # through the public factorize_2d: keys whose 1-D factorization gives exactly these codes (categoricals with fixed categories)
    keys = [pd.Categorical.from_codes(cols[j], categories=[f"L{j}{x}" for x in range(shape[j])]) for j in range(K)]
    try:
        combined, mi = rf.factorize_2d(*keys, sort=False)
    except Exception as e:      # noqa: BLE001
        return True, f"real call raised {type(e).__name__}: {e}"
    combined = [int(x) for x in combined]
    rows = [tuple(cols[j][i] for j in range(K)) for i in range(N)]
    bad = []
    for i in range(N):
        if (any(c == -1 for c in rows[i])) != (combined[i] == -1):
            bad.append(f"row {i} null-ness")
        for j in range(i + 1, N):
            if combined[i] != -1 and combined[j] != -1 and ((combined[i] == combined[j]) != (rows[i] == rows[j])):
                bad.append(f"rows {i},{j}")
    for i in range(N):
        if combined[i] >= 0:
            lab = tuple(int(mi.codes[k][combined[i]]) for k in range(K)) if combined[i] < len(mi) else None
            if lab != rows[i]:
                bad.append(f"label of row {i}: {lab} != {rows[i]}")
    if len(set(map(tuple, zip(*[list(c) for c in mi.codes])))) != len(mi):
        bad.append("duplicate labels")
    return bool(bad), {"combined_codes": combined, "key_codes": cols, "problems": bad[:6]}


# ------------------------------------------------------------------ (b)
def run_monotonic(E, case):
    t0 = time.time()
    N, dt, comp = case["N"], real_np.dtype(case["dtype"]), case["chunks"]
    fz = E["factorization"]
    inp = Inputs()
    keys = inp.values("x", N, dt)
    rt = fresh_runtime()
    parts = []
    p = 0
    view_dt = "int64" if dt.kind in "mM" else dt
    for L in comp:
        parts.append(A(keys[p:p + L], view_dt).tag("input:group_key"))
        p += L
    cutoff, codes, labels = fz["_monotonic_factorization"](NumbaList(parts), N)
    from .reductions import is_null_val
    lab_cells, n_lab = (labels.arr.cells, labels.n) if isinstance(labels, SymLen) else (labels.cells, len(labels))
    code_cells = codes.cells
    bads = []
    bads.append(("cutoff within [0, N]", b_not(b_and(cutoff >= 0, cutoff <= N))))
    for i in range(N):
        inpre = i < cutoff
        ci = code_cells[i]
        bads.append((f"row {i}: code within the labels", b_and(inpre, b_not(b_and(ci >= 0, ci < n_lab)))))
        bads.append((f"row {i}: label at its code equals its key", b_and(inpre, b_not(same(gather(lab_cells, ci) if is_sym(ci) else lab_cells[ci], keys[i])))))
        bads.append((f"row {i}: a null key is never given a label", b_and(inpre, is_null_val(keys[i], dt))))
    for a in range(N - 1):
        bads.append((f"labels {a},{a + 1} strictly increasing (hence distinct)", b_and(a + 1 < n_lab, b_not(_lt(lab_cells[a], lab_cells[a + 1])))))
    wit = []
    if case.get("witness"):
        wit = [("null key inside an otherwise sorted run", b_and(is_null_val(keys[1], dt), _lt(keys[0], keys[2])) if N >= 3 else False),
               ("null key first", is_null_val(keys[0], dt)),
               ("fully sorted keys", b_and(*[_lt(keys[i], keys[i + 1]) for i in range(N - 1)]))]
    dec = decide(inp, bads, rt, witnesses=wit)
    return _result(E, dec, t0, case, f"monotonic_factorization:{dt.kind}")


def _lt(a, b):
    if isinstance(a, SF) or isinstance(b, SF):
        return SF.of(a).lt(b)
    return a < b


def replay_monotonic(case, conc):
    from groupby_lib.groupby import factorization as rf
    from numba.typed import List
    from .reductions import np_values
    conc = fix_nans(conc)
    N, dt, comp = case["N"], real_np.dtype(case["dtype"]), case["chunks"]
    vals = np_values(to_float_cells(conc["x"]), dt)
    if dt.kind in "mM":
        vals = vals.view("int64")
    parts = List()
    p = 0
    for L in comp:
        parts.append(vals[p:p + L])
        p += L
    try:
        cutoff, codes, labels = rf._monotonic_factorization(parts, N)
    except Exception as e:      # noqa: BLE001
        return True, f"real call raised {type(e).__name__}: {e}"
    bad = []
    isnull = (lambda v: v != v) if dt.kind == "f" else (lambda v: int(v) == MIN_INT)
    for i in range(int(cutoff)):
        c = int(codes[i])
        if not (0 <= c < len(labels)):
            bad.append(f"row {i} code {c}")
        elif not approx_same(labels[c].item(), vals[i].item()):
            bad.append(f"row {i}: label {labels[c]} != key {vals[i]}")
        if isnull(vals[i]):
            bad.append(f"row {i}: null key labelled")
    for a in range(len(labels) - 1):
        if not labels[a] < labels[a + 1]:
            bad.append(f"labels {a},{a + 1} not increasing")
    return bool(bad), {"cutoff": int(cutoff), "codes": jsonable(list(codes[:int(cutoff)])), "labels": jsonable(list(labels)), "keys": jsonable(list(vals)), "problems": bad[:6]}


# ------------------------------------------------------------------ (c)
def run_sorted_indexer(E, case):
    t0 = time.time()
    N, G, bits = case["N"], case["G"], case["bits"]
    inp = Inputs()
    ks = inp.codes("k", N, G, allow_null=False)
    codes = [ks[i] if bits[i] else -1 for i in range(N)]
    nn = sum(1 for b in bits if b)
    perm = list(itertools.permutations(range(G)))
    rt = fresh_runtime()
    rt.size_hints = [nn]
    if case["key_map"]:
        # labels sorted lazily: _labels_argsort is an arbitrary permutation of the labels (concrete, enumerated over all of them below)
        results = []
        for sortkey in perm:
            gb = make_gb(E, G, codes=A(codes, "int64").tag("state:_group_ikey"))
            gb.__dict__["_labels_argsort"] = A(list(sortkey), "int64")
            gb._sort = True
            gb._index_is_sorted = False
            rt.size_hints = [nn]
            results.append((sortkey, gb._group_sort_indexer, gb.ikey_count))
    else:
        if case["rep"] == "chunked":
            half = N // 2
            gb = make_gb(E, G, chunks=[A(codes[:half], "int64"), A(codes[half:], "int64")], pointers=None)
        else:
            gb = make_gb(E, G, codes=A(codes, "int64").tag("state:_group_ikey"))
        results = [(tuple(range(G)), gb._group_sort_indexer, gb.ikey_count)]
    bads = []
    for sortkey, idx, counts in results:
        ic = idx.cells
        tag = f"order={''.join(map(str, sortkey))}: "
        if len(ic) != nn:
            bads.append((tag + "length = number of non-null rows", True))
            continue
        # the rows as they must be listed: group by group in the order of `sortkey`, ascending position inside a group
        rank_of_label = {lab: r for r, lab in enumerate(sortkey)}
        for pos in range(nn):
            opts = []
            for i in range(N):
                if not bits[i]:
                    continue
                # number of non-null rows that must come before row i
                before = []
                for j in range(N):
                    if not bits[j] or j == i:
                        continue
                    rj = _rank(codes[j], rank_of_label, G)
                    ri = _rank(codes[i], rank_of_label, G)
                    before.append(ite(b_or(rj < ri, b_and(rj == ri, j < i)), 1, 0))
                nb = sum(before[1:], before[0]) if before else 0
                opts.append(b_and(nb == pos, ic[pos] == i))
            bads.append((tag + f"position {pos} holds the right row", b_not(b_or(*opts))))
        for g in range(G):
            bads.append((tag + f"count of group {g}", b_not(counts.cells[g] == count_true([c == g for c in codes]))))
    wit = [("groups interleaved with a null key in between", b_and(codes[0] == 1, codes[2] == 0) if case.get("witness") and G > 1 else False)] if case.get("witness") else []
    dec = decide(inp, bads, rt, witnesses=wit)
    return _result(E, dec, t0, case, f"group_sorted_indexer:{case['rep']}:key_map={case['key_map']}")


def _rank(code, rank_of_label, G):
    if not is_sym(code):
        return rank_of_label[code]
    e = rank_of_label[G - 1]
    for g in range(G - 2, -1, -1):
        e = ite(code == g, rank_of_label[g], e)
    return e


def replay_sorted_indexer(case, conc):
    from . import c03 as C3
    N, G, bits = case["N"], case["G"], case["bits"]
    codes = [conc["k"][i] if bits[i] else -1 for i in range(N)]
    bad = []
    try:
        orders = list(itertools.permutations(range(G))) if case["key_map"] else [tuple(range(G))]
        for sortkey in orders:
            if case["rep"] == "chunked" and not case["key_map"]:
                half = N // 2
                gb = C3.real_gb(G, chunks=[codes[:half], codes[half:]], pointers=None)
            else:
                gb = C3.real_gb(G, codes=codes)
            if case["key_map"]:
                gb.__dict__["_labels_argsort"] = real_np.array(sortkey)
                gb._sort = True
                gb._index_is_sorted = False
            got = [int(x) for x in gb._group_sort_indexer]
            rank = {lab: r for r, lab in enumerate(sortkey)}
            exp = sorted([i for i in range(N) if codes[i] >= 0], key=lambda i: (rank[codes[i]], i))
            if got != exp:
                bad.append({"order": sortkey, "got": got, "expected": exp})
    except Exception as e:      # noqa: BLE001
        return True, f"real call raised {type(e).__name__}: {e}"
    return bool(bad), {"codes": codes, "problems": bad[:3]}


# ------------------------------------------------------------------ (e)
def run_range_index(E, case):
    t0 = time.time()
    N, step = case["N"], case["step"]
    fz = E["factorization"]
    inp = Inputs()
    start = inp.scalar_int("start", -1000, 1000)

    class RI:
        pass
    ri = RI()
    ri.start = start
    ri.step = step
    ri.values = A([start + i * step for i in range(N)], "int64").tag("input:group_key")
    rt = fresh_runtime()
    paths = run_paths(lambda: fz["factorize_range_index"](ri))
    bads = []
    for pc, (codes, labels), _ in paths:
        pcz = b_and(*pc) if pc else True
        for i in range(N):
            bads.append((f"row {i} gets code {i}", b_and(pcz, b_not(codes.cells[i] == i))))
        if labels is not ri:
            bads.append(("labels are the index itself", pcz))
    merged = MergedRT()
    for pc, _, r_ in paths:
        for kind, g_, c_, where in r_.obligations:
            merged.obligations.append((kind, b_and(*pc, g_) if pc else g_, c_, where))
    dec = decide(inp, bads, merged)
    return _result(E, dec, t0, case, "factorize_range_index")


def replay_range_index(case, conc):
    import pandas as pd
    from groupby_lib.groupby import factorization as rf
    N, step = case["N"], case["step"]
    start = conc["start"][0]
    idx = pd.RangeIndex(start, start + N * step, step)
    codes, labels = rf.factorize_range_index(idx)
    bad = [i for i in range(N) if int(codes[i]) != i]
    return bool(bad), {"codes": jsonable(list(codes)), "index": str(idx)}


# ------------------------------------------------------------------ factorize_1d: the arrow route for dictionary-typed chunked keys
def run_arrow_dict(E, case):
    from ..models import FakeDictArray, FakeDictChunked, LIndex
    t0 = time.time()
    fz = E["factorization"]
    inp = Inputs()
    merged = MergedRT()
    dd, lens = case["dictionaries"], case["lengths"]
    idx = [inp.ints(f"i{c}_", L, 0, len(dd[c]) - 1) for c, L in enumerate(lens)]

    def body():
        arr = FakeDictChunked([FakeDictArray(A(list(ix), "int64").tag("input:group_key"), list(d)) for ix, d in zip(idx, dd)])
        return fz["factorize_1d"](arr)
    try:
        paths = run_paths(body)
    except (Unsupported, OutsideModel):
        raise
    except Exception as e:      # noqa: BLE001
        from .common import raises_result
        return raises_result(E, inp, PROP, "factorize_1d:arrow_dict", case, e, t0)
    bads = []
    for pc, (codes, labels), rt in paths:
        pcz = b_and(*pc) if pc else True
        for kind, g_, c_, where in rt.obligations:
            merged.obligations.append((kind, b_and(pcz, g_), c_, where))
        labs = list(labels.labels) if isinstance(labels, LIndex) else None
        cells = codes.cells if isinstance(codes, A) else list(codes)
        n = sum(lens)
        if labs is None or len(cells) != n:
            bads.append((f"labels {labs} / {len(cells)} codes for {n} rows", pcz))
            continue
        if len(set(labs)) != len(labs):
            bads.append((f"labels {labs} are not pairwise distinct", pcz))
        p = 0
        for c, L in enumerate(lens):
            for r in range(L):
                code = cells[p]
                ok = b_or(*[b_and(idx[c][r] == j, b_or(*[code == q for q, lab in enumerate(labs) if lab == dd[c][j]])) for j in range(len(dd[c]))])
                bads.append((f"row {p} (chunk {c}): the label at its code is its key", b_and(pcz, b_not(ok))))
                p += 1
    dec = decide(inp, bads, merged)
    return _result(E, dec, t0, case, "factorize_1d:arrow_dict")


def replay_arrow_dict(case, conc):
    import pyarrow as pa
    from groupby_lib.groupby.factorization import factorize_1d
    dd, lens = case["dictionaries"], case["lengths"]
    chunks, keys = [], []
    for c, L in enumerate(lens):
        ix = [int(x) for x in conc[f"i{c}_"]]
        chunks.append(pa.DictionaryArray.from_arrays(pa.array(ix, type=pa.int32()), pa.array(dd[c])))
        keys += [dd[c][i] for i in ix]
    codes, labels = factorize_1d(pa.chunked_array(chunks))
    labs = [str(x) for x in labels]
    problems = []
    for r, k in enumerate(keys):
        c = int(codes[r])
        if not (0 <= c < len(labs)) or labs[c] != k:
            problems.append(f"row {r}: key {k!r} got code {c} = {labs[c] if 0 <= c < len(labs) else None!r}")
    if len(set(labs)) != len(labs):
        problems.append(f"labels {labs} not distinct")
    return bool(problems), {"problems": problems[:5], "labels": labs, "keys": keys}


# ------------------------------------------------------------------ factorize_1d: manual sort, boolean route
def run_f1d(E, case):
    from ..models import FakeSeries, LIndex
    t0 = time.time()
    fz = E["factorization"]
    N = case["N"]
    inp = Inputs()
    merged = MergedRT()
    bads = []
    if case["route"] == "sort":
        uniq = case["uniques"]
        U = len(uniq)
        codes = inp.ints("c", N, -1, U - 1)
        pd_ = fz["pd"]
        pd_.factorize = lambda values, use_na_sentinel=True: (A(list(codes), "int64"), A(list(uniq), "float64"))      # contract: pd.factorize
        try:
            paths = run_paths(lambda: fz["factorize_1d"](FakeSeries(A([0.0] * N, "float64"), None), sort=True))
        finally:
            del pd_.factorize
        for pc, (new_codes, labels), rt in paths:
            pcz = b_and(*pc) if pc else True
            for kind, g_, c_, where in rt.obligations:
                merged.obligations.append((kind, b_and(pcz, g_), c_, where))
            labs = list(labels.labels) if isinstance(labels, LIndex) else None
            if labs is None or sorted(labs) != sorted(uniq):
                bads.append((f"labels {labs} are not the distinct keys {uniq}", pcz))
                continue
            if labs != sorted(labs):
                bads.append((f"labels {labs} not in ascending order", pcz))
            for i in range(N):
                old, new = codes[i], new_codes.cells[i]
                ok = ite(old == -1, new == -1, b_or(*[b_and(old == a, new == labs.index(uniq[a])) for a in range(U)]))
                bads.append((f"row {i}: the label at its new code is its key, the null code stays", b_and(pcz, b_not(ok))))
    else:
        bs = inp.bools("b", N)
        paths = run_paths(lambda: fz["factorize_1d"](FakeSeries(A(bs, "bool"), None)))
        for pc, (codes_, labels), rt in paths:
            pcz = b_and(*pc) if pc else True
            for kind, g_, c_, where in rt.obligations:
                merged.obligations.append((kind, b_and(pcz, g_), c_, where))
            labs = list(labels.labels) if isinstance(labels, LIndex) else None
            if labs != [False, True]:
                bads.append((f"labels {labs} != [False, True]", pcz))
                continue
            for i in range(N):
                c = codes_.cells[i]
                code_is_one = c if (is_sym(c) and z3.is_bool(c)) or isinstance(c, bool) else (c == 1)
                bads.append((f"row {i}: code = the boolean value", b_and(pcz, b_not(_iff(code_is_one, bs[i])))))
    dec = decide(inp, bads, merged)
    return _result(E, dec, t0, case, f"factorize_1d:{case['route']}")


def replay_f1d(case, conc):
    import pandas as pd
    from groupby_lib.groupby.factorization import factorize_1d
    N = case["N"]
    problems = []
    if case["route"] == "sort":
        uniq = case["uniques"]
        old = [int(x) for x in conc["c"]]
        # keys whose first-appearance factorization is exactly (old codes, uniq): prepend one row per label in that order
        keys = [uniq[a] for a in range(len(uniq))] + [uniq[c] if c >= 0 else float("nan") for c in old]
        codes, labels = factorize_1d(real_np.array(keys), sort=True)
        labs = [float(x) for x in labels]
        if labs != sorted(uniq):
            problems.append(f"labels {labs}")
        for i, c in enumerate(old):
            got = int(codes[len(uniq) + i])
            if (c < 0) != (got < 0) or (c >= 0 and labs[got] != uniq[c]):
                problems.append(f"row {i}: key {uniq[c] if c >= 0 else None} got code {got}")
    else:
        bs = [bool(x) for x in conc["b"]]
        codes, labels = factorize_1d(real_np.array(bs))
        if list(labels) != [False, True] or [int(c) for c in codes] != [int(b) for b in bs]:
            problems.append(f"codes {list(codes)} labels {list(labels)} for {bs}")
    return bool(problems), {"problems": problems, "inputs": jsonable(conc)}


# ------------------------------------------------------------------ derived views: groups, key counts
def run_views(E, case):
    """gb.groups lists, per label, exactly the ascending positions of its rows; labels without rows are absent; the lists partition the
    non-null-key rows; ikey_count adds up to their number.  Codes are symbolic; every array size / split point that depends on them
    forks over the values the solver says are possible."""
    from ..models import LIndex
    t0 = time.time()
    N, G = case["N"], case["G"]
    labels = case["label_values"]
    inp = Inputs()
    if case.get("lengths"):
        st = ChunkedState(inp, case["lengths"], [min(L, G) for L in case["lengths"]], G)
        codes = st.global_codes()
    else:
        st = None
        codes = inp.codes("k", N, G)
    merged = MergedRT()

    def body():
        if st is not None:
            gb = make_gb(E, G, chunks=st.chunk_arrays(), pointers=st.pointer_arrays(), sort=True, index_sorted=False)
        else:
            gb = make_gb(E, G, codes=A(codes, "int64").tag("state:_group_ikey"), sort=True, index_sorted=False)
        gb._result_index = LIndex(labels, "key")
        groups = gb.groups
        return groups, gb.ikey_count
    paths = run_paths(body, prune=True)
    bads = []
    for pc, (groups, counts), rt in paths:
        pcz = b_and(*pc) if pc else True
        for kind, g_, c_, where in rt.obligations:
            merged.obligations.append((kind, b_and(pcz, g_), c_, where))
        merged.pre.extend(rt.pre)
        keys = list(groups.keys())
        if keys != sorted(keys):
            bads.append((f"group labels not in ascending order: {keys}", pcz))
        for g in range(G):
            lab = labels[g]
            n_g = count_true([c == g for c in codes])
            if lab not in groups:
                bads.append((f"label {lab} has rows but is missing from .groups", b_and(pcz, n_g > 0)))
                continue
            arr = groups[lab]
            cells = arr.cells if isinstance(arr, A) else list(arr)
            bads.append((f"label {lab}: number of positions listed == number of its rows", b_and(pcz, b_not(n_g == len(cells)))))
            for j, p in enumerate(cells):
                inb = b_and(p >= 0, p < N) if is_sym(p) else (0 <= p < N)
                bads.append((f"label {lab}: position {j} is a row of that label", b_and(pcz, b_not(b_and(inb, gather(codes, p) == g)))))
                if j:
                    bads.append((f"label {lab}: positions ascending", b_and(pcz, b_not(cells[j - 1] < p))))
        extra = [k_ for k_ in keys if k_ not in labels]
        if extra:
            bads.append((f"unknown labels {extra}", pcz))
        cc = counts.cells if isinstance(counts, A) else list(counts)
        nonnull = count_true([c >= 0 for c in codes])
        from ..values import total
        bads.append(("ikey_count adds up to the number of non-null-key rows", b_and(pcz, b_not(total(list(cc), 0) == nonnull))))
    wit = []
    if case.get("witness"):
        wit = [("a label without rows", b_and(*[c != 0 for c in codes])), ("a null-key row between rows of one label", b_and(codes[0] == 0, codes[1] == -1, codes[2] == 0))]
    dec = decide(inp, bads, merged, witnesses=wit)
    r = _result(E, dec, t0, case, f"views:{case['rep']}:{'sorted' if labels == sorted(labels) else 'unsorted'} labels")
    r["paths"] = len(paths)
    return r


def replay_views(case, conc):
    from . import c03 as C3
    import pandas as pd
    N, G, labels = case["N"], case["G"], case["label_values"]
    if case.get("lengths"):
        loc = [conc[f"l{c}_"] for c in range(len(case["lengths"]))]
        ptr = [conc[f"p{c}_"] for c in range(len(case["lengths"]))]
        codes = [(-1 if x < 0 else p[x]) for l, p in zip(loc, ptr) for x in l]
        gb = C3.real_gb(G, chunks=loc, pointers=ptr)
    else:
        codes = [int(x) for x in conc["k"]]
        gb = C3.real_gb(G, codes=codes)
    gb._result_index = pd.Index(labels, name="key")
    gb._sort = True
    gb._index_is_sorted = False
    problems = []
    try:
        groups = gb.groups
        counts = [int(x) for x in gb.ikey_count]
    except Exception as e:      # noqa: BLE001
        return True, f"real call raised {type(e).__name__}: {e}"
    for g in range(G):
        rows = [i for i in range(N) if codes[i] == g]
        got = [int(x) for x in groups.get(labels[g], [])]
        if got != rows:
            problems.append(f"groups[{labels[g]}] = {got}, rows of that label are {rows}")
    if sum(counts) != sum(1 for c in codes if c >= 0):
        problems.append(f"ikey_count {counts} does not add up to the number of non-null-key rows")
    if list(groups.keys()) != sorted(groups.keys()):
        problems.append(f"labels not ascending: {list(groups.keys())}")
    return bool(problems), {"problems": problems, "codes": codes, "labels": labels}


def replay(case, conc, cand=None):
    k = case["kind"]
    if k == "views":
        return replay_views(case, conc)
    if k == "f1d":
        return replay_f1d(case, conc)
    if k == "arrow_dict":
        return replay_arrow_dict(case, conc)
    if k == "combine":
        return replay_combine(case, conc)
    if k == "monotonic":
        return replay_monotonic(case, conc)
    if k == "sorted_indexer":
        return replay_sorted_indexer(case, conc)
    if k == "range_index":
        return replay_range_index(case, conc)
    if k == "chunked_constructor":
        from . import constructor
        return constructor.replay(case, conc, cand)
    raise Unsupported(k)


META = {
    "glue": ['groupby_lib/groupby/core.py::groups', 'groupby_lib/groupby/core.py::ikey_count', 'groupby_lib/groupby/core.py::_build_group_sorted_indexer_numba', 'groupby_lib/groupby/core.py::_factorize_group_key_in_chunks', 'groupby_lib/groupby/core.py::_group_sort_indexer', 'groupby_lib/groupby/core.py::count_ikey', 'groupby_lib/groupby/factorization.py::factorize_2d', 'groupby_lib/groupby/factorization.py::factorize_range_index', 'groupby_lib/groupby/factorization.py::monotonic_factorization'],
    "bounds": {"quick": {"N": 4, "keys": "2 keys with label counts (2,2),(1,3),(3,2),(2,1); 3 keys (2,2,2),(2,1,2) at N=3", "monotonic chunks": "<= 2", "sorted indexer": "N=4, G=2"},
               "thorough": {"N": 6, "keys": "2-3 keys, label counts in 1..3", "monotonic chunks": "<= 3", "sorted indexer": "N=5, G=3"}},
    "enumerated": ["for the chunk-wise constructor path: every key sequence of the bound over {1,2,3,null} and every 2-chunk layout, sort on/off (values symbolic)",
                   "number of keys and label counts per key (the mixed-radix weights are then concrete)", "chunk layouts of the monotonic fast path",
                   "null positions for the counting sort (its output length is the number of non-null rows)", "every label order (key_map) for the lazily sorted indexer",
                   "range step"],
    "symbolic": ["per-key codes incl. the null code in any key position", "key values and null flags (monotonic path)", "group assignment of the non-null rows", "range start"],
    "assumptions": ["constructor path: the real _factorize_group_key_in_chunks and monotonic_factorization run on concrete chunked keys with contract models of "
                    "pandas' factorize_array (first-appearance codes, NaN -> -1) and Index.drop_duplicates / sort_values / get_indexer; the resulting state then "
                    "reduces SYMBOLIC values, and the solver decides that every label's sum/first/count is that of exactly the rows carrying the key",
                    "the 1-D factorizers of pandas/pyarrow (pd.factorize, dictionary_encode, categorical codes, factorize_array) and pandas "
                    "drop_duplicates/get_indexer/sort_values inside _factorize_group_key_in_chunks are assumed correct by contract (factorize_1d is replaced by "
                    "a stub returning symbolic codes and a label count)", "np.empty contents are arbitrary (fresh symbolic) values",
                    "how long the monotonic prefix is, is an optimisation and not constrained (only cutoff in [0, N])",
                    "chunk-local codes + pointer tables (unification, count_ikey) are decided under C13/C03"],
    "outside": ["factorize_1d dispatch, arrow/categorical/bool routes", "factorize_2d(sort=True) (not used by GroupBy)", "the `groups` dict (pandas Index keys)"],
}

"""C05 - a mask is equivalent to filtering the rows first (relational; no functional specification involved)."""
import itertools
from . import relational as REL
from . import ema as EMA

PROP = "C05"


def _roll(op, dt, N, G, W, mk):
    return {"fam": "roll", "op": op, "dtype": dt, "N": N, "G": G, "W": W, "min_periods": 1, "mask": {"kind": mk}}


def cases(tier, seed):
    out = []
    N, G = (4, 2) if tier == "quick" else (5, 2)
    masks = [list(b) for b in itertools.product([True, False], repeat=N)]
    red_funcs = ("sum", "count", "max", "first", "last", "mean", "size") if tier == "quick" else REL.R.FUNCS
    for f in red_funcs:
        for dt in ("float64", "int64"):
            base = {"fam": "reduce", "func": f, "dtype": dt, "N": N, "G": G}
            ms = masks if (dt == "float64" or tier == "thorough") else masks[::3]
            for bits in ms:
                for T in ((1, 2) if dt == "float64" else (1,)):
                    out.append(dict(base, rel="mask_is_filter", bits=bits, mask={"kind": "none"}, threads=T))
            for L in (1, 2, 3):
                for T in (1, 2):
                    out.append(dict(base, rel="positions_are_indexing", mask={"kind": "fancy", "L": L}, threads=T))
            for a, b, s in ((1, None, None), (None, -1, None), (None, None, 2), (-3, 3, 1), (N, None, None), (-N - 1, N + 1, 2), (2, 1, None), (None, None, -1),
                            (N - 1, None, -2), (2, -N - 2, -1)):
                out.append(dict(base, rel="slice_is_indexing", mask={"kind": "slice", "start": a, "stop": b, "step": s}, threads=1))
                out.append(dict(base, rel="slice_is_indexing", mask={"kind": "slice", "start": a, "stop": b, "step": s}, threads=2))
            for T in (1,):
                out.append(dict(base, rel="unselected_noninterference", mask={"kind": "bool_sym"}, threads=T, witness=f == "sum"))
    for op in REL.CU.OPS:
        dt = "float64" if op != "cumcount" else "int64"
        base = {"fam": "cum", "op": op, "dtype": dt, "N": N, "G": G, "skip_na": True}
        for bits in masks[1:]:
            out.append(dict(base, rel="mask_is_filter", bits=bits, mask={"kind": "none"}))
        out.append(dict(base, rel="unselected_noninterference", mask={"kind": "bool_sym"}))
        if op == "cumsum":
            out.append(dict(base, rel="unselected_noninterference", mask={"kind": "bool_sym"}, skip_na=False))
    for op in REL.RO.OPS:
        for dt in (("float64",) if tier == "quick" else ("float64", "datetime64[ns]")):
            if dt.startswith("datetime") and op in ("rolling_sum", "rolling_mean"):
                continue
            for W in (1, 2):
                for bits in masks[1:]:
                    out.append(dict(_roll(op, dt, N, G, W, "none"), rel="mask_is_filter", bits=bits))
                out.append(dict(_roll(op, dt, N, G, W, "bool_sym"), rel="unselected_noninterference"))
    for op, n in (("nth", 0), ("nth", 1), ("nth", -1), ("head", 2), ("tail", 2)):
        base = {"fam": "rowsel", "op": op, "n": n, "N": N, "G": G, "dtype": "int64"}
        for bits in masks[1:]:
            out.append(dict(base, rel="mask_is_filter", bits=bits, mask={"kind": "none"}))
        out.append(dict(base, rel="unselected_noninterference", mask={"kind": "bool_sym"}))
    for c in out:
        c["name"] = REL.rel_name(c) + ("/bits=" + "".join("1" if b else "0" for b in c["bits"]) if "bits" in c else "")
    NE = 4 if tier == "quick" else 5
    for first in range(0, 2):
        out.append({"variant": "mask_grouped", "N": NE, "G": 2, "first": first,
                    "name": f"_ema_grouped: mask vs filter-first and vs null-substitution/N={NE},G=2/all masks/code sequences starting with {first}"})
        out.append({"variant": "mask_timed", "N": 3, "G": 2, "first": first,
                    "name": f"_ema_grouped_timed: mask vs filter-first and vs null-substitution/N=3,G=2/all masks, gaps (0,1,2)/code sequences starting with {first}"})
    return out


def run_case(E, case):
    if case.get("variant") in ("mask_grouped", "mask_timed"):
        return EMA.run_mask_relations(E, case, PROP)
    return REL.run_case(E, case, PROP)


def replay(case, inputs, cand=None):
    if case.get("variant") in ("mask_grouped", "mask_timed"):
        return EMA.replay_mask_relations(case, inputs)
    return REL.replay(case, inputs, cand)


META = {
    "glue": ['groupby_lib/groupby/numba.py::_apply_cumulative', 'groupby_lib/groupby/numba.py::_apply_group_method_single_chunk', 'groupby_lib/groupby/numba.py::_apply_rolling', 'groupby_lib/groupby/numba.py::_build_target_for_groupby', 'groupby_lib/groupby/numba.py::_chunk_args_for_chunked_values', 'groupby_lib/groupby/numba.py::_chunk_args_for_unchunked_values', 'groupby_lib/groupby/numba.py::_chunk_groupby_args', 'groupby_lib/groupby/numba.py::_group_func_wrap', 'groupby_lib/groupby/numba.py::combine_chunk_results_for_factorized_key', 'groupby_lib/groupby/numba.py::cumcount', 'groupby_lib/groupby/numba.py::cummax', 'groupby_lib/groupby/numba.py::cummin', 'groupby_lib/groupby/numba.py::cumsum', 'groupby_lib/groupby/numba.py::group_count', 'groupby_lib/groupby/numba.py::group_mean', 'groupby_lib/groupby/numba.py::group_size', 'groupby_lib/groupby/numba.py::group_sum', 'groupby_lib/groupby/numba.py::rolling_diff', 'groupby_lib/groupby/numba.py::rolling_max', 'groupby_lib/groupby/numba.py::rolling_mean', 'groupby_lib/groupby/numba.py::rolling_min', 'groupby_lib/groupby/numba.py::rolling_shift', 'groupby_lib/groupby/numba.py::rolling_sum', 'groupby_lib/util.py::_cast_timestamps_to_ints', 'groupby_lib/util.py::_null_value_for_numpy_type', 'groupby_lib/util.py::check_data_inputs_aligned', 'groupby_lib/util.py::jit_is_null', 'groupby_lib/util.py::parallel_map'],
    "bounds": {"quick": {"N": 4, "G": 2, "W": [1, 2], "positions": "L <= 3"}, "thorough": {"N": 5, "G": 2, "W": [1, 2], "positions": "L <= 3"}},
    "enumerated": ["every boolean mask of the bound for the mask == filter-first relation (the filtered arrays have a data-dependent length)",
                   "slice bounds", "EMA code sequences", "operation, dtype, thread count"],
    "symbolic": ["group codes", "values and null flags", "integer positions", "mask bits in the 'unselected rows never influence' relation",
                 "contents (keys and values) of unselected rows vary freely between the two runs"],
    "assumptions": ["oracle = the real code on related inputs (masked run vs run on the filtered arrays), not a functional specification",
                    "row-aligned outputs are compared at selected rows with a non-null key",
                    "EMA: rows that are masked must in addition behave exactly like rows holding a null value (the library's documented intent)"],
    "outside": ["mask splitting across key chunks (_resolve_mask_argument_into_chunks, _find_first_chunk_in_slice): decided under C03/C13 with the "
                "GroupBy state harness", "pandas-level assembly", "N > 5"],
}

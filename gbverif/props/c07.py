"""C07 - transform=True broadcasts exactly the per-group result (values; containers are pandas and outside)."""
import time
import numpy as real_np
import z3
from ..values import SF, MIN_INT, is_sym, conc_bool, b_and, b_or, b_not, ite, same, Unsupported, OutsideModel
from ..symarray import A, fdiv
from ..models import FakeSeries
from ..runtime import run_paths
from ..harness import Inputs, decide, jsonable, to_float_cells
from .reductions import approx_same, np_to_cells, np_values, null_of, gather
from .gbcore import make_gb, ChunkedState, compositions
from .common import MergedRT, fix_nans
from . import c03 as C3

PROP = "C07"
FUNCS = ("sum", "mean", "min", "max", "first", "last", "count", "size")


def cases(tier, seed):
    out = []
    N, G = (4, 2) if tier == "quick" else (5, 2)
    for f in FUNCS:
        for mk in ("none", "bool_sym"):
            for dt in (("float64", "int64", "timedelta64[ns]") if f in ("sum", "max", "first") else (("float64", "timedelta64[ns]") if f == "mean" else ("float64",))):
                c = {"func": f, "N": N, "G": G, "mask": {"kind": mk}, "dtype": dt, "rep": "contiguous", "witness": f == "mean" and mk == "none"}
                c["name"] = f"GroupBy.{f}(transform=True)/{dt}/contiguous keys/N={N},G={G}/mask={mk}"
                out.append(c)
            for lengths in compositions(N, 2 if tier == "quick" else 3, 2) + ([[1, 2, 1]] if tier == "quick" and f in ("sum", "mean", "first") else []):
                for rep in ("chunked+pointers", "chunked-unified"):
                    c = {"func": f, "N": N, "G": G, "mask": {"kind": mk}, "dtype": "float64", "rep": rep, "lengths": lengths,
                         "witness": f == "sum" and mk == "none"}
                    c["name"] = f"GroupBy.{f}(transform=True)/float64/{rep} {'+'.join(map(str, lengths))}/G={G}/mask={mk}"
                    out.append(c)
    if tier == "thorough":
        for f in FUNCS:
            for rep in ("contiguous", "chunked+pointers"):
                c = {"func": f, "N": 4, "G": 3, "mask": {"kind": "none"}, "dtype": "float64", "rep": rep, "lengths": [2, 2]}
                c["name"] = f"GroupBy.{f}(transform=True)/float64/{rep} 2+2/N=4,G=3/mask=none"
                out.append(c)
    return out


def build(case, inp):
    N, G = case["N"], case["G"]
    d = {}
    if case["rep"] == "contiguous":
        d["codes"] = inp.codes("k", N, G)
    else:
        st = ChunkedState(inp, case["lengths"], [min(L, G) for L in case["lengths"]], G)
        d["state"] = st
        d["codes"] = st.global_codes()
    d["values"] = inp.values("v", N, case["dtype"], sum_safe=case["func"] in ("sum", "mean"))
    if case["mask"]["kind"] == "bool_sym":
        d["mask"] = inp.bools("m", N)
    return d


def make_state(E, case, d):
    G = case["G"]
    if case["rep"] == "contiguous":
        return make_gb(E, G, codes=A(d["codes"], "int64").tag("state:_group_ikey"))
    st = d["state"]
    if case["rep"] == "chunked+pointers":
        return make_gb(E, G, chunks=st.chunk_arrays(), pointers=st.pointer_arrays())
    # unified: chunked array of global codes, no pointer tables
    gl = d["codes"]
    chunks = []
    p = 0
    for L in case["lengths"]:
        chunks.append(A(gl[p:p + L], "int64").tag("state:_group_ikey"))
        p += L
    return make_gb(E, G, chunks=chunks, pointers=None)


def run_case(E, case):
    t0 = time.time()
    inp = Inputs()
    d = build(case, inp)
    G, N, f = case["G"], case["N"], case["func"]
    dt = real_np.dtype(case["dtype"])
    merged = MergedRT()

    def mask_obj():
        return A(d["mask"], "bool").tag("input:mask") if "mask" in d else None

    def transform():
        gb = make_state(E, case, d)
        vals = A(d["values"], dt).tag("input:values")
        if f == "size":
            r = gb._apply_gb_reduction("count", vals, mask_obj(), transform=True)
        else:
            r = gb._apply_gb_reduction(f, vals, mask_obj(), transform=True)
        return r.arr if isinstance(r, FakeSeries) else r

    def reference():
        gb = make_gb(E, G, codes=A(d["codes"], "int64"))
        vals = A(d["values"], dt)
        ff = "sum" if f == "mean" else ("count" if f == "size" else f)
        (res, cnt), = gb._apply_gb_func_across_chunked_group_keys(ff, [vals], mask_obj())
        return res, cnt
    try:
        p1 = run_paths(transform)
        p2 = run_paths(reference)
    except (Unsupported, OutsideModel):
        raise
    except Exception as e:      # noqa: BLE001 - the code under test raised on a valid state
        from ..harness import solve_exists
        res_, m = solve_exists(list(inp.pre) + list(getattr(e, "gb_pc", [])), True)
        return {"verdict": "sat", "solver_s": 0.0, "symex_s": time.time() - t0, "n_queries": 1, "obligations": 0, "failed_obligations": [],
                "witnesses": {}, "encoded": sorted(E.encoded),
                "candidates": [{"signature": f"{PROP}:raises:{type(e).__name__}:{f}:{case['rep']}", "case": case,
                                "inputs": jsonable(inp.eval(m)) if m is not None else {}, "kind": "raises", "labels": [f"{type(e).__name__}: {e}"]}]}
    bads = []
    codes = d["codes"]
    for pc1, out, rt1 in p1:
        for pc2, (res, cnt), rt2 in p2:
            pcz = b_and(*(pc1 + pc2)) if (pc1 or pc2) else True
            if isinstance(out, A) and len(out) != N:
                bads.append(("length of the transformed result", pcz))
                continue
            per_group = []
            for g in range(G):
                if f in ("count", "size"):
                    per_group.append(cnt.cells[g])
                elif f == "mean" and dt.kind in "mM":
                    # temporal mean = floor(sum / count) in the value's unit, NaT when nothing was counted
                    from ..values import int_floordiv
                    sm, cn = res.cells[g], cnt.cells[g]
                    q = z3.IntVal(0)
                    for k_ in range(16, 0, -1):
                        q = z3.If(cn == k_, int_floordiv(sm, k_), q) if is_sym(cn) else (int_floordiv(sm, k_) if cn == k_ else q)
                    per_group.append(ite(cn == 0, MIN_INT, q))
                elif f == "mean":
                    per_group.append(fdiv(res.cells[g], cnt.cells[g]))
                else:
                    per_group.append(res.cells[g])
            neutral = null_of(dt, "size" if f in ("count", "size") else f)
            for i in range(N):
                exp = neutral
                for g in range(G - 1, -1, -1):
                    exp = ite(codes[i] == g, per_group[g], exp)
                bads.append((f"{f}.transform[row {i}]", b_and(pcz, b_not(same(out.cells[i], exp)))))
    for paths in (p1, p2):
        for pc, _, rt in paths:
            for kind, g_, c_, where in rt.obligations:
                merged.obligations.append((kind, b_and(*pc, g_) if pc else g_, c_, where))
            merged.pre.extend(rt.pre)
    wit = []
    if case.get("witness"):
        wit = [("row with a null key", b_or(*[c == -1 for c in codes])),
               ("group whose values are all null", b_and(codes[0] == 0, *[c != 0 for c in codes[1:]], d["values"][0].nan if isinstance(d["values"][0], SF) else False))]
    dec = decide(inp, bads, merged, witnesses=wit)
    r = {"verdict": dec.verdict, "solver_s": dec.solver_s, "symex_s": time.time() - t0 - dec.solver_s, "n_queries": dec.n_queries,
         "obligations": dec.obligations, "failed_obligations": dec.failed_obligations, "witnesses": dec.witnesses, "candidates": [],
         "encoded": sorted(E.encoded)}
    if dec.verdict == "sat" and not any(k_ == "bounds" for k_, w_ in dec.failed_obligations):
        r["candidates"].append({"signature": f"{PROP}:transform:{f}:{case['rep']}", "case": case, "inputs": jsonable(dec.model), "kind": "property",
                                "labels": dec.which[:4]})
    if dec.failed_obligations:
        r["verdict"] = "sat"
        kinds = sorted({k for k, w in dec.failed_obligations})
        r["candidates"].append({"signature": f"{PROP}:obligation:{','.join(kinds)}:transform:{case['rep']}", "case": case, "inputs": jsonable(dec.ob_model),
                                "kind": "obligation", "labels": [f"{a}@{b}" for a, b in dec.failed_obligations[:4]]})
    return r


def replay(case, conc, cand=None):
    """public API where possible: GroupBy(keys).f(values, mask, transform=True) vs the non-transform result broadcast by hand"""
    import pandas as pd
    conc = fix_nans(conc)
    G, N, f = case["G"], case["N"], case["func"]
    dt = real_np.dtype(case["dtype"])
    vals = np_values(to_float_cells(conc["v"]), dt)
    mask = real_np.array(conc["m"], dtype=bool) if "m" in conc else None
    try:
        if case["rep"] == "contiguous":
            glob = conc["k"]
            gb = C3.real_gb(G, codes=glob)
        else:
            loc = [conc[f"l{c}_"] for c in range(len(case["lengths"]))]
            ptr = [conc[f"p{c}_"] for c in range(len(case["lengths"]))]
            glob = [(-1 if x < 0 else p[x]) for l, p in zip(loc, ptr) for x in l]
            if case["rep"] == "chunked+pointers":
                gb = C3.real_gb(G, chunks=loc, pointers=ptr)
            else:
                ch = []
                p = 0
                for L in case["lengths"]:
                    ch.append(glob[p:p + L])
                    p += L
                gb = C3.real_gb(G, chunks=ch, pointers=None)
        ref = C3.real_gb(G, codes=glob)
        ff = "sum" if f == "mean" else ("count" if f == "size" else f)
        (res, cnt), = ref._apply_gb_func_across_chunked_group_keys(ff, [vals], mask)
        if f == "size":
            out = gb._apply_gb_reduction("count", vals, mask, transform=True)
        else:
            out = gb._apply_gb_reduction(f, vals, mask, transform=True)
        out = np_to_cells(real_np.asarray(out))
    except Exception as e:      # noqa: BLE001
        return True, f"real call raised {type(e).__name__}: {e}"
    res, cnt = np_to_cells(res), np_to_cells(cnt)
    per_group = []
    for g in range(G):
        if f in ("count", "size"):
            per_group.append(cnt[g])
        elif f == "mean" and dt.kind in "mM":
            per_group.append(int(res[g]) // int(cnt[g]) if cnt[g] else MIN_INT)
        elif f == "mean":
            per_group.append(res[g] / cnt[g] if cnt[g] else float("nan"))
        else:
            per_group.append(res[g])
    neutral = null_of(dt, "size" if f in ("count", "size") else f)
    exp = [per_group[k] if k >= 0 else neutral for k in glob]
    bad = [i for i in range(N) if not approx_same(out[i], exp[i])]
    return bool(bad), {"transform": jsonable(out), "expected": jsonable(exp), "wrong_rows": bad, "global_codes": glob, "inputs": jsonable(conc)}


META = {
    "glue": ['groupby_lib/groupby/core.py::_apply_gb_func_across_chunked_group_keys', 'groupby_lib/groupby/core.py::_apply_gb_reduction', 'groupby_lib/groupby/core.py::_find_first_chunk_in_slice', 'groupby_lib/groupby/core.py::_group_sort_indexer', 'groupby_lib/groupby/core.py::_max_threads_for_numba', 'groupby_lib/groupby/core.py::_resolve_mask_argument_into_chunks', 'groupby_lib/groupby/core.py::_unify_for_positional_mask', 'groupby_lib/groupby/core.py::_unify_group_key_chunks', 'groupby_lib/groupby/core.py::count_ikey', 'groupby_lib/util.py::array_split_with_chunk_handling'],
    "bounds": {"quick": {"N": 4, "G": 2, "key_chunks": 2}, "thorough": {"N": 5, "G": 2, "key_chunks": "<= 3", "extra": "N=4,G=3 with 2 chunks"}},
    "enumerated": ["reduction", "key representation (contiguous, chunked with pointer tables, chunked after unification) and chunk layout", "mask present or not"],
    "symbolic": ["group codes / chunk-local codes and pointer tables", "values and null flags", "mask bits"],
    "assumptions": ["the real GroupBy._apply_gb_reduction(transform=True) runs on a directly constructed instance; _preprocess_arguments and "
                    "_convert_arr_to_pandas_series are cut to pass-throughs, pd.DataFrame/Series are construction-only fakes",
                    "oracle: the per-group result of the same real kernels (non-transform path on contiguous codes; sum/count for mean) broadcast by the "
                    "row's global code; rows with a null key receive the neutral result (0 for sum/count/size, null otherwise)"],
    "outside": ["index restoration and container type (pandas in/pandas out, polars in/polars out)", "var/std/median/apply transform (C16)"],
}

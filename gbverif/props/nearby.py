"""group_nearby_members: null-key rows must not touch any group's state (C06)."""
import itertools
import time
import numpy as real_np
import z3
from ..values import SF, is_sym, conc_bool, b_and, b_or, b_not, ite, same
from ..symarray import A
from ..runtime import fresh_runtime
from ..harness import Inputs, decide, jsonable, to_float_cells
from . import common


def cases(tier):
    N = 4 if tier == "quick" else 5
    out = []
    for bits in itertools.product([True, False], repeat=N):
        if all(bits):
            continue
        out.append({"nearby": True, "N": N, "G": 2, "bits": list(bits),
                    "name": f"delete_null_rows:group_nearby_members/N={N},G=2/null pattern " + "".join("k" if b else "-" for b in bits)})
    return out


def run_case(E, case, prop):
    t0 = time.time()
    N, G, bits = case["N"], case["G"], case["bits"]
    nbm = E["gbnumba"]
    inp = Inputs()
    ks = inp.codes("k", N, G, allow_null=False)
    vs = inp.ints("v", N, -50, 50)
    md = inp.scalar_int("max_diff", 0, 20)
    for i in range(1, N):
        inp.pre.append(vs[i] >= vs[i - 1])
    codes = [ks[i] if bits[i] else -1 for i in range(N)]
    keep = [i for i in range(N) if bits[i]]
    rt = fresh_runtime()
    f = nbm["group_nearby_members"]
    kern = getattr(f, "__wrapped__", f)
    kern = getattr(kern, "__nb_func__", None) or _find_kernel(f)
    o1 = kern(A(codes, "int64").tag("input:group_key"), A(vs, "int64").tag("input:values"), md, G)
    bads = []
    for i in range(N):
        if not bits[i]:
            bads.append((f"null-key row {i} is in no sub-group", b_not(o1.cells[i] == -1)))
    if keep:
        o2 = kern(A([codes[i] for i in keep], "int64"), A([vs[i] for i in keep], "int64"), md, G)
        for a, ia in enumerate(keep):
            for b, ib in enumerate(keep):
                if a < b:
                    bads.append((f"rows {ia},{ib}: same sub-group with and without the null-key rows",
                                 b_not((o1.cells[ia] == o1.cells[ib]) == (o2.cells[a] == o2.cells[b]))))
    dec = decide(inp, bads, rt)
    r = {"verdict": dec.verdict, "solver_s": dec.solver_s, "symex_s": time.time() - t0 - dec.solver_s, "n_queries": dec.n_queries,
         "obligations": dec.obligations, "failed_obligations": dec.failed_obligations, "witnesses": {}, "candidates": [], "encoded": sorted(E.encoded)}
    if dec.verdict == "sat" or dec.failed_obligations:
        model = dec.model if dec.verdict == "sat" else dec.ob_model
        r["verdict"] = "sat"
        r["candidates"].append({"signature": f"{prop}:group_nearby_members:null_key_rows", "case": case, "inputs": jsonable(model), "kind": "property",
                                "labels": dec.which[:4] + [f"{a}@{b}" for a, b in dec.failed_obligations[:3]]})
    return r


def _find_kernel(f):
    # check_data_inputs_aligned(wraps) -> _wrap_numba wrapper (has __nb_func__) -> KernelObj
    seen = set()
    while f is not None and id(f) not in seen:
        seen.add(id(f))
        if hasattr(f, "__nb_func__"):
            return f.__nb_func__
        if hasattr(f, "py_func"):
            return f
        f = getattr(f, "__wrapped__", None)
    raise RuntimeError("group_nearby_members kernel not found")


def replay(case, conc, cand=None):
    import groupby_lib.groupby.numba as rnb
    N, G, bits = case["N"], case["G"], case["bits"]
    k = [conc["k"][i] if bits[i] else -1 for i in range(N)]
    v = conc["v"]
    md = conc["max_diff"][0]
    keep = [i for i in range(N) if bits[i]]
    try:
        o1 = rnb.group_nearby_members(real_np.array(k), real_np.array(v), md, G)
        bad = [i for i in range(N) if not bits[i] and o1[i] != -1]
        o2 = None
        if keep:
            o2 = rnb.group_nearby_members(real_np.array([k[i] for i in keep]), real_np.array([v[i] for i in keep]), md, G)
            for a, ia in enumerate(keep):
                for b, ib in enumerate(keep):
                    if a < b and (o1[ia] == o1[ib]) != (o2[a] == o2[b]):
                        bad.append((ia, ib))
        return bool(bad), {"with_null_rows": jsonable(list(o1)), "without": jsonable(list(o2)) if o2 is not None else None, "wrong": jsonable(bad),
                           "k": k, "v": v, "max_diff": md}
    except Exception as e:      # noqa: BLE001
        return True, f"real call raised {type(e).__name__}: {e}"

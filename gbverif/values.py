"""Scalar value domain (MATH): ints -> z3 Int / python int, bools -> z3 Bool / python bool,
floats -> SF(nan flag, real, +inf flag, -inf flag) or python float in concrete mode."""
import math
from fractions import Fraction
import z3

MIN_INT = -2**63
MAX_INT = 2**63 - 1


class Unsupported(Exception):
    """construct outside the encoder: the run is inconclusive (never a pass, never a violation)"""


class OutsideModel(Exception):
    """pandas/pyarrow/polars behaviour that is not modelled was reached"""


class Undef:
    def __repr__(self):
        return "UNDEF"


UNDEF = Undef()


def is_sym(x):
    return isinstance(x, z3.ExprRef)


def to_z3_bool(x):
    if isinstance(x, bool):
        return z3.BoolVal(x)
    if isinstance(x, int):
        return z3.BoolVal(x != 0)
    if is_sym(x):
        if z3.is_bool(x):
            return x
        if z3.is_int(x) or z3.is_real(x):
            return x != 0
    if isinstance(x, SF):
        return z3.Not(x.eq(0.0))
    if isinstance(x, float):
        return z3.BoolVal(x != 0)
    if hasattr(x, "__bool__") or x is None:
        return z3.BoolVal(bool(x))
    raise TypeError(f"bool of {x!r}")


def conc_bool(x):
    """python bool if concretely known else None"""
    if isinstance(x, bool):
        return x
    if x is None:
        return False
    if is_sym(x):
        if z3.is_true(x):
            return True
        if z3.is_false(x):
            return False
        s = z3.simplify(to_z3_bool(x))
        if z3.is_true(s):
            return True
        if z3.is_false(s):
            return False
        return None
    if isinstance(x, SF):
        return None
    return bool(x)


def b_not(x):
    cb = conc_bool(x)
    if cb is not None:
        return not cb
    return z3.Not(to_z3_bool(x))


def b_and(*parts):
    out = []
    for p in parts:
        cb = conc_bool(p)
        if cb is False:
            return False
        if cb is True:
            continue
        out.append(to_z3_bool(p))
    if not out:
        return True
    return z3.And(*out) if len(out) > 1 else out[0]


def b_or(*parts):
    out = []
    for p in parts:
        cb = conc_bool(p)
        if cb is True:
            return True
        if cb is False:
            continue
        out.append(to_z3_bool(p))
    if not out:
        return False
    return z3.Or(*out) if len(out) > 1 else out[0]


def zb(x):
    return x if is_sym(x) else z3.BoolVal(bool(x))


def lift(x):
    if is_sym(x):
        return x
    if isinstance(x, bool):
        return z3.BoolVal(x)
    if isinstance(x, int):
        return z3.IntVal(x)
    if isinstance(x, Fraction):
        return z3.RealVal(x)
    if isinstance(x, float):
        return z3.RealVal(Fraction(x))
    if hasattr(x, "item"):
        return lift(x.item())
    raise TypeError(f"lift {x!r}")


def lift2(a, b):
    a, b = lift(a), lift(b)
    if z3.is_bool(a) and not z3.is_bool(b):
        a = z3.If(a, z3.IntVal(1), z3.IntVal(0))
    if z3.is_bool(b) and not z3.is_bool(a):
        b = z3.If(b, z3.IntVal(1), z3.IntVal(0))
    if z3.is_int(a) and z3.is_real(b):
        a = z3.ToReal(a)
    if z3.is_real(a) and z3.is_int(b):
        b = z3.ToReal(b)
    return a, b


def to_real(x):
    if is_sym(x):
        if z3.is_real(x):
            return x
        if z3.is_int(x):
            return z3.ToReal(x)
        if z3.is_bool(x):
            return z3.If(x, z3.RealVal(1), z3.RealVal(0))
    if isinstance(x, bool):
        return z3.RealVal(int(x))
    if isinstance(x, int):
        return z3.RealVal(x)
    if isinstance(x, Fraction):
        return z3.RealVal(x)
    if isinstance(x, float):
        return z3.RealVal(Fraction(x))
    if hasattr(x, "item"):
        return to_real(x.item())
    raise TypeError(x)


class Config:
    # squares of input values as an uninterpreted function: sound over-approximation that keeps "sum of squares"
    # queries linear; switched off where the algebra of squares matters (variance identity)
    sq_uninterpreted = True
    div_uninterpreted = True


_DIV = z3.Function("div", z3.RealSort(), z3.RealSort(), z3.RealSort())
_SQR = z3.Function("sq", z3.RealSort(), z3.RealSort())
_SQI = z3.Function("sqi", z3.IntSort(), z3.IntSort())


_TRUNC = z3.Function("trunc", z3.RealSort(), z3.IntSort())


def real_as_int(v):
    """Int term equal to the Real term v when v is built from integers only (ToReal, +, -, *, ite, integer numerals)"""
    if z3.is_int(v):
        return v
    if z3.is_rational_value(v):
        if v.denominator_as_long() == 1:
            return z3.IntVal(v.numerator_as_long())
        q = Fraction(v.numerator_as_long(), v.denominator_as_long())
        return z3.IntVal(int(q))          # python int() truncates toward zero
    if not z3.is_app(v):
        return None
    k = v.decl().kind()
    if k == z3.Z3_OP_TO_REAL:
        return v.arg(0)
    if k in (z3.Z3_OP_ADD, z3.Z3_OP_SUB, z3.Z3_OP_MUL, z3.Z3_OP_UMINUS):
        args = [real_as_int(a) for a in v.children()]
        if any(a is None for a in args):
            return None
        if k == z3.Z3_OP_UMINUS:
            return -args[0]
        acc = args[0]
        for a in args[1:]:
            acc = acc + a if k == z3.Z3_OP_ADD else (acc - a if k == z3.Z3_OP_SUB else acc * a)
        return acc
    if k == z3.Z3_OP_ITE:
        a, b = real_as_int(v.arg(1)), real_as_int(v.arg(2))
        if a is None or b is None:
            return None
        return z3.If(v.arg(0), a, b)
    return None


class SF:
    """MATH-domain float: nan flag, real value, +inf / -inf flags (flags are python bools or z3 Bools)"""
    __slots__ = ("nan", "v", "pinf", "ninf")

    def __init__(self, nan, v, pinf=False, ninf=False):
        self.nan = nan
        self.v = v
        self.pinf = pinf
        self.ninf = ninf

    @staticmethod
    def of(x):
        if isinstance(x, SF):
            return x
        if hasattr(x, "dtype") and hasattr(x, "item") and not is_sym(x):
            x = x.item()
        if isinstance(x, float):
            if x != x:
                return SF(True, z3.RealVal(0))
            if x == math.inf:
                return SF(False, z3.RealVal(0), True, False)
            if x == -math.inf:
                return SF(False, z3.RealVal(0), False, True)
            return SF(False, z3.RealVal(Fraction(x)))
        return SF(False, to_real(x))

    # ---- helpers
    def trivial(self):
        return self.pinf is False and self.ninf is False

    def fin(self):
        return b_and(b_not(self.pinf), b_not(self.ninf))

    def _nn(self, o):
        return b_and(b_not(self.nan), b_not(o.nan))

    def lt(self, o):
        o = SF.of(o)
        if self.trivial() and o.trivial():
            return b_and(self._nn(o), self.v < o.v)
        return b_and(self._nn(o), b_or(b_and(self.ninf, b_not(o.ninf)), b_and(o.pinf, b_not(self.pinf)),
                                       b_and(self.fin(), o.fin(), self.v < o.v)))

    def le(self, o):
        o = SF.of(o)
        if self.trivial() and o.trivial():
            return b_and(self._nn(o), self.v <= o.v)
        return b_and(self._nn(o), b_or(self.ninf, o.pinf, b_and(self.fin(), o.fin(), self.v <= o.v)))

    def eq(self, o):
        o = SF.of(o)
        if self.trivial() and o.trivial():
            return b_and(self._nn(o), self.v == o.v)
        return b_and(self._nn(o), b_or(b_and(self.pinf, o.pinf), b_and(self.ninf, o.ninf),
                                       b_and(self.fin(), o.fin(), self.v == o.v)))

    def __lt__(self, o): return self.lt(o)
    def __le__(self, o): return self.le(o)
    def __gt__(self, o): return SF.of(o).lt(self)
    def __ge__(self, o): return SF.of(o).le(self)
    def __eq__(self, o): return self.eq(o)
    def __ne__(self, o): return b_not(self.eq(o))
    __hash__ = object.__hash__

    def same(self, o):
        """bitwise-style identity: both NaN, or equal"""
        o = SF.of(o)
        return b_or(b_and(self.nan, o.nan), self.eq(o))

    def __neg__(self):
        return SF(self.nan, -self.v, self.ninf, self.pinf)

    def __abs__(self):
        return SF(self.nan, z3.If(self.v < 0, -self.v, self.v), b_or(self.pinf, self.ninf), False)

    def _addsub(self, o, sign):
        o = SF.of(o)
        if sign < 0:
            o = -o
        if self.trivial() and o.trivial():
            return SF(b_or(self.nan, o.nan), self.v + o.v)
        nan = b_or(self.nan, o.nan, b_and(self.pinf, o.ninf), b_and(self.ninf, o.pinf))
        return SF(nan, self.v + o.v, b_or(self.pinf, o.pinf), b_or(self.ninf, o.ninf))

    def __add__(self, o): return self._addsub(o, 1)
    def __radd__(self, o): return SF.of(o)._addsub(self, 1)
    def __sub__(self, o): return self._addsub(o, -1)
    def __rsub__(self, o): return SF.of(o)._addsub(self, -1)

    def __mul__(self, o):
        o = SF.of(o)
        if not (self.trivial() and o.trivial()):
            raise Unsupported("multiplication with infinities")
        if Config.sq_uninterpreted and self.v.eq(o.v) and not z3.is_rational_value(self.v):
            return SF(b_or(self.nan, o.nan), _SQR(self.v))
        return SF(b_or(self.nan, o.nan), self.v * o.v)

    def __rmul__(self, o): return SF.of(o).__mul__(self)

    def _div_with_infinities(self, o):
        """IEEE division when an operand may already be infinite (signed zeros are not distinguished: a zero divisor counts as +0)"""
        s_inf = b_or(self.pinf, self.ninf)
        o_inf = b_or(o.pinf, o.ninf)
        zero = b_and(b_not(o_inf), o.v == 0)
        nan = b_or(self.nan, o.nan, b_and(s_inf, o_inf), b_and(zero, b_not(s_inf), self.v == 0))
        o_nonneg = o.v >= 0
        pinf = b_and(b_not(nan), b_or(b_and(self.pinf, b_not(o_inf), o_nonneg), b_and(self.ninf, b_not(o_inf), b_not(o_nonneg)),
                                     b_and(b_not(s_inf), zero, self.v > 0)))
        ninf = b_and(b_not(nan), b_or(b_and(self.ninf, b_not(o_inf), o_nonneg), b_and(self.pinf, b_not(o_inf), b_not(o_nonneg)),
                                     b_and(b_not(s_inf), zero, self.v < 0)))
        special = to_z3_bool(b_or(zero, s_inf, o_inf))
        q = _DIV(self.v, o.v) if Config.div_uninterpreted else self.v / z3.If(special, z3.RealVal(1), o.v)
        return SF(nan, z3.If(special, z3.RealVal(0), q), pinf, ninf)

    def __truediv__(self, o):
        o = SF.of(o)
        if not (self.trivial() and o.trivial()):
            return self._div_with_infinities(o)
        if z3.is_rational_value(o.v) and not z3.is_true(z3.simplify(o.v == 0)) and (
                not Config.div_uninterpreted or z3.is_rational_value(self.v)):
            return SF(b_or(self.nan, o.nan), self.v / o.v)
        from .runtime import current
        rt = current()
        if getattr(rt, "div_obligation", False):
            # kernels whose divisors are positive by construction (EMA): no infinities are created, the divisor being
            # non-zero becomes a side obligation decided by the solver
            rt.check("div_by_zero", b_or(o.nan, o.v != 0))
            return SF(b_or(self.nan, o.nan), self.v / o.v)
        zero = o.v == 0
        nan = b_or(self.nan, o.nan, b_and(zero, self.v == 0))
        # quotient by a symbolic divisor as an uninterpreted function (sound over-approximation: equal operands still give
        # equal quotients), so that mean-type queries stay linear; the algebra of division is only needed for EMA / variance,
        # which use the obligation mode above or switch this off
        q = _DIV(self.v, o.v) if Config.div_uninterpreted else self.v / o.v
        return SF(nan, z3.If(zero, z3.RealVal(0), q), b_and(zero, self.v > 0), b_and(zero, self.v < 0))

    def __rtruediv__(self, o): return SF.of(o).__truediv__(self)

    def __pow__(self, k):
        if k == 2:
            return self * self
        if k == 0.5:
            from .runtime import current
            rt = current()
            s_ = rt.fresh("sqrt", "Real")
            # square root by its defining property (no approximation): s >= 0 and s*s == v for v >= 0; NaN for v < 0
            rt.pre.append(z3.Implies(self.v >= 0, z3.And(s_ >= 0, s_ * s_ == self.v)))
            return SF(b_or(self.nan, self.v < 0), s_)
        raise Unsupported(f"pow {k}")

    def to_int(self):
        """numba float -> int64 cast: truncation toward zero, NaN -> INT64_MIN (x86 cvttsd2si)"""
        t = real_as_int(self.v)
        if t is None:
            # truncation of a genuinely fractional term: uninterpreted (sound over-approximation; equal arguments
            # still give equal results), because ToInt over symbolic quotients stalls the solver
            t = _TRUNC(self.v)
        cb = conc_bool(self.nan)
        if cb is False:
            return z3.simplify(t)
        if cb is True:
            return MIN_INT
        return z3.If(to_z3_bool(self.nan), z3.IntVal(MIN_INT), t)

    def __repr__(self):
        return f"SF(nan={self.nan}, v={self.v})"


def ite(c, a, b):
    cb = conc_bool(c)
    if cb is True:
        return a
    if cb is False:
        return b
    if a is b:
        return a
    if isinstance(a, Undef):
        return b
    if isinstance(b, Undef):
        return a
    for h in _ITE_HOOKS:
        r = h(c, a, b)
        if r is not NotImplemented:
            return r
    if isinstance(a, tuple) or isinstance(b, tuple):
        if not (isinstance(a, tuple) and isinstance(b, tuple) and len(a) == len(b)):
            raise Unsupported("merge of tuple with non-tuple")
        return tuple(ite(c, x, y) for x, y in zip(a, b))
    if isinstance(a, (SF, float)) or isinstance(b, (SF, float)):
        a = SF.of(a)
        b = SF.of(b)
        cz = to_z3_bool(c)

        def m(x, y):
            if not is_sym(x) and not is_sym(y) and x == y:
                return x
            return z3.If(cz, zb(x), zb(y))
        return SF(m(a.nan, b.nan), z3.If(cz, a.v, b.v), m(a.pinf, b.pinf), m(a.ninf, b.ninf))
    if a is None or b is None:
        if a is None and b is None:
            return None
        raise Unsupported("merge of None with a value")
    if not is_sym(a) and not is_sym(b) and type(a) == type(b) and a == b:
        return a
    a2, b2 = lift2(a, b)
    return z3.If(to_z3_bool(c), a2, b2)


_ITE_HOOKS = []


def same(a, b):
    """equality that treats NaN as equal to NaN (for comparing results)"""
    if isinstance(a, SF) or isinstance(b, SF):
        return SF.of(a).same(b)
    if isinstance(a, float) or isinstance(b, float):
        fa, fb = float(a), float(b)
        if fa != fa or fb != fb:
            return (fa != fa) and (fb != fb)
        return fa == fb
    r = a == b
    return r if is_sym(r) else bool(r)


def sym_abs(x):
    if isinstance(x, SF):
        return abs(x)
    if is_sym(x):
        return z3.If(x < 0, -x, x)
    return abs(x)


def isnan(x):
    if isinstance(x, SF):
        return x.nan
    if isinstance(x, float):
        return x != x
    if is_sym(x):
        return False
    if hasattr(x, "dtype") and getattr(x.dtype, "kind", "") == "f":
        return bool(x != x)
    return False


def total(xs, zero=0):
    """sum that returns the single operand unchanged (cvc5 rejects unary +)"""
    xs = list(xs)
    if not xs:
        return zero
    acc = xs[0]
    for x in xs[1:]:
        acc = acc + x
    return acc


# small integer powers as products (z3's x**2 is a power term -> nonlinear engine)
_orig_pow = z3.ArithRef.__pow__


def _int_overflow_obligation(r):
    """where a case asks for it (variance of integer data), a 64-bit integer product / stored sum must fit into 64 bits: the solver's
    integers do not wrap, the machine's do"""
    try:
        from .runtime import current
        rt = current()
    except Exception:      # noqa: BLE001
        return
    if getattr(rt, "check_int_overflow", False) and z3.is_int(r) and not z3.is_int_value(r):
        rt.check("int_overflow", z3.And(r >= -2**63, r < 2**63))


def _pow(self, k):
    if k == 2 and Config.sq_uninterpreted and not (z3.is_int_value(self) or z3.is_rational_value(self)):
        r = _SQI(self) if z3.is_int(self) else _SQR(self)
        if z3.is_int(self):
            _int_overflow_obligation(self * self)
        return r
    if isinstance(k, int) and 0 < k <= 4:
        r = self
        for _ in range(k - 1):
            r = r * self
        if z3.is_int(self):
            _int_overflow_obligation(r)
        return r
    return _orig_pow(self, k)


z3.ArithRef.__pow__ = _pow


# numba orders / adds booleans as 0/1 integers
def _b2i(x):
    return z3.If(x, z3.IntVal(1), z3.IntVal(0))


def _oi(o):
    if isinstance(o, bool):
        return z3.IntVal(int(o))
    if is_sym(o) and z3.is_bool(o):
        return _b2i(o)
    return o


z3.BoolRef.__lt__ = lambda a, b: _b2i(a) < _oi(b)
z3.BoolRef.__le__ = lambda a, b: _b2i(a) <= _oi(b)
z3.BoolRef.__gt__ = lambda a, b: _b2i(a) > _oi(b)
z3.BoolRef.__ge__ = lambda a, b: _b2i(a) >= _oi(b)
z3.BoolRef.__add__ = lambda a, b: _b2i(a) + _oi(b)
z3.BoolRef.__radd__ = lambda a, b: _oi(b) + _b2i(a)
z3.BoolRef.__sub__ = lambda a, b: _b2i(a) - _oi(b)
z3.BoolRef.__rsub__ = lambda a, b: _oi(b) - _b2i(a)
z3.BoolRef.__mul__ = lambda a, b: _b2i(a) * _oi(b)
z3.BoolRef.__rmul__ = lambda a, b: _oi(b) * _b2i(a)


# z3 operators raise instead of returning NotImplemented when the other operand is an SF: defer to SF's reflected ops
def _defer_to_sf(cls, name):
    orig = getattr(cls, name, None)
    if orig is None:
        return

    def op(self, other, _orig=orig):
        if isinstance(other, SF):
            return NotImplemented
        if hasattr(other, "dtype") and hasattr(other, "item") and not is_sym(other):
            other = other.item()          # numpy scalar
        if _orig.__name__ in ("__truediv__", "__div__", "__rtruediv__") and z3.is_int(self) and (
                isinstance(other, int) or (is_sym(other) and z3.is_int(other))):
            # python/numpy true division of integers is a float, not z3's integer division
            a, b = SF.of(self), SF.of(other)
            return b / a if _orig.__name__ == "__rtruediv__" else a / b
        if isinstance(other, float) and not (z3.is_real(self)):
            return getattr(SF.of(self), name)(other)
        return _orig(self, other)
    setattr(cls, name, op)


def _int_and(self, o):
    """x & 2^i for a non-negative symbolic integer x: the i-th bit, kept as 2^i or 0 (the only use of & on integers in the sources)"""
    if isinstance(o, bool) or not isinstance(o, int) or o <= 0 or (o & (o - 1)) != 0 or not z3.is_int(self):
        raise Unsupported("bitwise and of a symbolic integer with anything but a power of two")
    return z3.If(_z3_arith_div(self, z3.IntVal(o)) % 2 == 1, z3.IntVal(o), z3.IntVal(0))


_z3_arith_div = z3.ArithRef.__div__          # z3's own division (integer div on Int operands), before patching


def int_floordiv(a, b):
    """floor division of a symbolic Int by a positive python int"""
    return _z3_arith_div(a, b)


for _n in ("__add__", "__sub__", "__mul__", "__truediv__", "__div__", "__lt__", "__le__", "__gt__", "__ge__",
           "__radd__", "__rsub__", "__rmul__", "__rtruediv__"):
    _defer_to_sf(z3.ArithRef, _n)
    _defer_to_sf(z3.BoolRef, _n)

_orig_expr_eq = z3.ExprRef.__eq__
_orig_expr_ne = z3.ExprRef.__ne__


def _expr_eq(self, other):
    if isinstance(other, SF):
        return other.eq(self)
    return _orig_expr_eq(self, other)


def _expr_ne(self, other):
    if isinstance(other, SF):
        return b_not(other.eq(self))
    return _orig_expr_ne(self, other)


z3.ExprRef.__eq__ = _expr_eq
z3.ExprRef.__ne__ = _expr_ne
z3.ExprRef.__hash__ = lambda self: z3.AstRef.__hash__(self)


z3.ArithRef.__and__ = _int_and
z3.ArithRef.__rand__ = _int_and

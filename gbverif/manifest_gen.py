"""Writes MANIFEST.json from the table below (kept in one place so that it stays valid while checks are added)."""
import json
import os

VERIF = os.path.dirname(os.path.dirname(os.path.abspath(__file__)))
TECH = "bounded symbolic execution of the real source (shadow import + if-conversion) decided by z3; counterexamples replayed on the compiled code"

CLAIMED = {
    "C01": ("for every code sequence of length <= N over {null,0..G-1}, every value/null placement of the dtype, every boolean mask, "
            "slice and integer-position mask, numba.group_size/count/sum/sum_squares/mean/min/max/first/last (single pass) equal the "
            "per-group definition; and the real public methods GroupBy.sum/mean/min/max/first/last/count/size with the non-transform body of "
            "_apply_gb_reduction (count frame, observed-label filter, label permutation, mean = sum/count) list exactly the labels with a selected "
            "row (all labels with observed_only=False), each once, with values satisfying the definition, for integer/float/text labels in sorted and "
            "unsorted first-appearance order and categorical labels without rows; decided by the solver within N<=4,G<=2 (quick) / N<=6(8),G<=3 (thorough)",
            "NumPy/numba/concurrent.futures models (DESIGN 3.5), sums in exact arithmetic; public path on a labelled contract model of flat pandas "
            "objects (DESIGN 0 item 9), candidates replayed through GroupBy(keys); label ORDER, MultiIndex results, margins and temporal value "
            "conversion are outside", "DESIGN.md 4 C01"),
    "C04": ("for every code sequence, value/null placement, mask kind and every split into 1..4 blocks (thread counts and chunked value "
            "lists) the block-wise merge equals the single-pass result and the per-group definition; decided by the solver, bounded "
            "(N<=4,G<=2 quick; N<=6(8),G<=3 thorough)",
            "NumPy/numba/concurrent.futures models (DESIGN 3.5); exact arithmetic for sums; boolean masks enumerated on the multi-block path",
            "DESIGN.md 4 C04"),
}

CLAIMED["C08"] = (
    "at every selected row with a non-null key cumsum/cummin/cummax/cumcount equal the prefix reduction of the group's non-null values "
    "(running sum null after a null with skip_na=False), with the accumulator dtype the library documents, on both glue paths "
    "(with/without null keys), also through the public GroupBy.cum* methods on contiguous and chunked states; solver-decided for all code sequences/values/null placements/masks within N<=4,G<=2 (quick), N<=6(8),G<=3 (thorough)",
    "NumPy/numba models; exact arithmetic; 64-bit inputs bounded so that no partial sum overflows; unselected/null-key rows are C05/C06",
    "DESIGN.md 4 C08")

CLAIMED["C09"] = (
    "at every selected row with a non-null key rolling sum/mean/min/max/shift/diff equal the reduction over the last W selected rows of "
    "the group (null unless min_periods non-null values), temporal results keep dtype and time unit and never pass through a float array "
    "(side obligation |v|<=2^53 at every int->float store), also through the public GroupBy.rolling_*/shift/diff methods on contiguous and "
    "chunked states; solver-decided for all code sequences/values/null placements/masks within N<=4,G<=2,W<=2 (quick), N<=6(7),W<=3 (thorough)",
    "NumPy/numba models; exact arithmetic; rolling_mean of timedelta and the group-sorted (pandas) layout are outside; unselected/null-key rows are C05/C06",
    "DESIGN.md 4 C09")

CLAIMED["C15"] = (
    "the positional arrays behind head/tail/nth list exactly the first/last n (n-th) selected rows of every group, -1 elsewhere, never a "
    "null-key row, also through the public GroupBy.head/tail/nth on contiguous and chunked states (n up to N+1): solver-decided for all code "
    "sequences and masks within N<=4,G<=2 (quick) / N<=6,G<=3 (thorough); for groups of ANY "
    "size by a one-step inductive query over the kernels' per-group counters with their real dtype (explicit wrap-around); plus index "
    "restoration: the real _get_row_selection(keep_input_index=True) returns every kept position once, in order, labelled start+step*position "
    "with its own values, for a RangeIndex with symbolic start and step (pandas contract model)",
    "labels and values only for a RangeIndex and a grouper with sort off (other index kinds, the final sort_index and keep_input_index=False "
    "outside); the inductive invariant is stated in DESIGN 3.6",
    "DESIGN.md 4 C15")

CLAIMED["C10"] = (
    "for every group-code sequence within the bound (enumerated) and every value/NaN/mask placement, alpha in (0,1] and time origin "
    "(symbolic), _ema_grouped/_ema_grouped_timed satisfy out*sum(w) = sum(w*x) with w = (1-alpha)^elapsed-group-rows or 2^-(dt/halflife), "
    "invalid rows repeat the previous output; single-group grouped == ungrouped; the public entry points ema(values, alpha) and ema_grouped(alpha) "
    "(argument checks, kernel dispatch) give the same numbers and accept every valid alpha; ema/ema_grouped(halflife=h) use alpha = 1-2^(-1/h) for every "
    "real h>0 (exp as a monotone uninterpreted function); the time unit of datetime64 timestamps is honoured; N<=4,G<=2 (quick), N<=5 / G=3 (thorough)",
    "exact arithmetic; exp/log and pd.Timedelta by contract stubs; timed gaps are integer multiples (0..2) of the halflife; pandas wrapping outside",
    "DESIGN.md 4 C10")

CLAIMED["C05"] = (
    "relational: for every boolean mask of the bound (enumerated), slice and symbolic integer-position mask, every reduction gives the result "
    "of the same call on the filtered arrays; cumulative/rolling/shift/diff/head/tail/nth (and the time-weighted EMA) give at every selected "
    "row the value computed on the filtered data; rows that are not selected (keys and values varied freely, symbolic mask) never influence a "
    "selected row; the real code is its own oracle, data symbolic, N<=4 (quick) / N<=5 (thorough)",
    "NumPy/numba models; exact arithmetic; one recorded finding (non-timed EMA ages its state on masked rows); mask splitting across key chunks is under C03/C13",
    "DESIGN.md 4 C05")
CLAIMED["C06"] = (
    "relational: two runs that agree on all rows with a non-null key and differ arbitrarily (values, mask bits) on null-key rows give identical "
    "group results and identical outputs on the other rows, for reductions (1 and 2 blocks), cumulative, rolling, shift/diff, head/tail/nth; "
    "null-key rows of row-aligned outputs hold the operation's neutral marker; physically deleting the null-key rows (null positions enumerated) "
    "changes nothing, incl. group_nearby_members; EMA rows with a null key get NaN and touch no state; N<=4,G<=2 (quick), N<=6,G<=3 (thorough)",
    "NumPy/numba models; multi-key null propagation and chunk-local null codes are decided under C02/C13", "DESIGN.md 4 C06")

CLAIMED["C03"] = (
    "relational: numba.group_*(n_threads=2..4), every completion order of the thread-pool tasks (3!, 4!), every chunk layout of the values, and "
    "GroupBy reductions/count_ikey on chunked keys with per-chunk dictionaries and pointer tables (1 and 2 value columns, boolean and slice masks) "
    "all equal the single-thread contiguous run of the same real code, for every code sequence/value/null placement; the largest thread count "
    "the public API can choose is probed from the real expressions at the 1,000,000-row switch-over; N<=4,G<=2 (quick), N<=6,G<=3 (thorough)",
    "concurrent.futures model (orders enumerated); chunked states constructed directly; exact arithmetic; real thread scheduling and the "
    "pandas/pyarrow factorizers outside", "DESIGN.md 4 C03")

CLAIMED["C07"] = (
    "the real GroupBy._apply_gb_reduction(transform=True) on directly constructed states (contiguous, chunked with pointer tables, chunked "
    "after unification) returns at every row the per-group result of the same real kernels for the row's global code (sum/count for mean), the "
    "neutral result at null-key rows and for groups without a selected row, in input order and length; solver-decided for all codes/values/null "
    "placements/masks within N<=4,G<=2 (quick), N<=6,G<=3 (thorough)",
    "values only: index restoration and container type are pandas/polars code (cuts: _preprocess_arguments, _convert_arr_to_pandas_series, "
    "DataFrame/Series fakes); var/std/median/apply transform under C16", "DESIGN.md 4 C07")

CLAIMED["C13"] = (
    "state-machine steps on directly constructed GroupBy states (contiguous, chunked with pointer tables, chunked after unification): "
    "(1) _unify_group_key_chunks preserves every row's global code, (2) sum/max/count_ikey/transform/cumsum/rolling_max/ema return in every "
    "representation what they return for contiguous codes, (3) for every pair (7 x 6) of operations, running op1 then op2 on one object gives "
    "what op2 gives on a fresh object (different values and masks per call), (4) GroupBy(existing) behaves like the original; solver-decided "
    "for all chunk-local codes, pointer tables, values, masks within N<=4,G<=2, 2 chunks (quick) / N<=5, <=3 chunks, length-3 sequences (thorough)",
    "cuts as in C07; caches holding pandas objects and the class-level call form are outside", "DESIGN.md 4 C13")

CLAIMED["C02"] = (
    "library-owned factorization logic, solver-decided: (a) the real factorize_2d/_combine_factorizations/_weight_code_sum (weights from the real "
    "cumprod arithmetic) give the null code iff some key is null (any key position), equal codes iff equal key tuples, label-at-code = key tuple, "
    "distinct labels, for all per-key codes; (b) _monotonic_factorization over every chunk layout: on the returned prefix label[code]=key, labels "
    "strictly increasing, no null key labelled; (c) the group-sorted indexer (contiguous/chunked codes, every label order) lists exactly the non-null "
    "rows group by group in ascending position and sizes equal count_ikey; (e) factorize_range_index gives code i to row i; (g) GroupBy.groups lists per "
    "label exactly the ascending positions of its rows (labels without rows absent) and ikey_count adds up to the non-null rows, for symbolic codes on "
    "contiguous and chunked states; (h) the manual sort and the boolean route of factorize_1d; (i) factorize_arrow_arr on a dictionary-typed arrow "
    "ChunkedArray with different per-chunk dictionaries (contract model of the pyarrow objects); N<=4 (quick), N<=6 (thorough)",
    "pandas/pyarrow 1-D factorizers and drop_duplicates/get_indexer assumed by contract (factorize_1d stubbed); chunk-local codes/pointer tables under C13/C03",
    "DESIGN.md 4 C02")

CLAIMED["C20"] = (
    "nanops.nansum/nanmean/nanmin/nanmax/count equal the NumPy nan-function semantics for every float64/int64 array of length <= 4 (6) with "
    "symbolic values and NaN placement and every thread count 1..4 (8, incl. more threads than elements: every array read carries a bounds "
    "obligation); column/row-wise sum/min/max on shapes <= 3x3; nanvar/nanstd as polynomial identities against the two-pass definition per "
    "enumerated null pattern; nb_dot(a,b) = a @ b for shapes <= 3x3; pretty_cut puts every symbolic value into the bin whose printed bounds "
    "contain it (nulls into none) for 11 (18) enumerated edge lists; bools_to_categorical labels every row of a symbolic boolean frame (<= 3x2) "
    "with exactly its true columns; decided by the solver on the real source",
    "the min_count branch, datetime converters, pretty_cut's precision argument and timedelta data are outside; exact arithmetic",
    "DESIGN.md 4 C20")

CLAIMED["C16"] = (
    "(i) the real GroupBy.var/std bodies (one-pass formula over the real sum / sum-of-squares / count kernels) equal the two-pass sample "
    "variance as a polynomial identity in exact arithmetic for every code sequence and null pattern of the bound and all non-null values (null when "
    "n <= ddof), ddof in {0,1}, std^2 = var, also with transform=True through the real _apply_gb_reduction; (ii) the real GroupBy.apply routes, for every code sequence, mask and 1-2 value columns, exactly the "
    "selected values of each observed group in row order to an uninterpreted user function and its results to that group's position, also for "
    "vector-valued functions (input-aligned / fixed length, incl. the real non-reduce probe and the kind of index built) and for GroupBy.median/quantile "
    "(np.median/np.quantile as uninterpreted symbols); (iii) agg([f1,f2]) equals the individual calls side by side, ratio = sum/sum, single-key "
    "density = 100 x share (values and sizes), single-key margin rows = the aggregation over all selected rows (mean = total sum / total count); "
    "N<=4 (quick), N<=5 (thorough)",
    "the floating-point rounding bound of the one-pass formula, NumPy's own median/quantile kernels, multi-key densities/margins and subset_ratio are NOT "
    "decided; _apply_gb_reduction is cut to the kernel path for var/std; composites run on the labelled pandas contract model (DESIGN 0 item 9)", "DESIGN.md 4 C16")

CLAIMED["C12"] = (
    "in part (dtype / exactness / layout): for every integer width, bool, float32/64 and datetime64/timedelta64 in s/ms/us/ns, "
    "group_min/max/first/last (1-3 blocks, masks), cummin/cummax and temporal rolling min/max/shift/diff return values satisfying the "
    "per-group/prefix/window definition, keep the input dtype and time unit, and never route a 64-bit integer through a float array "
    "(side obligation |v|<=2^53 at every int->float store); counts are integers; integer/bool sums accumulate in 64 bits and equal the "
    "mathematical sum; any chunk layout of the values, misaligned with the key chunks, gives the contiguous answer; N<=3 (quick), N<=5 (thorough)",
    "container normalisation (pandas/polars/pyarrow objects, time zones, Arrow null bitmaps) is C-extension behaviour and NOT decided: "
    "changes confined to _val_to_numpy/to_arrow/_convert_timestamp_to_tz_unaware are not expected to be caught", "DESIGN.md 4 C12")

CLAIMED["C19"] = (
    "array level: in a sample of the configurations of every kernel family (reductions with threads/chunks/masks, cumulative, rolling, row "
    "selection, transform, GroupBy state operations) no store into an array owned by the caller or by the GroupBy state is reachable for any "
    "input within the bound (each store site is a guarded obligation decided by the solver), and no returned array shares storage with one; "
    "arrays handed to the user function of apply never alias caller storage; results of the public reduction path share no buffer with an input "
    "or with anything the grouping object retains (replay: edit the result in place, repeat the call); the same obligation is active in every other property's run",
    "zero-copy views made by pyarrow/pandas and pandas objects handed out from caches are outside",
    "DESIGN.md 4 C19")

CLAIMED["C11"] = (
    "in part (single key): for every code sequence, values, null placement and boolean mask within the bound, the real public reductions return the labels "
    "in ascending order by default, in category order for categorical keys and in first-appearance order with sort=False; exactly the labels with a "
    "selected row are listed (every label with observed_only=False), each once; a single 1-D input gives a Series named like the input, a list / dict / "
    "2-D array gives a frame with one column per input in input order (dict keys, Series names, _arr_i otherwise), and each column equals the result "
    "for that input alone; N<=3, G<=2 (quick), N<=4, G<=3 (thorough)",
    "several keys (lexicographic MultiIndex order, one index level per key named after the keys), index names and polars/pyarrow/frame inputs are NOT "
    "decided; the flat pandas objects are a labelled contract model (DESIGN 0 item 9); _preprocess_arguments is cut to the real "
    "convert_data_to_arr_list_and_keys; candidates are replayed through GroupBy(keys, sort=...) with real containers", "DESIGN.md 4 C11")

CLAIMED["C14"] = (
    "in part (single key): with margins=True every ordinary row is unchanged and the one 'All' row equals the same aggregation over all selected rows of "
    "all groups - sum/count/size add up, min/max are the extremes, mean is total sum over total count (not a mean of means) - for every code sequence, "
    "values, null placement and boolean mask within the bound; the real _apply_gb_reduction(margins=True), _add_margins and add_row_margin (one level) "
    "run on the labelled pandas contract model; N<=3, G<=2 (quick), N<=4, G<=3 (thorough)",
    "several keys ('All' combinations per level subset, re-indexing onto the cartesian grid, sparse label combinations) and crosstab (unstack, column "
    "ordering) are pandas reshaping code and NOT decided", "DESIGN.md 4 C14")

NOT_APPLICABLE = {
    "C17": "the facade is pandas objects end to end and its oracle is pandas' own groupby; only structural argument routing would be within reach (DESIGN.md 5)",
    "C18": "raise-versus-return is decided by concrete len()/Index.equals comparisons in pandas-level glue; a solver would only enumerate a handful of integers (DESIGN.md 5)",
}

PENDING = {f"C{n:02d}": "check not landed yet in this commit (planned, DESIGN.md 4); listed here until its quick command passes on the unchanged tree" for n in range(1, 21)}


def main():
    checks = []
    for pid, (text, note, ref) in sorted(CLAIMED.items()):
        checks.append({
            "property_id": pid,
            "quick_cmd": f"bin/vcheck {pid} --tier quick",
            "thorough_cmd": f"bin/vcheck {pid} --tier thorough",
            "evidence_file": f"evidence/{pid}.json",
            "replay_cmd_template": "bin/vcheck replay {path}",
            "engine": "gbverif",
            "technique": TECH,
            "level_claimed": {"category": "model_checking", "text": text, "design_ref": ref},
            "level_note": note,
        })
    na = [{"property_id": k, "reason": v} for k, v in sorted({**PENDING, **NOT_APPLICABLE}.items()) if k not in CLAIMED]
    m = {
        "version": 1,
        "setup_cmd": "bin/setup.sh",
        "hooks": {"guard": "GROUPBY_LIB_VERIF", "enable": "no hooks are needed: the checks read /repo's sources directly (shadow import) and replay through the public API",
                  "baseline_off_cmd": "bin/run_baseline.sh", "source_commits": [], "add_only": True},
        "engines": [{"name": "gbverif", "path": "gbverif/", "serves_properties": sorted(CLAIMED),
                     "kind_free_text": "shadow import of /repo sources with symbolic-aware numpy/numba/pandas models, if-conversion of numba kernels, z3 5.1 queries, replay on the numba-compiled library"}],
        "checks": checks,
        "not_applicable": na,
        "notes": "Every verdict is bounded (sizes in each evidence file). Exit 0 = held on everything explored (known findings printed), "
                 "1 = reproduced violation, 2 = inconclusive/harness error. See DESIGN.md.",
    }
    json.dump(m, open(os.path.join(VERIF, "MANIFEST.json"), "w"), indent=1)


if __name__ == "__main__":
    main()

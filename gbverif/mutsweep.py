"""Automated mutation sweep (self-test, not a registered check).

Draws small syntactic mutations (comparison / arithmetic / boolean operator swaps, off-by-one constants, dropped `not`) inside the
functions of /repo's sources that the checks actually execute (taken from the evidence files), applies each to a scratch copy of
/repo and runs every claimed quick check against it.  Result per mutant: killed (some check exits 1 with a replayed VIOLATION),
inconclusive only (exit 2), or survived (every check exits 0).  Survivors are triaged by hand in DESIGN.md 13.3(d): equivalent
mutant, outside the stated bounds/claims, or a gap to close.

usage: python -m gbverif.mutsweep --n 60 --seed 1 [--files numba.py,core.py,...] [--out seeded/mutsweep_results.json]
"""
import argparse
import ast
import copy
import json
import os
import random
import shutil
import subprocess
import sys
import tempfile
import time

VERIF = os.path.dirname(os.path.dirname(os.path.abspath(__file__)))
REPO = os.environ.get("GBVERIF_REPO", "/repo")
FILES = {
    "numba.py": "groupby_lib/groupby/numba.py",
    "core.py": "groupby_lib/groupby/core.py",
    "factorization.py": "groupby_lib/groupby/factorization.py",
    "emas.py": "groupby_lib/emas.py",
    "nanops.py": "groupby_lib/nanops.py",
    "util.py": "groupby_lib/util.py",
}
CMP = {ast.Lt: ast.LtE, ast.LtE: ast.Lt, ast.Gt: ast.GtE, ast.GtE: ast.Gt, ast.Eq: ast.NotEq, ast.NotEq: ast.Eq}
BIN = {ast.Add: ast.Sub, ast.Sub: ast.Add}


def executed_functions():
    ex = set()
    evdir = os.path.join(VERIF, "evidence")
    for f in os.listdir(evdir):
        if f.endswith(".json"):
            cov = json.load(open(os.path.join(evdir, f))).get("coverage", {})
            for x in cov.get("repo_functions_executed_during_this_run", []):
                path, qual = x.split(":", 1)
                ex.add((path, qual.split(".")[-1].replace("__step_", "")))
    return ex


class Sites(ast.NodeVisitor):
    """collect (function name, node, description, mutate callback)"""
    def __init__(self, wanted):
        self.wanted = wanted
        self.stack = []
        self.sites = []

    def visit_FunctionDef(self, node):
        self.stack.append(node.name)
        # skip docstring
        for ch in node.body:
            if isinstance(ch, ast.Expr) and isinstance(ch.value, ast.Constant) and isinstance(ch.value.value, str):
                continue
            self.visit(ch)
        self.stack.pop()

    def _on(self):
        return bool(self.stack) and self.stack[-1] in self.wanted

    def visit_Compare(self, node):
        if self._on() and len(node.ops) == 1 and type(node.ops[0]) in CMP:
            self.sites.append((self.stack[-1], node, f"{type(node.ops[0]).__name__} -> {CMP[type(node.ops[0])].__name__}", "cmp"))
        self.generic_visit(node)

    def visit_BinOp(self, node):
        if self._on() and type(node.op) in BIN and not isinstance(node.left, ast.Constant) and not (
                isinstance(node.left, ast.JoinedStr) or isinstance(node.right, ast.JoinedStr) or isinstance(node.right, ast.Constant) and isinstance(node.right.value, str)):
            self.sites.append((self.stack[-1], node, f"{type(node.op).__name__} -> {BIN[type(node.op)].__name__}", "bin"))
        self.generic_visit(node)

    def visit_BoolOp(self, node):
        if self._on():
            self.sites.append((self.stack[-1], node, f"{type(node.op).__name__} -> {'Or' if isinstance(node.op, ast.And) else 'And'}", "bool"))
        self.generic_visit(node)

    def visit_UnaryOp(self, node):
        if self._on() and isinstance(node.op, ast.Not):
            self.sites.append((self.stack[-1], node, "drop not", "not"))
        self.generic_visit(node)

    def visit_Constant(self, node):
        if self._on() and isinstance(node.value, int) and not isinstance(node.value, bool) and -2 <= node.value <= 4:
            self.sites.append((self.stack[-1], node, f"constant {node.value} -> {node.value + 1}", "const"))

    def visit_Raise(self, node):
        return          # error messages and conditions of raises are C18's business

    def visit_Assert(self, node):
        return


def mutate(tree, target, kind):
    class M(ast.NodeTransformer):
        def generic_visit(self, node):
            if node is target:
                n = copy.deepcopy(node)
                if kind == "cmp":
                    n.ops = [CMP[type(n.ops[0])]()]
                elif kind == "bin":
                    n.op = BIN[type(n.op)]()
                elif kind == "bool":
                    n.op = ast.Or() if isinstance(n.op, ast.And) else ast.And()
                elif kind == "not":
                    return n.operand
                elif kind == "const":
                    n.value = n.value + 1
                return n
            return super().generic_visit(node)
    return M().visit(tree)


def checks_list():
    m = json.load(open(os.path.join(VERIF, "MANIFEST.json")))
    return [c["property_id"] for c in m["checks"]]


def run_checks(copy_dir, props, jobs):
    env = dict(os.environ, GBVERIF_REPO=copy_dir, PYTHONPATH=copy_dir, GBVERIF_EVIDENCE_DIR=os.path.join(copy_dir, ".evidence"))
    procs = {}
    out = {}
    pending = list(props)
    while pending or procs:
        while pending and len(procs) < jobs:
            p = pending.pop(0)
            logf = open(os.path.join(copy_dir, f".sweep_{p}.log"), "w")           # a file, not a pipe: the checks print more than a pipe buffer holds
            procs[p] = subprocess.Popen([os.path.join(VERIF, "bin", "vcheck"), p, "--tier", "quick"], env=env, stdout=logf, stderr=subprocess.STDOUT, text=True)
            procs[p].logf = logf
        for p, pr in list(procs.items()):
            if pr.poll() is not None:
                pr.logf.close()
                txt = open(os.path.join(copy_dir, f".sweep_{p}.log")).read()
                sigs = sorted({l.split("signature:")[1].strip() for l in txt.splitlines() if "signature:" in l})[:3]
                out[p] = {"exit": pr.returncode, "signatures": sigs}
                del procs[p]
        time.sleep(0.5)
    return out


def main():
    ap = argparse.ArgumentParser()
    ap.add_argument("--n", type=int, default=40)
    ap.add_argument("--seed", type=int, default=1)
    ap.add_argument("--files", default=",".join(FILES))
    ap.add_argument("--jobs", type=int, default=4)
    ap.add_argument("--out", default=os.path.join(VERIF, "seeded", "mutsweep_results.json"))
    a = ap.parse_args()
    rnd = random.Random(a.seed)
    ex = executed_functions()
    all_sites = []
    trees = {}
    for key in a.files.split(","):
        rel = FILES[key]
        src = open(os.path.join(REPO, rel)).read()
        tree = ast.parse(src)
        trees[rel] = (src, tree)
        wanted = {fn for (path, fn) in ex if path == rel}
        v = Sites(wanted)
        v.visit(tree)
        for fn, node, desc, kind in v.sites:
            all_sites.append((rel, fn, node, desc, kind))
    rnd.shuffle(all_sites)
    chosen = all_sites[:a.n]
    props = checks_list()
    results = []
    if os.path.exists(a.out):
        results = json.load(open(a.out)).get("mutants", [])
    done = {(r["file"], r["function"], r["line"], r["mutation"]) for r in results}
    for rel, fn, node, desc, kind in chosen:
        key = (rel, fn, node.lineno, desc)
        if key in done:
            continue
        src, tree = trees[rel]
        mtree = mutate(copy.deepcopy(tree), None, kind) if False else None
        # mutate on a fresh parse so that node identity is preserved: locate the node again by position
        t2 = ast.parse(src)
        target = None
        for n in ast.walk(t2):
            if type(n) is type(node) and getattr(n, "lineno", None) == node.lineno and getattr(n, "col_offset", None) == node.col_offset and \
                    getattr(n, "end_col_offset", None) == node.end_col_offset:
                target = n
                break
        if target is None:
            continue
        t2 = mutate(t2, target, kind)
        ast.fix_missing_locations(t2)
        new_src = ast.unparse(t2)
        d = tempfile.mkdtemp(prefix="gbsweep.", dir="/tmp")
        try:
            subprocess.run(f"git -C {REPO} archive HEAD | tar -x -C {d}", shell=True, check=True)
            with open(os.path.join(d, rel), "w") as f:
                f.write(new_src + "\n")
            try:
                compile(new_src, rel, "exec")
            except SyntaxError:
                continue
            t0 = time.time()
            res = run_checks(d, props, a.jobs)
            killed = sorted(p for p, r in res.items() if r["exit"] == 1)
            inconcl = sorted(p for p, r in res.items() if r["exit"] not in (0, 1))
            line_txt = src.splitlines()[node.lineno - 1].strip()
            rec = {"file": rel, "function": fn, "line": node.lineno, "source_line": line_txt[:160], "mutation": desc,
                   "killed_by": killed, "inconclusive": inconcl, "survived": not killed and not inconcl,
                   "signatures": {p: res[p]["signatures"] for p in killed}, "wall_s": round(time.time() - t0, 1)}
            results.append(rec)
            print(json.dumps({k: rec[k] for k in ("file", "function", "line", "mutation", "killed_by", "inconclusive", "survived", "wall_s")}), flush=True)
            os.makedirs(os.path.dirname(a.out), exist_ok=True)
            json.dump({"seed": a.seed, "mutants": results}, open(a.out, "w"), indent=1)
        finally:
            shutil.rmtree(d, ignore_errors=True)
    n = len(results)
    k = sum(1 for r in results if r["killed_by"])
    s = sum(1 for r in results if r["survived"])
    print(f"mutants={n} killed={k} inconclusive_only={n - k - s} survived={s}")


if __name__ == "__main__":
    sys.exit(main())

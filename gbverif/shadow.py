"""Shadow import: execute the real /repo source files with imports resolved to models.
Regenerated from the working tree on every run."""
import ast
import hashlib
import importlib
import os
import numpy as real_np
from .values import Unsupported, OutsideModel, UNDEF
from .runtime import RTProxy
from . import models
from .models import (NPShim, NBShim, NumbaList, Overloads, PDShim, PLShim, PAShim, Stub, ConcurrentModel,
                     FakeChunked, FakeSeries, shim_range, shim_enumerate, shim_abs, shim_int, shim_min, shim_max)
from .symarray import A

REPO_ROOT = os.environ.get("GBVERIF_REPO", "/repo")

FILES = {
    "util": "groupby_lib/util.py",
    "gbnumba": "groupby_lib/groupby/numba.py",
    "factorization": "groupby_lib/groupby/factorization.py",
    "core": "groupby_lib/groupby/core.py",
    "emas": "groupby_lib/emas.py",
    "nanops": "groupby_lib/nanops.py",
}

REAL_OK = {"concurrent.futures", "operator", "os", "functools", "inspect", "typing", "multiprocessing",
           "collections.abc", "collections", "itertools", "math", "warnings", "dataclasses", "numbers"}


class MissingAnchor(Exception):
    pass


class ModProxy:
    def __init__(self, ns):
        self.__dict__ = ns


class ShadowModule:
    def __init__(self, key, engine):
        self.key = key
        self.engine = engine
        self.relpath = FILES[key]
        self.path = os.path.join(engine.root, self.relpath)
        self.ns = {}
        self.funcdefs = {}        # (name, lineno) -> FunctionDef
        self.encoded = engine.encoded
        self.source = ""

    def find_funcdef(self, pyfunc):
        code = pyfunc.__code__
        node = self.funcdefs.get((pyfunc.__name__, code.co_firstlineno))
        if node is None:
            raise Unsupported(f"no source for {pyfunc.__qualname__} at line {code.co_firstlineno}")
        return node

    def func_hash(self, name):
        for (n, _), node in self.funcdefs.items():
            if n == name:
                seg = ast.get_source_segment(self.source, node) or ast.dump(node)
                return "sha256:" + hashlib.sha256(seg.encode()).hexdigest()[:16]
        return None


class Engine:
    """holds the shadow namespaces of one repository tree"""
    def __init__(self, root=None, which=("util", "nanops", "gbnumba", "factorization", "emas", "core")):
        self.root = root or REPO_ROOT
        self.encoded = set()
        self.mods = {}
        self.overloads = Overloads()
        self.np = NPShim()
        self.pd = PDShim()
        self.pl = PLShim()
        self.pa = PAShim()
        self.rtproxy = RTProxy()
        for k in which:
            self._import(k)

    def __getitem__(self, key):
        return self.mods[key].ns

    def module_of(self, pyfunc):
        fn = pyfunc.__code__.co_filename
        for sm in self.mods.values():
            if sm.path == fn:
                return sm
        raise Unsupported(f"kernel {pyfunc.__qualname__} defined outside the shadow files ({fn})")

    def hash_of(self, qual):
        key, name = qual.split("::")
        name = name.split(".")[-1]
        for k, p in FILES.items():
            if p == key or k == key:
                return self.mods[k].func_hash(name)
        return None

    # ------------------------------------------------------------ import resolution
    def _resolve(self, node, sm):
        ns = sm.ns
        third = {"numpy": self.np, "pandas": self.pd, "polars": self.pl, "pyarrow": self.pa}
        if isinstance(node, ast.Import):
            for al in node.names:
                top = al.name
                if top == "numba":
                    ns[al.asname or top] = NBShim(sm)
                elif top in third:
                    ns[al.asname or top] = third[top]
                elif top == "concurrent.futures":
                    ns[al.asname or "concurrent"] = ConcurrentModel
                elif top in REAL_OK:
                    importlib.import_module(top)
                    ns[al.asname or top.split(".")[0]] = importlib.import_module(top if al.asname else top.split(".")[0])
                else:
                    raise Unsupported(f"import {top} in {sm.relpath}")
            return
        mod = ("." * node.level) + (node.module or "")
        for al in node.names:
            name, asn = al.name, al.asname or al.name
            if mod in REAL_OK:
                ns[asn] = getattr(importlib.import_module(mod), name)
            elif mod == "numba.typed" and name == "List":
                ns[asn] = NumbaList
            elif mod == "numba.core.extending" and name == "overload":
                ns[asn] = self.overloads.overload
            elif mod.startswith("pandas."):
                ns[asn] = Stub(mod + "." + name)
            elif mod in ("..util", "groupby_lib.util", ".util"):
                if name not in self.mods["util"].ns:
                    raise MissingAnchor(f"util.{name}")
                ns[asn] = self.mods["util"].ns[name]
            elif mod in (".factorization", "groupby_lib.groupby.factorization"):
                ns[asn] = self.mods["factorization"].ns[name]
            elif mod == "." and name == "numba":
                ns[asn] = ModProxy(self.mods["gbnumba"].ns)
            elif mod in ("..", "groupby_lib") and name == "nanops":
                ns[asn] = ModProxy(self.mods["nanops"].ns) if "nanops" in self.mods else Stub("nanops")
            elif mod in ("..emas", "groupby_lib.emas"):
                ns[asn] = self.mods["emas"].ns[name]
            else:
                raise Unsupported(f"from {mod} import {name} in {sm.relpath}")

    def _import(self, key):
        sm = ShadowModule(key, self)
        self.mods[key] = sm
        if not os.path.exists(sm.path):
            raise MissingAnchor(sm.relpath)
        sm.source = open(sm.path).read()
        tree = ast.parse(sm.source, filename=sm.path)
        ns = sm.ns
        ns.update({"__name__": "shadow." + key, "__builtins__": __builtins__, "__file__": sm.path})
        for n in ast.walk(tree):
            if isinstance(n, (ast.FunctionDef, ast.AsyncFunctionDef)):
                first = min([d.lineno for d in n.decorator_list] + [n.lineno])
                for ln in range(first, n.lineno + 1):
                    sm.funcdefs[(n.name, ln)] = n
        engine = self

        class Strip(ast.NodeTransformer):
            def visit_FunctionDef(self, node):
                node.returns = None
                a = node.args
                for x in a.posonlyargs + a.args + a.kwonlyargs + [y for y in (a.vararg, a.kwarg) if y]:
                    x.annotation = None
                self.generic_visit(node)
                return node

            def visit_AnnAssign(self, node):
                if node.value is None:
                    return None
                return ast.copy_location(ast.Assign(targets=[node.target], value=node.value), node)

            def visit_ImportFrom(self, node):
                if node.col_offset == 0:
                    return node
                # function-level import (GroupBy.ema imports ema_grouped lazily): bind through the resolver at run time
                return ast.copy_location(ast.Expr(ast.Call(
                    func=ast.Name(id="__shadow_import", ctx=ast.Load()),
                    args=[ast.Constant(("." * node.level) + (node.module or "")),
                          ast.Constant([(al.name, al.asname or al.name) for al in node.names]),
                          ast.Call(func=ast.Name(id="locals", ctx=ast.Load()), args=[], keywords=[])], keywords=[])), node)

        # keep pristine copies of the function defs for the if-converter before stripping
        import copy
        sm.funcdefs = {k: copy.deepcopy(v) for k, v in sm.funcdefs.items()}
        body = []
        for node in tree.body:
            if isinstance(node, (ast.Import, ast.ImportFrom)):
                self._resolve(node, sm)
            else:
                body.append(node)
        tree.body = body
        tree = Strip().visit(tree)
        # nested imports inside functions: rewrite "from ..emas import x" into assignments
        tree = _NestedImports(self, sm).visit(tree)
        ast.fix_missing_locations(tree)
        ns["range"] = shim_range
        ns["enumerate"] = shim_enumerate
        ns["abs"] = shim_abs
        ns["int"] = shim_int
        ns["min"] = shim_min
        ns["max"] = shim_max
        ns["__rt"] = self.rtproxy
        ns["__rt_UNDEF"] = UNDEF
        ns["__builtin_range"] = range
        exec(compile(tree, sm.path, "exec"), ns)
        self._post(key, sm)
        return sm

    def _post(self, key, sm):
        ns = sm.ns
        if key == "util":
            for name in ("is_null", "_get_first_non_null"):
                if name not in ns:
                    raise MissingAnchor("util." + name)
                ns[name] = self.overloads.make_dispatch(name, sm)

            def _val_to_numpy(val, as_list=False):
                """cut: container normalisation is the identity on proxies"""
                if isinstance(val, FakeChunked):
                    return NumbaList(val.chunks) if as_list else self.np.concatenate(val.chunks)
                if isinstance(val, NumbaList):
                    return val if as_list else (val[0] if len(val) == 1 else self.np.concatenate(val))
                if isinstance(val, FakeSeries):
                    val = val.arr
                if not isinstance(val, A):
                    raise OutsideModel(f"_val_to_numpy({type(val).__name__})")
                return NumbaList([val]) if as_list else val
            ns["__real__val_to_numpy"] = ns.get("_val_to_numpy")
            ns["_val_to_numpy"] = _val_to_numpy


class _NestedImports(ast.NodeTransformer):
    """function-level 'from ..emas import ema_grouped' -> 'ema_grouped = shadow_get_nested_("emas", "ema_grouped")'"""
    def __init__(self, engine, sm):
        self.engine = engine
        self.sm = sm
        sm.ns["shadow_get_nested_"] = self._get

    def _get(self, mod, name):
        key = {"..emas": "emas", "groupby_lib.emas": "emas", "..util": "util", "groupby_lib.util": "util"}.get(mod)
        if key is None or key not in self.engine.mods:
            if mod.startswith("pandas.") or mod.startswith("numpy."):
                # a function-level import of a third-party helper: whether it exists is a fact about this environment and part of the
                # behaviour of the code under test (an ImportError here is what the user gets); an existing helper is outside the models
                import importlib
                m = importlib.import_module(mod)          # raises ModuleNotFoundError exactly as the real code does
                if not hasattr(m, name):
                    raise ImportError(f"cannot import name {name!r} from {mod!r}")
                raise OutsideModel(f"third-party helper {mod}.{name} has no model")
            raise Unsupported(f"nested import from {mod}")
        return self.engine.mods[key].ns[name]

    def visit_Expr(self, node):
        v = node.value
        if isinstance(v, ast.Call) and isinstance(v.func, ast.Name) and v.func.id == "__shadow_import":
            mod = v.args[0].value
            out = []
            for name, asn in v.args[1].value:
                out.append(ast.copy_location(ast.Assign(
                    targets=[ast.Name(id=asn, ctx=ast.Store())],
                    value=ast.Call(func=ast.Name(id="shadow_get_nested_", ctx=ast.Load()),
                                   args=[ast.Constant(mod), ast.Constant(name)], keywords=[])), node))
            return out
        return node

"""Guarded-execution runtime used by if-converted kernels, plus fork-and-replay for symbolic
branches in native (glue) code."""
import z3
from .values import (OutsideModel, UNDEF, Undef, Unsupported, is_sym, to_z3_bool, conc_bool, b_and, b_or, b_not, ite)


class GuardedSeq:
    """sequence whose items carry their own guard: [(value, guard)]"""
    def __init__(self, items, start=None):
        self.items = items
        self.start = start          # symbolic start of a slice arr[start:], if that is where it came from

    def __iter__(self):
        raise Unsupported("guarded sequence iterated by native code")

    def __len__(self):
        raise Unsupported("len() of a guarded sequence (data-dependent shape)")


class Frame:
    __slots__ = ("returned", "retval", "loops", "name")

    def __init__(self, name):
        self.returned = False
        self.retval = UNDEF
        self.loops = []     # stack of [continue_flag, break_flag]
        self.name = name


class RT:
    """one instance per harness run"""
    def __init__(self):
        self.guards = [True]
        self.frames = []
        self.obligations = []       # (kind, guard, cond, where)
        self.unroll = 8
        self.stats = {"stores": 0, "loads_sym": 0, "kernel_calls": 0}
        self.fresh_id = 0
        self.pre = []               # extra preconditions created by models (e.g. ranges of fresh garbage cells)

    # ---- guards
    def cur(self):
        g = self.guards[-1]
        if not self.frames:
            return g
        f = self.frames[-1]
        parts = [g, b_not(f.returned)]
        if f.loops:
            parts.append(b_not(f.loops[-1][0]))
            parts.append(b_not(f.loops[-1][1]))
        return b_and(*parts)

    def cur_assign(self):
        # dead-after-return relaxation: re-binding a local ignores the 'returned' flag
        g = self.guards[-1]
        if not self.frames:
            return g
        f = self.frames[-1]
        if f.loops:
            return b_and(g, b_not(f.loops[-1][0]), b_not(f.loops[-1][1]))
        return g

    def live(self):
        return conc_bool(self.cur()) is not False

    def push(self, c):
        self.guards.append(b_and(self.guards[-1], c))
        return conc_bool(self.cur()) is not False

    def pop(self):
        self.guards.pop()

    def cond(self, c):
        cb = conc_bool(c)
        if cb is not None:
            return cb
        return z3.simplify(to_z3_bool(c))

    def not_(self, x):
        return b_not(x)

    def andl(self, *thunks):
        acc = True
        for t in thunks:
            if conc_bool(acc) is False:
                return False
            self.guards.append(b_and(self.guards[-1], acc))
            try:
                v = t()
            finally:
                self.guards.pop()
            acc = b_and(acc, v)
        return acc

    def orl(self, *thunks):
        acc = False
        for t in thunks:
            if conc_bool(acc) is True:
                return True
            self.guards.append(b_and(self.guards[-1], b_not(acc)))
            try:
                v = t()
            finally:
                self.guards.pop()
            acc = b_or(acc, v)
        return acc

    def ifexp(self, c, ta, tb):
        cb = conc_bool(c)
        if cb is True:
            return ta()
        if cb is False:
            return tb()
        self.guards.append(b_and(self.guards[-1], c))
        try:
            a = ta()
        finally:
            self.guards.pop()
        self.guards.append(b_and(self.guards[-1], b_not(c)))
        try:
            b = tb()
        finally:
            self.guards.pop()
        return ite(c, a, b)

    # ---- statements
    def assign(self, old, new):
        return ite(self.cur_assign(), new, old)

    def assign_iter(self, old, new):
        # loop-variable binding: independent of the item's own guard (values only matter under it anyway),
        # which keeps positions concrete when iterating a guarded index sequence
        f = self.frames[-1]
        return ite(b_and(self.guards[-2], b_not(f.loops[-1][1])), new, old)

    def contains(self, container, item):
        if hasattr(container, "sym_contains"):
            return container.sym_contains(item)
        return item in container

    def notl(self, x):
        return b_not(x)

    def store(self, arr, idx, val):
        self.stats["stores"] += 1
        if not hasattr(arr, "store"):
            raise Unsupported(f"store into {type(arr).__name__}")
        arr.store(idx, val, self.cur(), self)

    def do_return(self, v):
        f = self.frames[-1]
        g = self.cur()
        cb = conc_bool(g)
        if cb is False:
            return
        f.retval = ite(g, v, f.retval)
        if cb is True:
            f.returned = True
        else:
            f.returned = b_or(f.returned, g)

    def do_continue(self):
        f = self.frames[-1]
        g = self.cur()
        f.loops[-1][0] = b_or(f.loops[-1][0], g)

    def do_break(self):
        f = self.frames[-1]
        g = self.cur()
        f.loops[-1][1] = b_or(f.loops[-1][1], g)

    def do_raise(self, what):
        self.obligations.append(("raise:" + what, self.cur(), False, self.where()))
        self.do_return(UNDEF)

    def check(self, kind, c):
        self.obligations.append((kind, self.cur(), c, self.where()))

    def where(self):
        return self.frames[-1].name if self.frames else "<glue>"

    # ---- loops
    def iter(self, it):
        if isinstance(it, GuardedSeq):
            for v, g in it.items:
                yield (v, g)
        else:
            if isinstance(it, (str, bytes)):
                raise Unsupported("iteration over str")
            for v in it:
                yield (v, True)

    def loop_begin(self):
        self.frames[-1].loops.append([False, False])

    def loop_iter_begin(self, item):
        f = self.frames[-1]
        f.loops[-1][0] = False            # continue flag is per iteration, break flag persists
        self.guards.append(b_and(self.guards[-1], item[1]))
        return item[0]

    def loop_iter_end(self):
        self.guards.pop()

    def loop_end(self):
        self.frames[-1].loops.pop()

    def while_begin(self):
        self.guards.append(self.guards[-1])
        self.frames[-1].loops.append([False, False])

    def while_step(self, c):
        f = self.frames[-1]
        # a 'continue' ends only the current iteration; a 'break' ends the loop
        self.guards[-1] = b_and(self.guards[-1], c, b_not(f.loops[-1][1]))
        f.loops[-1][0] = False
        return conc_bool(self.cur()) is not False

    def while_end(self):
        self.frames[-1].loops.pop()
        self.guards.pop()

    # ---- calls
    def enter(self, name):
        g = self.cur()
        self.guards.append(g)
        self.frames.append(Frame(name))
        self.stats["kernel_calls"] += 1

    def leave(self):
        f = self.frames.pop()
        self.guards.pop()
        self._left = True
        return f.retval

    def unwind(self, name):
        # called from the kernel's finally: pops the frame if an exception skipped leave()
        if getattr(self, "_left", False):
            self._left = False
            return
        if self.frames:
            self.frames.pop()
            self.guards.pop()

    def unwind_check(self, c):
        self.obligations.append(("unwind", self.cur(), b_not(c), self.where()))

    def fresh(self, prefix, sort="Int"):
        self.fresh_id += 1
        n = f"{prefix}!{self.fresh_id}"
        return z3.Int(n) if sort == "Int" else (z3.Real(n) if sort == "Real" else z3.Bool(n))


class _Cur:
    rt = RT()


def current():
    return _Cur.rt


class RTProxy:
    """what kernels see as __rt: always the runtime of the current run"""
    def __getattr__(self, name):
        return getattr(_Cur.rt, name)


def fresh_runtime():
    _Cur.rt = RT()
    return _Cur.rt


# ------------------------------------------------------------------ fork-and-replay for bool(z3 term) in glue
class FC:
    decisions = []
    pos = 0
    pc = []
    pending = []
    current_pre = None
    prune = False
    memo = {}
    keep = []
    active = False
    max_paths = 64


_orig_bool = z3.ExprRef.__bool__


def _fork_bool(self):
    import sys
    if "/z3/" in sys._getframe(1).f_code.co_filename:
        return _orig_bool(self)              # z3's own code relies on the structural meaning of ==
    # everywhere else (the repo's glue, the models) `a == b` on terms means EQUAL VALUES, not identical syntax:
    # z3's default would silently answer False for two different terms and hide a whole branch
    if z3.is_true(self):
        return True
    if z3.is_false(self):
        return False
    if not z3.is_bool(self):
        if z3.is_int(self) or z3.is_real(self):
            self = self != 0                 # truth value of a number
        else:
            raise Unsupported("truth value of a non-boolean term")
    s = z3.simplify(self)
    if z3.is_true(s):
        return True
    if z3.is_false(s):
        return False
    if not FC.active:
        raise Unsupported(f"symbolic branch outside a forking run: {str(s)[:80]}")
    key = s.get_id()
    if key in FC.memo:                  # the same condition asked again on this path: same answer, no new fork
        return FC.memo[key]
    if z3.is_not(s) and s.arg(0).get_id() in FC.memo:
        return not FC.memo[s.arg(0).get_id()]
    if FC.pos < len(FC.decisions):
        d = FC.decisions[FC.pos]
    elif FC.prune:
        # decide feasibility of both outcomes under the preconditions and the path so far: no fork into an impossible branch
        can_t = _path_feasible(list(FC.pc) + [s])
        can_f = _path_feasible(list(FC.pc) + [z3.Not(s)])
        if can_t and can_f:
            d = True
            FC.decisions.append(True)
            FC.pending.append(FC.decisions[:-1] + [False])
        else:
            d = can_t or not can_f
            FC.decisions.append(d)
    else:
        d = True
        FC.decisions.append(True)
        FC.pending.append(FC.decisions[:-1] + [False])
    FC.pos += 1
    FC.pc.append(self if d else z3.Not(self))
    FC.memo[key] = d
    FC.keep.append(s)                   # keeps the AST (and its id) alive for the rest of the path
    return d


z3.ExprRef.__bool__ = _fork_bool


def concretize(x, lo=0, hi=64):
    """a concrete value for a symbolic integer (an array size, a split point) by forking over its possible values; the solver
    is asked at every candidate, so only values the inputs can produce become paths"""
    sx = z3.simplify(x) if isinstance(x, z3.ExprRef) else x
    if not isinstance(sx, z3.ExprRef):
        return int(sx)
    if z3.is_int_value(sx):
        return sx.as_long()
    if not FC.active:
        raise Unsupported("a size depends on symbolic data outside a forking run (enumerate what determines it)")
    saved = FC.prune
    FC.prune = True
    try:
        for k in range(lo, hi + 1):
            if bool(sx == k):
                return k
    finally:
        FC.prune = saved
    raise Unsupported(f"symbolic size outside [{lo}, {hi}]")


def run_paths(fn, feasible=None, prune=False):
    """run fn once per decision vector; returns [(path condition list, result, runtime)].
    prune=True asks the solver at every new branch point whether both outcomes are possible (costs two small queries per
    branch point, saves the exponentially many contradictory paths of code that re-tests related conditions)."""
    FC.prune = bool(prune)
    work = [[]]
    out = []
    n = 0
    while work:
        dec = work.pop()
        n += 1
        if n > FC.max_paths:
            raise Unsupported("too many glue paths")
        FC.decisions = list(dec)
        FC.pos = 0
        FC.pc = []
        FC.pending = []
        FC.memo = {}
        FC.keep = []
        FC.active = True
        rt = fresh_runtime()
        try:
            r = fn()
        except (Unsupported, OutsideModel):
            raise
        except Exception as e:      # noqa: BLE001
            FC.active = False
            gap = _model_gap(e)
            if gap:
                raise Unsupported(f"model gap: {gap}") from e
            if FC.pc and not _path_feasible(list(FC.pc)):
                work.extend(FC.pending)            # raised on a path no input can take: not a behaviour of the code
                continue
            e.gb_pc = list(FC.pc)                  # the conditions under which the code raises (for the counterexample)
            raise
        finally:
            FC.active = False
        out.append((list(FC.pc), r, rt))
        work.extend(FC.pending)
    return out


def _model_gap(e):
    """an exception whose innermost frame is inside this package's NumPy/pandas/numba models and that is of a 'not implemented
    here' kind says nothing about the code under test"""
    import traceback
    if not isinstance(e, (TypeError, AttributeError, NotImplementedError)):
        return None
    tb = traceback.extract_tb(e.__traceback__)
    if not tb:
        return None
    last = tb[-1]
    import os
    here = os.path.dirname(os.path.abspath(__file__))
    if os.path.abspath(last.filename).startswith(here) and "/props/" not in last.filename:
        return f"{type(e).__name__}: {str(e)[:160]} at {os.path.basename(last.filename)}:{last.lineno}"
    # e.g. NPShim.cumsum() got an unexpected keyword argument: raised at the call site in the repo, about a model function
    msg = str(e)
    import re
    if isinstance(e, TypeError) and re.search(r"\b(A|SymLen|GuardedSeq|\w*Shim|Fake\w+|LIndex|ModelIndex|TypedDictModel|KernelObj)\.\w+\(\) (got an unexpected keyword|takes|missing)", msg):
        return f"{type(e).__name__}: {msg[:160]}"
    if isinstance(e, AttributeError) and re.search(r"'(function|method|builtin_function_or_method)' object has no attribute", msg):
        return f"{type(e).__name__}: {msg[:160]}"          # an attribute of a model FUNCTION (np.add.reduceat on the fallback wrapper)
    if isinstance(e, AttributeError) and re.search(r"'(A|SymLen|GuardedSeq|\w*Shim|Fake\w+|LIndex|ModelIndex|TypedDictModel|_ILoc|_Loc|Stub)' object has no attribute", msg):
        return f"{type(e).__name__}: {msg[:160]}"
    return None


def _path_feasible(pc):
    s = z3.Solver()
    s.set("timeout", 10_000)
    for c in list(FC.current_pre or []) + pc:
        if isinstance(c, bool):
            if not c:
                return False
            continue
        s.add(c)
    return str(s.check()) != "unsat"

"""Array proxy: concrete shape and real numpy dtype, cells are python numbers or symbolic scalars.
Views share storage; origin tags and guarded stores give the write log used for C19."""
import numpy as real_np
import z3
from .values import (SF, UNDEF, Undef, Unsupported, MIN_INT, is_sym, to_z3_bool, conc_bool, b_and, b_or, b_not,
                     ite, zb, lift, _ITE_HOOKS, isnan, to_real, same)
from .runtime import current, GuardedSeq


class Storage:
    __slots__ = ("cells", "origin")

    def __init__(self, cells, origin=None):
        self.cells = cells
        self.origin = origin      # None = fresh (allocated by the code under test); else "input:<name>" / "state:<name>"


class SymLen:
    """prefix view arr[:n] with symbolic n (only as a returned value)"""
    def __init__(self, arr, n):
        self.arr = arr
        self.n = n

    @property
    def T(self):
        return SymLenT(self)


class SymLenT:
    """transposed symbolic-length result handed to a constructor fake (never inspected by the code under test)"""
    def __init__(self, s):
        self.s = s

    def __iter__(self):
        return iter([self])


def _int_range(dt):
    if dt.kind == "b":
        return None
    info = real_np.iinfo(dt)
    return int(info.min), int(info.max)


def coerce(val, dt, guard=True, rt=None, record=True):
    """value as stored into an array of dtype dt (numba store semantics in the MATH domain)"""
    k = dt.kind
    if isinstance(val, Undef):
        return val
    if hasattr(val, "dtype") and hasattr(val, "item") and not is_sym(val) and not isinstance(val, A):
        if val.dtype.kind in "mM":
            val = int(val.astype("int64")) if not real_np.isnat(val) else MIN_INT
        else:
            val = val.item()
    if k == "f":
        if isinstance(val, SF):
            return val
        if is_sym(val):
            if record and rt is not None and getattr(rt, "exact_ints", False) and z3.is_int(val):
                # a 64-bit integer (timestamp) stored into a float array: exact only up to 2^53
                lim = 2**53 if dt.itemsize == 8 else 2**24
                rt.obligations.append(("float_detour", guard, z3.Or(val == MIN_INT, z3.And(val >= -lim, val <= lim)), rt.where()))
            return SF.of(val)
        return float(val)
    if k == "b":
        if isinstance(val, bool):
            return val
        if is_sym(val) and z3.is_bool(val):
            return val
        if isinstance(val, SF):
            return b_not(val.eq(0.0))
        if is_sym(val):
            return val != 0
        return bool(val)
    if k in "iumM":
        if isinstance(val, SF):
            val = val.to_int()
        elif isinstance(val, float):
            val = MIN_INT if val != val else int(val)
        elif isinstance(val, bool):
            val = int(val)
        elif is_sym(val) and z3.is_bool(val):
            val = z3.If(val, z3.IntVal(1), z3.IntVal(0))
        elif is_sym(val) and z3.is_real(val):
            val = SF(False, val).to_int()
        if k in "mM" or dt.itemsize == 8:
            # 64-bit accumulators: wrap-around beyond the 64-bit range is outside every claim (inputs are bounded
            # instead); concrete runs wrap like the hardware so that translator validation compares like with like
            if is_sym(val) and record and rt is not None and getattr(rt, "check_int_overflow", False) and k in "iu":
                lo64, hi64 = (0, 2**64 - 1) if k == "u" else (-2**63, 2**63 - 1)
                rt.obligations.append(("int_overflow", guard, z3.And(val >= lo64, val <= hi64), rt.where() + f":{dt}"))
            if not is_sym(val):
                val = int(val)
                if k == "u":
                    val %= 2**64
                elif not (-2**63 <= val < 2**63):
                    val = (val + 2**63) % 2**64 - 2**63
            return val
        lo, hi = _int_range(dt)
        if is_sym(val):
            if rt is not None and getattr(rt, "wrap_narrow", False):
                # one-step inductive queries: explicit machine wrap-around instead of a range obligation
                span = hi - lo + 1
                return ((val - lo) % span) + lo
            if record and rt is not None:
                rt.obligations.append(("range", guard, z3.And(val >= lo, val <= hi), rt.where() + f":{dt}"))
            return val
        val = int(val)
        if not (lo <= val <= hi):
            if record and rt is not None and conc_bool(guard) is not False:
                rt.obligations.append(("range", guard, False, rt.where() + f":{dt}"))
            span = hi - lo + 1
            val = (val - lo) % span + lo
        return val
    raise Unsupported(f"dtype {dt}")


class A:
    """ndarray proxy (1-D or 2-D)"""
    __array_priority__ = 1000

    def __init__(self, cells, dtype, shape=None, origin=None, _st=None, _idx=None, detached=False):
        self.dtype = real_np.dtype(dtype)
        if _st is not None:
            self.st = _st
            self.idx = _idx
        else:
            cells = list(cells)
            self.st = Storage([coerce(c, self.dtype, record=False) for c in cells], origin)
            self.idx = list(range(len(cells)))
        self.shape = tuple(shape) if shape is not None else (len(self.idx),)
        n = 1
        for s in self.shape:
            n *= s
        assert n == len(self.idx), (self.shape, len(self.idx))
        self.detached = detached

    # ---- basic protocol
    @property
    def cells(self):
        c = self.st.cells
        return [c[i] for i in self.idx]

    @property
    def kind(self):
        return self.dtype.kind

    @property
    def ndim(self):
        return len(self.shape)

    @property
    def size(self):
        return len(self.idx)

    def __len__(self):
        if not self.shape:
            raise TypeError("len() of unsized object")
        return self.shape[0]

    def __iter__(self):
        if self.ndim == 1:
            return iter(self.cells)
        return iter([self[r] for r in range(self.shape[0])])

    def __repr__(self):
        return f"A({self.dtype}, shape={self.shape})"

    def __bool__(self):
        if self.size == 1:
            return bool(self.cells[0])
        raise ValueError("truth value of an array")

    def tag(self, origin):
        self.st.origin = origin
        return self

    def _view(self, idx, shape, dtype=None):
        return A(None, dtype or self.dtype, shape, _st=self.st, _idx=idx, detached=self.detached)

    def _new(self, cells, dtype=None, shape=None):
        return A(cells, dtype or self.dtype, shape)

    def _posgrid(self):
        return real_np.arange(len(self.idx)).reshape(self.shape)

    # ---- loads
    def _norm(self, i, n):
        if is_sym(i):
            return z3.If(i < 0, i + n, i)
        i = int(i)
        return i + n if i < 0 else i

    def _flat_sym(self, idx):
        """(flat index term, extent, in-bounds condition) for a scalar index with symbolic parts"""
        if isinstance(idx, tuple):
            if len(idx) != self.ndim:
                raise Unsupported("partial symbolic index")
            conds = []
            flat = 0
            stride = 1
            strides = []
            for s in reversed(self.shape):
                strides.insert(0, stride)
                stride *= s
            for i, s, st in zip(idx, self.shape, strides):
                j = self._norm(i, s)
                if is_sym(j):
                    conds.append(z3.And(j >= 0, j < s))
                elif not (0 <= j < s):
                    conds.append(False)
                flat = flat + j * st
            return flat, len(self.idx), b_and(*conds)
        n = self.shape[0]
        j = self._norm(idx, n)
        return j, n, z3.And(j >= 0, j < n)

    def load(self, idx):
        rt = current()
        if self.ndim == 2 and not isinstance(idx, tuple):
            # row selected by a symbolic index: value copy
            r, c = self.shape
            i = self._norm(idx, r)
            rt.check("bounds", z3.And(i >= 0, i < r))
            rt.stats["loads_sym"] += 1
            cells = self.cells
            out = []
            for col in range(c):
                e = cells[(r - 1) * c + col]
                for row in range(r - 2, -1, -1):
                    e = ite(i == row, cells[row * c + col], e)
                out.append(e)
            return A(out, self.dtype, (c,), detached=True)
        flat, n, inb = self._flat_sym(idx)
        if not is_sym(flat):
            if conc_bool(inb) is False or not (0 <= flat < n):
                rt.check("bounds", False)
                return self._dummy()
            return self.st.cells[self.idx[flat]]
        flat = z3.simplify(flat)
        rt.check("bounds", inb)
        rt.stats["loads_sym"] += 1
        if n == 0:
            return self._dummy()
        cells = self.cells
        e = cells[n - 1]
        for k in range(n - 2, -1, -1):
            e = ite(flat == k, cells[k], e)
        return e

    def _dummy(self):
        return {"f": 0.0, "b": False}.get(self.kind, 0)

    def store(self, idx, val, guard, rt):
        if self.detached:
            raise Unsupported("store into a value copy selected by a symbolic index")
        if conc_bool(guard) is False:
            return
        if self.st.origin is not None:
            rt.obligations.append(("input_write", guard, False, rt.where() + ":" + str(self.st.origin)))
        if isinstance(idx, slice) or idx is None or isinstance(idx, (A, real_np.ndarray)) or \
                (isinstance(idx, tuple) and any(isinstance(x, slice) for x in idx)):
            if conc_bool(guard) is not True:
                raise Unsupported("guarded bulk store")
            return self._bulk_store(idx, val, rt)
        if self.ndim == 2 and not isinstance(idx, tuple):      # row store
            vs = val.cells if isinstance(val, A) else [val] * self.shape[1]
            for col, v in enumerate(vs):
                self.store((idx, col), v, guard, rt)
            return
        flat, n, inb = self._flat_sym(idx)
        cells = self.st.cells
        if not is_sym(flat):
            if conc_bool(inb) is False or not (0 <= flat < n):
                rt.obligations.append(("bounds", guard, False, rt.where()))
                return
            p = self.idx[flat]
            cells[p] = ite(guard, coerce(val, self.dtype, guard, rt), cells[p])
            return
        flat = z3.simplify(flat)
        rt.obligations.append(("bounds", guard, inb, rt.where()))
        v = coerce(val, self.dtype, guard, rt)
        for k in range(n):
            p = self.idx[k]
            cells[p] = ite(b_and(guard, flat == k), v, cells[p])

    def _bulk_store(self, idx, val, rt):
        cells = self.st.cells
        if idx is None or (isinstance(idx, slice) and idx == slice(None)):
            targets = list(range(len(self.idx)))
        elif isinstance(idx, A) and idx.kind == "b":
            vs = val.cells if isinstance(val, A) else [val] * len(self.idx)
            if len(idx.idx) != len(self.idx):
                raise IndexError("boolean index did not match")
            mcells = idx.cells
            if isinstance(val, A) and len(vs) != len(self.idx):
                if not all(isinstance(m, bool) for m in mcells):
                    from .runtime import FC
                    if FC.active and not rt.frames:
                        mcells = [bool(m) for m in mcells]          # glue under fork-and-replay: one path per selection pattern
                    else:
                        raise Unsupported("boolean-mask assignment of a compressed array with symbolic mask")
                it = iter(vs)
                vs = [next(it) if m else None for m in mcells]
            for j, (m, v) in enumerate(zip(mcells, vs)):
                if conc_bool(m) is False:
                    continue
                p = self.idx[j]
                cells[p] = ite(m, coerce(v, self.dtype, m, rt), cells[p])
            return
        elif isinstance(idx, A):
            vs = val.cells if isinstance(val, A) else [val] * len(idx.idx)
            for i, v in zip(idx.cells, vs):
                self.store(i, v, True, rt)
            return
        else:
            if isinstance(idx, real_np.ndarray) and idx.dtype.kind == "b" and idx.shape != self.shape:
                raise IndexError("boolean index did not match")
            pos = self._posgrid()[idx]
            targets = [int(p) for p in real_np.asarray(pos).flat]
        vs = val.cells if isinstance(val, A) else [val] * len(targets)
        if len(vs) != len(targets):
            if len(vs) == 1:
                vs = vs * len(targets)
            else:
                raise ValueError("shape mismatch in assignment")
        for t, v in zip(targets, vs):
            cells[self.idx[t]] = coerce(v, self.dtype, True, rt)

    def __getitem__(self, idx):
        if isinstance(idx, slice) and (is_sym(idx.start) or is_sym(idx.stop)):
            if idx.step is not None:
                raise Unsupported("symbolic slice with step")
            if is_sym(idx.stop) and self.ndim == 2 and idx.start in (None, 0):
                return SymLen(self, idx.stop)          # prefix of rows
            if self.ndim != 1:
                raise Unsupported("symbolic slice of a 2-D array")
            if is_sym(idx.stop):
                if idx.start not in (None, 0):
                    raise Unsupported("symbolic stop with a start")
                return SymLen(self, idx.stop)
            if idx.stop is not None:
                raise Unsupported("symbolic start with a stop")
            current().check("slice_start_nonneg", idx.start >= 0)
            cells = self.cells
            return GuardedSeq([(cells[p], idx.start <= p) for p in range(len(cells))], start=idx.start)
        if not isinstance(idx, A) and hasattr(idx, "arr") and hasattr(idx, "index") and isinstance(getattr(idx, "arr"), A):
            idx = idx.arr                            # a pandas Series used as an indexer: its values
        if isinstance(idx, A):
            if idx.kind == "b":
                m = idx.cells
                if not all(isinstance(c, bool) for c in m):
                    from .runtime import FC
                    if FC.active and not current().frames:
                        m = [bool(c) for c in m]     # glue under fork-and-replay: one path per selection pattern
                    else:
                        raise Unsupported("boolean indexing with a symbolic mask (data-dependent shape)")
                if self.ndim > 1 and tuple(idx.shape) == tuple(self.shape):
                    # a mask of the array's own shape: the selected cells in row-major order, as a vector
                    return A([c for c, mm in zip(self.cells, m) if mm], self.dtype)
                if len(m) != self.shape[0]:
                    raise IndexError("boolean index did not match indexed array")
                if self.ndim == 1:
                    return self._new([c for c, mm in zip(self.cells, m) if mm])
                rows = [r for r, mm in enumerate(m) if mm]
                return self[real_np.array(rows, dtype=int)]
            ic = idx.cells
            if all(not is_sym(i) for i in ic):
                return self[real_np.array([int(i) for i in ic], dtype=int).reshape(idx.shape)]
            if self.ndim != 1:
                raise Unsupported("symbolic fancy index on 2-D")
            return A([self.load(i) for i in ic], self.dtype, idx.shape)
        if isinstance(idx, tuple) and any(is_sym(x) for x in idx) or (is_sym(idx) and not isinstance(idx, tuple)):
            return self.load(idx)
        if isinstance(idx, (int, real_np.integer)) and self.ndim == 1:
            n = self.shape[0]
            j = int(idx) + n if idx < 0 else int(idx)
            if not (0 <= j < n):
                rt = current()
                if rt.frames:
                    rt.check("bounds", False)
                    return self._dummy()
                raise IndexError(f"index {idx} is out of bounds for axis 0 with size {n}")
            return self.st.cells[self.idx[j]]
        # concrete basic / fancy indexing resolved by numpy on a position grid
        try:
            pos = self._posgrid()[idx]
        except IndexError:
            rt = current()
            if rt.frames:
                rt.check("bounds", False)
                return self._dummy()
            raise
        if real_np.ndim(pos) == 0:
            return self.st.cells[self.idx[int(pos)]]
        flat = [self.idx[int(p)] for p in pos.flat]
        basic = not isinstance(idx, (real_np.ndarray, list)) and not (
            isinstance(idx, tuple) and any(isinstance(x, (real_np.ndarray, list)) for x in idx))
        if basic:
            return self._view(flat, pos.shape)
        c = self.st.cells
        return A([c[i] for i in flat], self.dtype, pos.shape)

    def __setitem__(self, idx, val):       # native (glue) stores: guard True
        rt = current()
        self.store(idx, val, True, rt)

    # ---- numpy-like methods
    @property
    def T(self):
        if self.ndim == 1:
            return self
        pos = self._posgrid().T
        return self._view([self.idx[int(p)] for p in pos.flat], pos.shape)

    def view(self, dt=None):
        if dt is None:
            return self._view(list(self.idx), self.shape)
        dt = real_np.dtype(dt)
        if dt.itemsize != self.dtype.itemsize:
            raise Unsupported(f"view {self.dtype} as {dt}")
        if (self.kind == "f") != (dt.kind == "f"):
            raise Unsupported("reinterpreting float bits")
        return self._view(list(self.idx), self.shape, dt)

    def astype(self, dt, copy=True):
        dt = real_np.dtype(dt)
        if dt.kind in "mM" and self.kind in "mM" and dt != self.dtype:
            if real_np.datetime_data(dt) != real_np.datetime_data(self.dtype):
                if dt.kind != self.kind:
                    raise Unsupported("datetime <-> timedelta cast")
                scale = {"s": 10**9, "ms": 10**6, "us": 10**3, "ns": 1}
                (u1, n1), (u2, n2) = real_np.datetime_data(self.dtype), real_np.datetime_data(dt)
                if u1 not in scale or u2 not in scale or n1 != 1 or n2 != 1 or scale[u1] < scale[u2]:
                    raise Unsupported(f"temporal unit conversion {self.dtype} -> {dt}")
                f = scale[u1] // scale[u2]
                # to a finer unit: multiply, NaT stays NaT (overflow outside the claim)
                return A([ite(c == MIN_INT, MIN_INT, c * f) for c in self.cells], dt, self.shape)
        rt = current()
        return A([coerce(c, dt, True, rt) for c in self.cells], dt, self.shape)

    def copy(self):
        return A(self.cells, self.dtype, self.shape)

    @property
    def flags(self):
        class _Flags:
            writeable = True          # NumPy arrays handed in by a caller are writable unless stated otherwise
            c_contiguous = True
            owndata = self.st.origin is None
        return _Flags()

    def to_numpy(self, *a, **k):
        return self

    def ravel(self):
        return self._view(list(self.idx), (len(self.idx),))

    def reshape(self, *shape):
        if len(shape) == 1 and isinstance(shape[0], (tuple, list)):
            shape = tuple(shape[0])
        pos = real_np.arange(len(self.idx)).reshape(shape)
        return self._view(list(self.idx), pos.shape)

    def nonzero(self):
        if self.ndim != 1:
            raise Unsupported("nonzero on 2-D")
        cells = self.cells
        if all(not is_sym(c) for c in cells):
            return (A([j for j, c in enumerate(cells) if c], "int64"),)
        return (GuardedSeq([(j, c if self.kind == "b" else (c != 0)) for j, c in enumerate(cells)]),)

    def tolist(self):
        return self.cells

    def item(self):
        assert self.size == 1
        return self.cells[0]

    def fill(self, v):
        self[...] = v

    def _reduce(self, f):
        cells = self.cells
        if not cells:
            raise ValueError("zero-size array to reduction operation")
        acc = cells[0]
        for c in cells[1:]:
            acc = f(acc, c)
        return acc

    def min(self):
        def f(a, b):
            return ite(_lt(b, a), b, a)
        return self._reduce(f)

    def max(self, axis=None, initial=None, **kw):
        if axis is not None or kw:
            raise Unsupported("max with axis / options")

        def f(a, b):
            return ite(_lt(a, b), b, a)
        if initial is not None:
            if not self.cells:
                return initial
            return f(initial, self._reduce(f))
        return self._reduce(f)

    def sum(self, axis=None):
        if axis is not None:
            raise Unsupported("sum with axis")
        cells = self.cells
        if self.kind == "b":
            cells = [ite(c, 1, 0) if is_sym(c) else int(c) for c in cells]
        acc = 0.0 if self.kind == "f" else 0
        for c in cells:
            acc = acc + c
        return acc

    def any(self):
        return b_or(*self.cells)

    def all(self):
        return b_and(*self.cells)

    def cumsum(self):
        out = []
        acc = None
        for c in self.cells:
            acc = c if acc is None else acc + c
            out.append(acc)
        dt = self.dtype if self.kind in "fu" else real_np.dtype("int64")
        return A(out, dt)

    def searchsorted(self, v, side="left", sorter=None):
        """positions in a sorted 1-D array: number of elements strictly below (side='left') / not above (side='right') each value;
        NaN values sort after everything"""
        if sorter is not None or self.ndim != 1:
            raise Unsupported("searchsorted with a sorter / on 2-D")
        from .values import SF as _SF, total
        edges = self.cells
        scalar = not isinstance(v, A)
        vals = [v] if scalar else v.cells
        out = []
        for x in vals:
            terms = []
            for e in edges:
                if isinstance(x, _SF) or isinstance(e, _SF):
                    xs, es = _SF.of(x), _SF.of(e)
                    below = es.lt(xs) if side == "left" else es.le(xs)
                    below = b_or(below, b_and(xs.nan, b_not(es.nan)))
                else:
                    below = (e < x) if side == "left" else (e <= x)
                terms.append(ite(below, 1, 0))
            out.append(total(terms, 0) if terms else 0)
        return out[0] if scalar else A(out, "int64", v.shape)

    def argsort(self, *a, **k):
        cells = self.cells
        if any(is_sym(c) or isinstance(c, SF) for c in cells):
            raise Unsupported("argsort of symbolic data")
        return A([int(i) for i in real_np.argsort(real_np.array(cells), kind="stable")], "int64")

    # ---- element-wise
    def _ew(self, o, f, dt=None):
        if hasattr(o, "arr") and hasattr(o, "index") and not isinstance(o, A):
            return NotImplemented          # Series fake: let its reflected operator handle the pair
        if isinstance(o, A):
            if o.shape != self.shape:
                if o.size == 1:
                    oc = o.cells * len(self.idx)
                elif self.size == 1:
                    return o._ew(self, lambda a, b: f(b, a), dt)
                else:
                    raise ValueError(f"operands could not be broadcast together {self.shape} {o.shape}")
            else:
                oc = o.cells
        elif isinstance(o, real_np.ndarray):
            if o.shape != self.shape:
                raise ValueError("operands could not be broadcast together")
            oc = [x.item() for x in o.flat]
        elif isinstance(o, (list, tuple)):
            if len(o) != len(self.idx) or self.ndim != 1:
                raise ValueError("operands could not be broadcast together")
            oc = list(o)
        else:
            oc = [o] * len(self.idx)
        return A([f(a, b) for a, b in zip(self.cells, oc)], dt or self.dtype, self.shape)

    def _arith_dt(self, o, true_div=False):
        ok = o.kind if isinstance(o, A) else ("f" if isinstance(o, (float, SF, real_np.floating)) else
                                              ("b" if isinstance(o, bool) else "i"))
        if true_div or self.kind == "f" or ok == "f":
            if self.kind == "f" and self.dtype.itemsize == 4 and (not isinstance(o, A) or o.dtype == self.dtype):
                return self.dtype
            return real_np.dtype("float64")
        if self.kind in "mM":
            return self.dtype
        if isinstance(o, A) and o.kind in "mM":
            return o.dtype
        if self.kind == "u" and ok in "ub":
            return self.dtype if self.dtype.itemsize == 8 else real_np.dtype("uint64") if isinstance(o, A) and o.dtype.itemsize == 8 else self.dtype
        if self.kind == "b" and ok == "b":
            return real_np.dtype("int64")
        if isinstance(o, A):
            return real_np.promote_types(self.dtype, o.dtype) if self.kind != "b" and o.kind != "b" else (
                o.dtype if self.kind == "b" else self.dtype)
        return self.dtype if self.kind != "b" else real_np.dtype("int64")

    def __add__(self, o): return self._ew(o, _add, self._arith_dt(o))
    def __radd__(self, o): return self._ew(o, lambda a, b: _add(b, a), self._arith_dt(o))
    def __sub__(self, o): return self._ew(o, _sub, self._arith_dt(o))
    def __rsub__(self, o): return self._ew(o, lambda a, b: _sub(b, a), self._arith_dt(o))
    def __mul__(self, o): return self._ew(o, _mul, self._arith_dt(o))
    def __rmul__(self, o): return self._ew(o, lambda a, b: _mul(b, a), self._arith_dt(o))
    def __truediv__(self, o): return self._ew(o, fdiv, self._arith_dt(o, True))
    def __rtruediv__(self, o): return self._ew(o, lambda a, b: fdiv(b, a), self._arith_dt(o, True))
    def __floordiv__(self, o): return self._ew(o, _floordiv, self._arith_dt(o))
    def __neg__(self): return A([-c for c in self.cells], self.dtype, self.shape)

    # in-place operators write through views, as numpy does
    def _inplace(self, o, f):
        r = self._ew(o, f, self.dtype)
        if r is NotImplemented:
            return r
        old = list(self.cells)
        self._bulk_store(slice(None), r, current())
        if self.st.origin is not None:
            rt = current()
            # the property speaks of CONTENTS: the obligation fails for inputs on which some cell receives a different value
            changed = b_or(*[b_not(same(a, b)) for a, b in zip(old, r.cells)]) if len(old) == len(r.cells) else True
            rt.obligations.append(("input_write", changed, False, rt.where() + ":" + str(self.st.origin)))
        return self

    def __iadd__(self, o): return self._inplace(o, _add)
    def __isub__(self, o): return self._inplace(o, _sub)
    def __imul__(self, o): return self._inplace(o, _mul)
    def __iand__(self, o): return self._inplace(o, lambda a, b: b_and(a, b))
    def __ior__(self, o): return self._inplace(o, lambda a, b: b_or(a, b))

    def __pow__(self, k):
        if k == 2:
            return self._ew(self, _mul, self._arith_dt(self))
        if k == 0.5:
            return A([fsqrt(c) for c in self.cells], "float64", self.shape)
        raise Unsupported(f"array ** {k}")

    def __rpow__(self, base):
        if any(is_sym(c) or isinstance(c, SF) for c in self.cells) or not isinstance(base, int):
            raise Unsupported("base ** symbolic array")
        return A([base ** int(c) for c in self.cells], self.dtype, self.shape)

    def __lt__(self, o): return self._ew(o, _lt, "bool")
    def __gt__(self, o): return self._ew(o, lambda a, b: _lt(b, a), "bool")
    def __le__(self, o): return self._ew(o, _le, "bool")
    def __ge__(self, o): return self._ew(o, lambda a, b: _le(b, a), "bool")
    def __eq__(self, o): return self._ew(o, _eq, "bool")
    def __ne__(self, o): return self._ew(o, lambda a, b: b_not(_eq(a, b)), "bool")
    __hash__ = object.__hash__
    def __and__(self, o): return self._ew(o, lambda a, b: b_and(a, b), "bool")
    def __or__(self, o): return self._ew(o, lambda a, b: b_or(a, b), "bool")
    def __invert__(self): return A([b_not(c) for c in self.cells], "bool", self.shape)


# ---- scalar helpers that work on python numbers and symbolic scalars alike
def _num(x):
    if isinstance(x, bool):
        return int(x)
    if is_sym(x) and z3.is_bool(x):
        return z3.If(x, z3.IntVal(1), z3.IntVal(0))
    return x


def _add(a, b): return _num(a) + _num(b)
def _sub(a, b): return _num(a) - _num(b)
def _mul(a, b):
    a, b = _num(a), _num(b)
    r = a * b
    if is_sym(r) and z3.is_int(r):
        from .values import _int_overflow_obligation
        _int_overflow_obligation(r)
    return r


def _floordiv(a, b):
    a, b = _num(a), _num(b)
    if is_sym(a) or is_sym(b):
        if isinstance(a, SF) or isinstance(b, SF):
            raise Unsupported("float floor division")
        from .values import int_floordiv
        if is_sym(b):
            # a symbolic divisor is a small count in the sources: case split over its values (division by constants only);
            # NumPy's integer x // 0 is 0 (with a warning)
            bound = 16
            current().check("small_divisor", z3.And(b >= 0, b <= bound))
            q = z3.IntVal(0)
            for k in range(bound, 0, -1):
                q = z3.If(b == k, int_floordiv(a, k), q)
            return q
        if b > 0:
            return int_floordiv(a, b)          # z3 integer div: floor for positive divisor
        return int_floordiv(-a, -b)
    return a // b


def fdiv(a, b):
    a, b = _num(a), _num(b)
    if isinstance(a, SF) or isinstance(b, SF) or is_sym(a) or is_sym(b):
        return SF.of(a) / SF.of(b)
    a = float(a)
    b = float(b)
    if b == 0:
        if a != a or a == 0:
            return float("nan")
        return float("inf") if a > 0 else float("-inf")
    return a / b


def fsqrt(x):
    if isinstance(x, SF) or is_sym(x):
        return SF.of(x) ** 0.5
    x = float(x)
    return x ** 0.5 if x >= 0 else float("nan")


def _lt(a, b):
    a, b = _num(a), _num(b)
    if isinstance(b, SF) and not isinstance(a, SF):
        return SF.of(a).lt(b)
    return a < b


def _le(a, b):
    a, b = _num(a), _num(b)
    if isinstance(b, SF) and not isinstance(a, SF):
        return SF.of(a).le(b)
    return a <= b


def _eq(a, b):
    a, b = _num(a), _num(b)
    if isinstance(b, SF) and not isinstance(a, SF):
        return SF.of(a).eq(b)
    r = a == b
    return r


def _ite_arrays(c, a, b):
    if not (isinstance(a, (A, SymLen)) or isinstance(b, (A, SymLen))):
        return NotImplemented
    if isinstance(a, SymLen) or isinstance(b, SymLen):
        def norm(x, ref):
            if isinstance(x, SymLen):
                return x
            L = len(ref.arr.idx)
            cells = x.cells
            pad = [ref.arr.cells[0]] * (L - len(cells)) if L > len(cells) else []
            return SymLen(A(cells + pad, x.dtype), len(cells))
        a2 = norm(a, b if isinstance(b, SymLen) else a)
        b2 = norm(b, a if isinstance(a, SymLen) else b)
        La, Lb = len(a2.arr.idx), len(b2.arr.idx)
        if La != Lb:
            L = max(La, Lb)
            fill = (a2.arr.cells + b2.arr.cells)[0]
            a2 = SymLen(A(a2.arr.cells + [fill] * (L - La), a2.arr.dtype), a2.n)
            b2 = SymLen(A(b2.arr.cells + [fill] * (L - Lb), b2.arr.dtype), b2.n)
        return SymLen(_ite_arrays(c, a2.arr, b2.arr), ite(c, a2.n, b2.n))
    if not (isinstance(a, A) and isinstance(b, A)):
        raise Unsupported("merge of array with non-array")
    if a.st is b.st and a.idx == b.idx:
        return a
    if a.shape != b.shape:
        if a.ndim == 1 and b.ndim == 1:
            return _ite_arrays(c, SymLen(a, len(a)), SymLen(b, len(b)))
        raise Unsupported("merge of arrays with different shapes")
    return A([ite(c, x, y) for x, y in zip(a.cells, b.cells)], a.dtype, a.shape, detached=True)


_ITE_HOOKS.append(_ite_arrays)

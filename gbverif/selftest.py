"""Mutation self-test (not a registered check): applies one source change at a time to a scratch copy of /repo and runs the
listed quick checks against it.  `kill` checks must exit 1 (VIOLATION), `silent` checks must exit 0.
usage: python -m gbverif.selftest [name-substring ...]     (results are appended to /verif/seeded/selftest_results.json)"""
import json
import os
import shutil
import subprocess
import sys
import tempfile

VERIF = os.path.dirname(os.path.dirname(os.path.abspath(__file__)))
NB = "groupby_lib/groupby/numba.py"
CORE = "groupby_lib/groupby/core.py"
EMAS = "groupby_lib/emas.py"
FACT = "groupby_lib/groupby/factorization.py"
NANOPS = "groupby_lib/nanops.py"
UTIL = "groupby_lib/util.py"

MUTANTS = [
    # --- vacuity controls: killed by the pinned suite as well
    {"name": "K1 nanmax compares with <", "file": NB, "old": "        elif count:\n            if next_val > cur_max:\n                cur_max = next_val\n            return cur_max, count + 1\n        else:\n            return next_val, count + 1\n\n    @_scalar_func_decorator\n    def min(",
     "new": "        elif count:\n            if next_val < cur_max:\n                cur_max = next_val\n            return cur_max, count + 1\n        else:\n            return next_val, count + 1\n\n    @_scalar_func_decorator\n    def min(", "kill": ["C01", "C04"], "silent": ["C15"]},
    {"name": "K2 first always takes next_val", "file": NB, "old": "        elif count:\n            return cur_first, count + 1\n        else:\n            return next_val, count + 1",
     "new": "        elif count:\n            return next_val, count + 1\n        else:\n            return next_val, count + 1", "kill": ["C01", "C04"], "silent": []},
    {"name": "K3 integer sums accumulate in the input dtype", "file": NB, "old": "            dtype = \"uint64\" if np_type.kind == \"u\" else \"int64\"", "new": "            dtype = np_type",
     "kill": ["C12"], "silent": []},
    {"name": "K4 chunked values split at cumsum(lengths[1:])", "file": NB, "old": "    splits = np.cumsum(lengths[:-1])", "new": "    splits = np.cumsum(lengths[1:])", "kill": ["C03", "C04"], "silent": []},
    {"name": "K5 counts combined with the reducer's own name", "file": NB, "old": "            \"sum\" if counting or \"sum\" in reduce_func_name else reduce_func_name,", "new": "            \"sum\" if \"sum\" in reduce_func_name else reduce_func_name,", "kill": ["C04"], "silent": []},
    {"name": "K6 backward nth scan starts one row early", "file": NB, "old": "    else:\n        rng = range(len(group_key) - 1, -1, -1)\n        n = -n - 1", "new": "    else:\n        rng = range(len(group_key) - 2, -1, -1)\n        n = -n - 1", "kill": ["C15"], "silent": []},
    {"name": "K7 rolling sum keeps the non-null count on eviction", "file": NB, "old": "                    group_sums[key] -= old_val\n                    group_non_null[key] -= 1", "new": "                    group_sums[key] -= old_val", "kill": ["C09"], "silent": []},
    {"name": "K8 rolling extremum: stale-position shortcut", "file": NB, "old": "            need_recalc = pos == pos_of_current_best[key]\n            need_recalc = True", "new": "            need_recalc = pos == pos_of_current_best[key]", "kill": ["C09"], "silent": []},
    {"name": "K9 window rescan skips one element", "file": NB, "old": "    for j, v in enumerate(arr[i + 1 :], i):", "new": "    for j, v in enumerate(arr[i + 2 :], i):", "kill": ["C09"], "silent": []},
    {"name": "K10 cumulative: nan/non-nan variants swapped", "file": NB, "old": "        name = \"nan\" + operation if skip_na else operation", "new": "        name = operation if skip_na else \"nan\" + operation", "kill": ["C08"], "silent": []},
    {"name": "K11 EMA decays only on valid rows", "file": EMAS, "old": "            residual_weights[k] += 1\n            residuals[k] += x\n\n        residuals[k] *= beta\n        residual_weights[k] *= beta\n\n        last_seen[k] = out[i]",
     "new": "            residual_weights[k] += 1\n            residuals[k] += x\n            residuals[k] *= beta\n            residual_weights[k] *= beta\n\n        last_seen[k] = out[i]", "kill": ["C10"], "silent": []},
    {"name": "K12 ema_grouped alpha from halflife without the reciprocal", "file": EMAS, "old": "            alpha = 1 - np.exp(-np.log(2) / halflife)\n\n    nb_kwargs", "new": "            alpha = 1 - np.exp(-np.log(2) * halflife)\n\n    nb_kwargs", "kill": ["C10"], "silent": []},
    {"name": "K13 uniques[i] instead of uniques[group_id]", "file": FACT, "old": "                uniques[group_id] = codes[i]", "new": "                uniques[i] = codes[i]", "kill": ["C02"], "silent": []},
    {"name": "K14 monotonic: new label on equal keys", "file": FACT, "old": "        elif x > prev:", "new": "        elif x >= prev:", "kill": ["C02"], "silent": []},
    {"name": "K15 chunked merge: no slot for the null key", "file": CORE, "old": "                        len(pointer) + 1\n                        if pointer is not None", "new": "                        len(pointer)\n                        if pointer is not None", "kill": ["C03"], "silent": []},
    {"name": "K16 chunked merge: counts not accumulated", "file": CORE, "old": "                count[pointer] += chunk_count\n", "new": "                count[pointer] = chunk_count\n", "kill": ["C03"], "silent": []},
    {"name": "K17 chunked merge: column slice by n_values", "file": CORE, "old": "            slice_ = slice(i * len(group_keys), (i + 1) * len(group_keys))", "new": "            slice_ = slice(i * n_values, (i + 1) * n_values)", "kill": ["C03"], "silent": []},
    {"name": "K18 first chunk in slice: >= start", "file": CORE, "old": "            if cum_length > start:", "new": "            if cum_length >= start:", "kill": ["C03"], "silent": []},
    {"name": "K19 count_ikey overwrites instead of adding", "file": CORE, "old": "                    count[pointer] += c", "new": "                    count[pointer] = c", "kill": ["C03"], "silent": []},
    {"name": "K20 unify applies pointer tables in reverse chunk order", "file": CORE, "old": "                for p, k in zip(self._group_key_pointers, self._group_ikey.chunks)", "new": "                for p, k in zip(self._group_key_pointers[::-1], self._group_ikey.chunks)", "kill": ["C13", "C07"], "silent": []},
    {"name": "K21 nanops: second-level reduction always sum", "file": NANOPS, "old": "        result = reduce_1d(chunk_reduction, chunks, skipna=skipna, n_threads=1)", "new": "        result = reduce_1d(\"sum\", chunks, skipna=skipna, n_threads=1)", "kill": ["C20"], "silent": []},
    # --- survive the pinned suite (measured at design time)
    {"name": "S1 masked branch of _group_by_reduce loses the null-key guard", "file": NB, "old": "            key = group_key[i]\n            if key < 0:\n                continue\n            target[key], count[key] = reduce_func(target[key], values[i], count[key])\n\n    return target, count",
     "new": "            key = group_key[i]\n            target[key], count[key] = reduce_func(target[key], values[i], count[key])\n\n    return target, count", "kill": ["C06", "C01", "C05"], "silent": ["C08"]},
    {"name": "S2 tail rows come out reversed", "file": NB, "old": "    if not forward:\n        out = out[:, ::-1]\n", "new": "", "kill": ["C15"], "silent": []},
    {"name": "S3 masked rows copy target[last_seen] even when nothing was seen", "file": NB, "old": "                if last_seen >= 0:\n                    target[i] = target[last_seen]", "new": "                target[i] = target[last_seen]", "kill": [], "silent": ["C08", "C05", "C06"]},
    # --- semantics-preserving rewrites: every check must stay silent
    {"name": "E1 sorted indexer: increment then write with compensated index", "file": CORE, "old": "                    pos = current_pos[k]\n                    indexer[pos] = i\n                    current_pos[k] += 1", "new": "                    current_pos[k] += 1\n                    indexer[current_pos[k] - 1] = i", "kill": [], "silent": ["C02", "C13"]},
    {"name": "E2 shift/diff: > window - 1", "file": NB, "old": "            if group_counts[key] >= window:", "new": "            if group_counts[key] > window - 1:", "kill": [], "silent": ["C09", "C05"]},
    {"name": "E3 int64 counters in the rolling kernels", "file": NB, "old": "    group_positions = np.zeros(ngroups, dtype=np.int16)\n    group_non_null = np.zeros(ngroups, dtype=np.int16)\n    group_n_seen = np.zeros(ngroups, dtype=np.int16)",
     "new": "    group_positions = np.zeros(ngroups, dtype=np.int64)\n    group_non_null = np.zeros(ngroups, dtype=np.int64)\n    group_n_seen = np.zeros(ngroups, dtype=np.int64)", "kill": [], "silent": ["C09"]},
    {"name": "E4 np.full(n, 0) instead of np.zeros in _find_nth", "file": NB, "old": "    out = np.full(ngroups, -1, dtype=np.int64)\n    seen = np.zeros(ngroups, dtype=np.int64)\n    masked = mask is not None\n    if n >= 0:", "new": "    out = np.full(ngroups, -1, dtype=np.int64)\n    seen = np.full(ngroups, 0, dtype=np.int64)\n    masked = mask is not None\n    if n >= 0:", "kill": [], "silent": ["C15"]},
    {"name": "E5 up to 8 threads per call", "file": CORE, "old": "        return min(4, 1 + len(self) // 1_000_000)", "new": "        return min(8, 1 + len(self) // 1_000_000)", "kill": [], "silent": ["C13", "C07"], "note": "C03's t_max probe reports inconclusive (exploration covers 1..4 threads)"},
    # --- reverted fixes whose commits no longer revert mechanically (later commits touch the same lines)
    {"name": "R-807b829 grouped EMA without the null-key guard", "file": EMAS, "old": "        if k < 0:\n            # rows with a null key belong to no group\n            out[i] = np.nan\n            continue\n        if np.isnan(x) or (masked and not mask[i]):\n            out[i] = last_seen[k]\n        else:\n            out[i] = (x + residuals[k]) / (1 + residual_weights[k])\n            residual_weights[k] += 1\n            residuals[k] += x\n\n        residuals[k] *= beta",
     "new": "        if np.isnan(x) or (masked and not mask[i]):\n            out[i] = last_seen[k]\n        else:\n            out[i] = (x + residuals[k]) / (1 + residual_weights[k])\n            residual_weights[k] += 1\n            residuals[k] += x\n\n        residuals[k] *= beta", "kill": ["C10", "C06"], "silent": []},
    {"name": "R-3f9d6bd chunk merge ignores the chunk's own counts", "file": CORE, "old": "                    y_counts=chunk_count,  # groups absent from this chunk contribute nothing\n", "new": "", "kill": ["C03"], "silent": []},
    # --- further blind-spot mutants
    {"name": "B1 8-bit buffer positions in rolling sum", "file": NB, "old": "    group_positions = np.zeros(ngroups, dtype=np.int16)\n    group_non_null = np.zeros(ngroups, dtype=np.int16)\n    group_n_seen = np.zeros(ngroups, dtype=np.int16)", "new": "    group_positions = np.zeros(ngroups, dtype=np.int8)\n    group_non_null = np.zeros(ngroups, dtype=np.int8)\n    group_n_seen = np.zeros(ngroups, dtype=np.int8)", "kill": [], "silent": ["C09"], "note": "windows >= 128 are outside the bounded claim of C09; documented blind spot"},
    {"name": "B2 chunked-key merge without accumulated counts", "file": CORE, "old": "                    counts=count[pointer],\n", "new": "                    counts=None,\n", "kill": ["C03"], "silent": []},
    {"name": "B3 negative slice start resolved from the wrong end", "file": CORE, "old": "            start = len(self) + mask.start", "new": "            start = len(self) - 1 + mask.start", "kill": ["C03"], "silent": []},
    {"name": "B4 parallel_map gathers by completion order", "file": UTIL, "old": "            index = future_to_index[future]\n            try:\n                results[index] = future.result()", "new": "            index = future_to_index[future]\n            try:\n                results[results.index(None)] = future.result()", "kill": ["C03"], "silent": []},
    {"name": "B5 cumulative output reuses the input array", "file": NB, "old": "    func = _cumulative_reduce.py_func if use_py_func else _cumulative_reduce", "new": "    if not counting and len(values) == 1 and values[0].dtype == target.dtype and mask is None:\n        target = values[0]\n    func = _cumulative_reduce.py_func if use_py_func else _cumulative_reduce", "kill": ["C19"], "silent": []},
    # --- families added with the twelfth batch of seeded changes
    {"name": "N1 row selection takes the values in reverse order", "file": CORE, "old": "            .iloc[ilocs]\n            .set_index(out_index)", "new": "            .iloc[ilocs[::-1]]\n            .set_index(out_index)",
     "kill": ["C15"], "silent": []},
    {"name": "N2 row selection labels taken one position late", "file": CORE, "old": "            out_index = common_index[ilocs]", "new": "            out_index = common_index[np.minimum(ilocs + 1, len(common_index) - 1)]",
     "kill": ["C15"], "silent": []},
    {"name": "N3 subset_ratio divides by the subset total", "file": CORE, "old": "        return self.agg(**kwargs, mask=subset_mask & global_mask) / self.agg(\n            **kwargs, mask=global_mask\n        )",
     "new": "        return self.agg(**kwargs, mask=subset_mask & global_mask) / self.agg(\n            **kwargs, mask=subset_mask\n        )", "kill": ["C16"], "silent": []},
    {"name": "N4 single-level margin is the plain numpy reduction", "file": CORE, "old": "        data.loc[\"All\"] = data.agg(agg_func)", "new": "        data.loc[\"All\"] = getattr(np, agg_func)(data.to_numpy(), axis=0)",
     "kill": ["C14"], "silent": []},
    {"name": "N5 row selection reverses the kept positions", "file": CORE, "old": "        keep = ilocs > -1\n        ilocs = ilocs[keep]\n", "new": "        keep = ilocs > -1\n        ilocs = ilocs[keep][::-1]\n",
     "kill": ["C15"], "silent": []},
    {"name": "E-N6 row selection lists the positions column by column (order across groups is not part of C15)", "file": CORE, "old": "        keep = ilocs > -1\n        ilocs = ilocs[keep]\n",
     "new": "        keep = ilocs.T > -1\n        ilocs = ilocs.T[keep]\n", "kill": [], "silent": ["C15"]},
]


def run(names):
    out_path = os.path.join(VERIF, "seeded", "selftest_results.json")
    os.makedirs(os.path.dirname(out_path), exist_ok=True)
    results = json.load(open(out_path)) if os.path.exists(out_path) else {}
    for m in MUTANTS:
        if names and not any(n in m["name"] for n in names):
            continue
        copy = tempfile.mkdtemp(prefix="gbself.")
        try:
            subprocess.run(f"git -C /repo archive HEAD | tar -x -C {copy}", shell=True, check=True)
            path = os.path.join(copy, m["file"])
            src = open(path).read()
            if src.count(m["old"]) != 1:
                results[m["name"]] = {"status": f"anchor matched {src.count(m['old'])} times"}
                print(m["name"], "-> ANCHOR PROBLEM")
                continue
            open(path, "w").write(src.replace(m["old"], m["new"]))
            res = {"kill": {}, "silent": {}}
            env = dict(os.environ, GBVERIF_REPO=copy, PYTHONPATH=copy, GBVERIF_EVIDENCE_DIR=os.path.join(copy, ".evidence"))
            for kind in ("kill", "silent"):
                for prop in m[kind]:
                    p = subprocess.run([os.path.join(VERIF, "bin", "vcheck"), prop, "--tier", "quick"], env=env, capture_output=True, text=True)
                    res[kind][prop] = p.returncode
            ok = all(v == 1 for v in res["kill"].values()) and all(v == 0 for v in res["silent"].values())
            res["ok"] = ok
            res["note"] = m.get("note", "")
            results[m["name"]] = res
            print(m["name"], "->", "OK" if ok else "MISMATCH", res["kill"], res["silent"])
        finally:
            shutil.rmtree(copy, ignore_errors=True)
        json.dump(results, open(out_path, "w"), indent=1)


if __name__ == "__main__":
    run(sys.argv[1:])

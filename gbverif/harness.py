"""Symbolic inputs, query decision, model extraction."""
import os
import time
from fractions import Fraction
import numpy as real_np
import z3
from .values import (SF, MIN_INT, MAX_INT, is_sym, to_z3_bool, conc_bool, b_and, b_or, b_not, zb, ite, same, isnan)
from .symarray import A, SymLen
from .runtime import fresh_runtime, current, run_paths

SOLVER_TIMEOUT_MS = int(os.environ.get("GBVERIF_SOLVER_TIMEOUT_MS", "120000"))


def dtype_range(dt):
    dt = real_np.dtype(dt)
    if dt.kind in "mM":
        return MIN_INT, MAX_INT
    if dt.kind == "b":
        return 0, 1
    info = real_np.iinfo(dt)
    return int(info.min), int(info.max)


class Inputs:
    """registry of symbolic input variables, so that a model can be turned back into concrete arrays"""
    def __init__(self, concrete=None):
        self.pre = []
        self.vars = {}          # name -> ("codes"|"float"|"int"|"bool", [z3 vars...], dtype)
        self.concrete = concrete  # dict name -> list of python values (concrete mode) or None
        if concrete is None:
            from .runtime import FC
            FC.current_pre = self.pre      # feasibility checks of raising glue paths use the case's preconditions

    # each creator returns a python list of cells
    def codes(self, name, n, G, allow_null=True):
        if self.concrete is not None:
            return list(self.concrete[name])
        vs = [z3.Int(f"{name}{i}") for i in range(n)]
        lo = -1 if allow_null else 0
        self.pre += [z3.And(v >= lo, v < G) for v in vs]
        self.vars[name] = ("int", vs, "int64")
        return vs

    def ints(self, name, n, lo, hi, dtype="int64"):
        if self.concrete is not None:
            return list(self.concrete[name])
        vs = [z3.Int(f"{name}{i}") for i in range(n)]
        self.pre += [z3.And(v >= lo, v <= hi) for v in vs]
        self.vars[name] = ("int", vs, str(dtype))
        return vs

    def floats(self, name, n, nullable=True, dtype="float64"):
        if self.concrete is not None:
            return list(self.concrete[name])
        out = []
        flat = []
        for i in range(n):
            nan = z3.Bool(f"{name}{i}_nan") if nullable else False
            v = z3.Real(f"{name}{i}")
            out.append(SF(nan, v))
            flat.append((nan, v))
        self.vars[name] = ("float", flat, str(dtype))
        return out

    def bools(self, name, n):
        if self.concrete is not None:
            return list(self.concrete[name])
        vs = [z3.Bool(f"{name}{i}") for i in range(n)]
        self.vars[name] = ("bool", vs, "bool")
        return vs

    def values(self, name, n, dtype, nullable=True, sum_safe=False):
        """cells for a value array of the given dtype class.  sum_safe: 64-bit values are kept below 2^61/n in
        magnitude (plus the null sentinel for temporal data), so that no partial sum leaves the 64-bit range or
        hits the sentinel by arithmetic coincidence - overflow is outside every claim."""
        dt = real_np.dtype(dtype)
        if dt.kind == "f":
            return self.floats(name, n, nullable, dt)
        if dt.kind == "b":
            return self.bools(name, n)
        lo, hi = dtype_range(dt)
        if dt.kind == "i" and dt.itemsize == 8:
            lo = lo + 1          # plain int64 data excludes the library-wide null sentinel
        if dt.kind in "mM" and not nullable:
            lo = lo + 1
        vs = self.ints(name, n, lo, hi, dt)
        if sum_safe and dt.itemsize == 8 and self.concrete is None:
            B = 2**61 // max(n, 1) if sum_safe != "squares" else 2**29
            for v in vs:
                inb = z3.And(v >= (0 if dt.kind == "u" else -B), v <= B)
                if dt.kind in "mM" and nullable:
                    inb = z3.Or(v == MIN_INT, inb)
                self.pre.append(inb)
        return vs

    def scalar_int(self, name, lo, hi):
        if self.concrete is not None:
            return self.concrete[name]
        v = z3.Int(name)
        self.pre.append(z3.And(v >= lo, v <= hi))
        self.vars[name] = ("int", [v], "int64")
        return v

    def scalar_real(self, name):
        if self.concrete is not None:
            return self.concrete[name]
        v = z3.Real(name)
        self.vars[name] = ("real", [v], "float64")
        return v

    # ---- model -> concrete python values
    def eval(self, model, small=False):
        out = {}
        for name, (kind, vs, dt) in self.vars.items():
            if kind == "const":
                out[name] = list(vs)
            elif kind == "int":
                out[name] = [model.eval(v, True).as_long() for v in vs]
            elif kind == "bool":
                out[name] = [bool(z3.is_true(model.eval(v, True))) for v in vs]
            elif kind == "real":
                out[name] = [_frac(model.eval(v, True)) for v in vs]
            else:
                cells = []
                for nan, v in vs:
                    isn = (nan is True) or (nan is not False and z3.is_true(model.eval(nan, True)))
                    cells.append(float("nan") if isn else _frac(model.eval(v, True)))
                out[name] = cells
        for k, (kind, vs, dt) in self.vars.items():
            if len(vs) == 1 and kind in ("int", "real") and not k.endswith("[]"):
                pass
        return out


def _frac(val):
    if z3.is_rational_value(val):
        return Fraction(val.numerator_as_long(), val.denominator_as_long())
    if z3.is_algebraic_value(val):
        return Fraction(val.approx(20).numerator_as_long(), val.approx(20).denominator_as_long())
    return Fraction(0)


def to_float_cells(cells):
    out = []
    for c in cells:
        if isinstance(c, Fraction):
            out.append(float(c))
        else:
            out.append(c)
    return out


class Decision:
    def __init__(self):
        self.verdict = None         # "unsat" | "sat" | "unknown"
        self.which = []             # labels of the violated conditions (sat)
        self.model = None
        self.solver_s = 0.0
        self.obligations = 0
        self.failed_obligations = []   # [(kind, where)]
        self.ob_model = None
        self.witnesses = {}
        self.n_queries = 0


def _solver(pre, timeout_ms=None):
    s = z3.Solver()
    s.set("timeout", timeout_ms or SOLVER_TIMEOUT_MS)
    for p in pre:
        s.add(zb(p) if not is_sym(p) else p)
    return s


def small_int_constraints(inputs, bound=8):
    cs = []
    for name, (kind, vs, dt) in inputs.vars.items():
        if kind == "const":
            continue
        if kind == "float":
            for nan, v in vs:
                cs.append(z3.And(v == z3.ToReal(z3.ToInt(v)), v >= -bound, v <= bound))
        elif kind == "real":
            pass
    return cs


def uf_axioms(exprs):
    """true facts about the uninterpreted squares occurring in exprs: sq(x) >= 0, 0 <= sqi(x) <= 2^58
    (integer inputs of sum-of-squares cases are bounded by 2^29)"""
    seen = set()
    out = []
    stack = [e for e in exprs if is_sym(e)]
    while stack:
        e = stack.pop()
        i = e.get_id()
        if i in seen:
            continue
        seen.add(i)
        if z3.is_app(e):
            n = e.decl().name()
            if e.decl().kind() == z3.Z3_OP_UNINTERPRETED and e.num_args() == 1:
                if n == "sq":
                    out.append(e >= 0)
                elif n == "sqi":
                    out.append(z3.And(e >= 0, e <= 2**58))
            elif e.decl().kind() == z3.Z3_OP_UNINTERPRETED and e.num_args() == 2 and n == "div":
                # the uninterpreted quotient agrees with real division for the small integer divisors that counts can take
                a_, b_ = e.arg(0), e.arg(1)
                if z3.is_rational_value(b_):
                    if not z3.is_true(z3.simplify(b_ == 0)):
                        out.append(e == a_ / b_)
                else:
                    for k in range(1, 9):
                        out.append(z3.Implies(b_ == k, e == a_ / z3.RealVal(k)))
            stack.extend(e.children())
    return out


CROSS = {"checked": 0, "agree": 0, "cvc5_unknown": 0, "disagree": []}


def cvc5_check(smt2_text, timeout_ms=20_000):
    """re-decide a query exported by z3 with cvc5 (independent solver); returns 'sat' / 'unsat' / 'unknown' / 'error: ...'"""
    try:
        import cvc5
        slv = cvc5.Solver()
        slv.setOption("tlimit-per", str(timeout_ms))
        slv.setLogic("ALL")
        p = cvc5.InputParser(slv)
        p.setStringInput(cvc5.InputLanguage.SMT_LIB_2_6, smt2_text, "query")
        sm = p.getSymbolManager()
        out = "unknown"
        while True:
            c = p.nextCommand()
            if c.isNull():
                break
            r = c.invoke(slv, sm)
            r = str(r).strip() if r is not None else ""
            if r in ("sat", "unsat", "unknown"):
                out = r
            elif "error" in r.lower():
                return "error: " + r[:200]
        return out
    except Exception as e:      # noqa: BLE001
        return f"error: {type(e).__name__}: {str(e)[:200]}"


def _cross_check(solver, z3_result):
    import os
    rate = int(os.environ.get("GBVERIF_CVC5_EVERY", "0"))
    if rate <= 0:
        return
    if "seen" not in CROSS:
        CROSS["seen"] = os.getpid() % rate          # stagger the sampled positions across worker processes
    CROSS["seen"] += 1
    if CROSS["seen"] % rate:
        return
    r = cvc5_check(solver.to_smt2())
    CROSS["checked"] += 1
    if r == z3_result:
        CROSS["agree"] += 1
    elif r == "unknown" or r.startswith("error"):
        CROSS["cvc5_unknown"] += 1
    else:
        CROSS["disagree"].append({"z3": z3_result, "cvc5": r})


def decide(inputs, bads, rt=None, extra_pre=(), witnesses=(), check_obligations=True, timeout_ms=None,
           prefer_small=True):
    """bads: list of (label, condition-that-means-violation).  Returns Decision."""
    rt = rt or current()
    d = Decision()
    pre = list(inputs.pre) + list(rt.pre) + list(extra_pre)
    pre += uf_axioms([b for _, b in bads] + [x for ob in rt.obligations for x in (ob[1], ob[2])])
    t0 = time.time()
    # ---- side obligations, one disjunction
    obs = rt.obligations if check_obligations else []
    d.obligations = len(obs)
    viol = []
    for kind, g, c, where in obs:
        cg = conc_bool(g)
        cc = conc_bool(c)
        if cg is False or cc is True:
            continue
        viol.append((kind, where, b_and(g, b_not(c))))
    if viol:
        s = _solver(pre, timeout_ms)
        s.add(z3.Or(*[zb(v) for _, _, v in viol]))
        d.n_queries += 1
        r = str(s.check())
        if r == "sat":
            m = s.model()
            d.ob_model = inputs.eval(m)
            for kind, where, v in viol:
                if conc_bool(v) is True or z3.is_true(m.eval(zb(v), True)):
                    d.failed_obligations.append((kind, where))
        elif r != "unsat":
            d.verdict = "unknown"
            d.solver_s = time.time() - t0
            return d
    # ---- the property
    live = [(lab, b) for lab, b in bads if conc_bool(b) is not False]
    if not live:
        d.verdict = "unsat"
    else:
        s = _solver(pre, timeout_ms)
        s.add(z3.Or(*[zb(b) for _, b in live]))
        d.n_queries += 1
        r = str(s.check())
        if r in ("sat", "unsat"):
            _cross_check(s, r)
        if r == "sat":
            m = s.model()
            if prefer_small:
                s2 = _solver(pre, timeout_ms or 30_000)
                s2.add(z3.Or(*[zb(b) for _, b in live]))
                s2.add(*small_int_constraints(inputs))
                d.n_queries += 1
                if str(s2.check()) == "sat":
                    m = s2.model()
            d.verdict = "sat"
            d.model = inputs.eval(m)
            d.which = [lab for lab, b in live if conc_bool(b) is True or z3.is_true(m.eval(zb(b), True))]
        elif r == "unsat":
            d.verdict = "unsat"
        else:
            # fallback: the disjunction was too hard as one query - decide the violation conditions one by one
            d.verdict = "unsat"
            for lab, b in live:
                s1 = _solver(pre, timeout_ms or SOLVER_TIMEOUT_MS)
                s1.add(zb(b))
                d.n_queries += 1
                r1 = str(s1.check())
                if r1 == "sat":
                    m = s1.model()
                    d.verdict = "sat"
                    d.model = inputs.eval(m)
                    d.which = [lab]
                    break
                if r1 != "unsat":
                    d.verdict = "unknown"
                    break
    # ---- coverage witnesses (reachability of the interesting situations)
    for lab, cond in witnesses:
        cb = conc_bool(cond)
        if cb is not None:
            d.witnesses[lab] = cb
            continue
        s = _solver(pre, 20_000)
        s.add(cond)
        d.n_queries += 1
        d.witnesses[lab] = str(s.check()) == "sat"
    d.solver_s = time.time() - t0
    return d


def solve_exists(pre, cond, timeout_ms=20_000):
    s = _solver(pre, timeout_ms)
    s.add(zb(cond))
    r = str(s.check())
    return r, (s.model() if r == "sat" else None)


def result_cells(x):
    """flatten a kernel result into (cells, symbolic_length or None)"""
    if isinstance(x, SymLen):
        return x.arr.cells, x.n
    if isinstance(x, A):
        return x.cells, None
    if isinstance(x, real_np.ndarray):
        return [v.item() for v in x.flat], None
    return [x], None


def jsonable(x):
    if isinstance(x, Fraction):
        return float(x) if x.denominator != 1 else int(x)
    if isinstance(x, float):
        return None if x != x else x
    if isinstance(x, (list, tuple)):
        return [jsonable(y) for y in x]
    if isinstance(x, dict):
        return {str(k): jsonable(v) for k, v in x.items()}
    if isinstance(x, (real_np.integer,)):
        return int(x)
    if isinstance(x, (real_np.floating,)):
        return jsonable(float(x))
    if isinstance(x, real_np.ndarray):
        return jsonable(x.tolist())
    if isinstance(x, (int, str, bool)) or x is None:
        return x
    return str(x)

"""Orchestration: run the cases of one property on a process pool, replay counterexamples on the real
(numba-compiled) code, apply the known-findings file, write evidence, set the exit code."""
import argparse
import importlib
import json
import multiprocessing as mp
import os
import random
import shutil
import signal
import subprocess
import sys
import tempfile
import time
import traceback

VERIF = os.path.dirname(os.path.dirname(os.path.abspath(__file__)))
CASE_WALL_S = int(os.environ.get("GBVERIF_CASE_WALL_S", "900"))

_E = None


def engine():
    global _E
    if _E is None:
        from .shadow import Engine
        _E = Engine()
    return _E


class CaseTimeout(Exception):
    pass


def _alarm(signum, frame):
    raise CaseTimeout()


_EXECUTED = set()
_MON = {"on": False}


def _start_monitor():
    """measured, not declared: every function of /repo's sources that actually ran in this worker (natively on symbolic arrays,
    or as the if-converted form of a kernel) is recorded through sys.monitoring and listed in the evidence file"""
    if _MON["on"] or not hasattr(sys, "monitoring"):
        return
    mon = sys.monitoring
    root = os.environ.get("GBVERIF_REPO", "/repo").rstrip("/") + "/"
    try:
        mon.use_tool_id(mon.PROFILER_ID, "gbverif")
    except ValueError:
        return

    def on_start(code, offset):
        fn = code.co_filename
        if fn.startswith("<ifconv "):
            fn = fn[len("<ifconv "):].split(":")[0]
        if fn.startswith(root):
            fn = fn[len(root):]
        if fn.startswith("groupby_lib/") and not code.co_qualname.endswith(("<module>", "<lambda>", "<listcomp>", "<genexpr>")):
            _EXECUTED.add(f"{fn}:{code.co_qualname}")
        return mon.DISABLE
    mon.register_callback(mon.PROFILER_ID, mon.events.PY_START, on_start)
    mon.set_events(mon.PROFILER_ID, mon.events.PY_START)
    _MON["on"] = True


def _worker(args):
    prop, case = args
    _start_monitor()
    from .values import Unsupported, OutsideModel
    from .shadow import MissingAnchor
    mod = importlib.import_module(f"gbverif.props.{prop.lower()}")
    t0 = time.time()
    res = {"name": case.get("name", "?"), "verdict": "error", "detail": "", "solver_s": 0.0, "n_queries": 0,
           "obligations": 0, "failed_obligations": [], "witnesses": {}, "violations": []}
    signal.signal(signal.SIGALRM, _alarm)
    signal.alarm(CASE_WALL_S)
    if os.environ.get("GBVERIF_TRACE"):
        with open(os.environ["GBVERIF_TRACE"] + f".{os.getpid()}", "a") as f:
            f.write(f"{time.time():.1f} START {res['name']}\n")
    try:
        fresh = _E is None
        E = engine()
        if fresh and _MON["on"]:
            _EXECUTED.clear()                       # import-time execution of the sources (decorators, class bodies) does not count
            sys.monitoring.restart_events()
        r = mod.run_case(E, case)
        res.update(r)
    except CaseTimeout:
        res["verdict"] = "unknown"
        res["detail"] = f"case wall-clock limit {CASE_WALL_S}s"
    except (Unsupported, OutsideModel, MissingAnchor) as e:
        res["verdict"] = "inconclusive"
        res["detail"] = f"{type(e).__name__}: {e}"
    except Exception as e:      # noqa: BLE001
        res["verdict"] = "error"
        res["detail"] = f"{type(e).__name__}: {e}\n" + traceback.format_exc()[-1500:]
    finally:
        signal.alarm(0)
    res["wall_s"] = round(time.time() - t0, 3)
    res["executed"] = sorted(_EXECUTED)
    try:
        from .harness import CROSS
        res["cross"] = {"checked": CROSS["checked"], "agree": CROSS["agree"], "cvc5_unknown": CROSS["cvc5_unknown"], "disagree": list(CROSS["disagree"])}
        CROSS.update({"checked": 0, "agree": 0, "cvc5_unknown": 0, "disagree": []})
    except Exception:      # noqa: BLE001
        pass
    return res


def load_known(prop):
    p = os.path.join(VERIF, "known_findings.json")
    if not os.path.exists(p):
        return []
    data = json.load(open(p))
    return [f for f in data.get("findings", []) if f.get("property") == prop and f.get("status", "open") == "open"]


def main(argv=None):
    ap = argparse.ArgumentParser()
    ap.add_argument("prop")
    ap.add_argument("--tier", default=os.environ.get("VERIF_TIER", "quick"))
    ap.add_argument("--jobs", type=int, default=int(os.environ.get("GBVERIF_JOBS", "0")))
    ap.add_argument("--only", default=None, help="substring filter on case names (debugging)")
    ap.add_argument("--no-validate", action="store_true")
    ap.add_argument("--list", action="store_true")
    a = ap.parse_args(argv)
    prop = a.prop.upper()
    seed = int(os.environ.get("VERIF_SEED", "0"))
    tier = a.tier if a.tier in ("quick", "thorough") else "quick"
    t_start = time.time()
    if tier == "thorough":
        os.environ.setdefault("GBVERIF_CVC5_EVERY", "25")      # every 25th decided query is re-decided by cvc5
    mod = importlib.import_module(f"gbverif.props.{prop.lower()}")
    cases = mod.cases(tier, seed)
    if a.only:
        cases = [c for c in cases if a.only in c["name"]]
    if a.list:
        for c in cases:
            print(c["name"])
        return 0
    rnd = random.Random(seed)
    rnd.shuffle(cases)
    jobs = a.jobs or min(16, os.cpu_count() or 4)
    results = []
    # The real (threaded, numba-compiled) library is never imported in this process or its forked workers:
    # translator validation and counterexample replays run in fresh subprocesses (gbverif.replay).
    tv = {"cases": 0, "mismatches": []}
    harness_error = None
    tmpdir = tempfile.mkdtemp(prefix="gbverif_")
    tv_proc = None
    tv_out = os.path.join(tmpdir, "tv.json")
    if not a.no_validate and hasattr(mod, "validate"):
        tv_proc = subprocess.Popen([sys.executable, "-m", "gbverif.replay", "--validate", prop, str(seed), tier, tv_out],
                                   stdout=subprocess.DEVNULL, stderr=subprocess.DEVNULL,
                                   env=dict(os.environ, NUMBA_CACHE_DIR=os.path.join(tmpdir, "nb_tv")))
    ctx = mp.get_context("fork")
    with ctx.Pool(jobs) as pool:
        for r in pool.imap_unordered(_worker, [(prop, c) for c in cases], chunksize=1):
            results.append(r)
    # ---- a solver timeout under load is not a verdict: cases that ended "unknown" are decided once more, a quarter of the workers at a time
    again = [i for i, r in enumerate(results) if r["verdict"] == "unknown"]
    if again and len(again) <= 40:
        by_name = {c.get("name"): c for c in cases}
        todo = [(i, by_name.get(results[i]["name"])) for i in again]
        todo = [(i, c) for i, c in todo if c is not None]
        with ctx.Pool(max(1, jobs // 4)) as pool:
            for (i, _c), r in zip(todo, pool.map(_worker, [(prop, c) for _i, c in todo], chunksize=1)):
                r["retried_after_unknown"] = True
                results[i] = r
    # ---- replay candidates, grouped by signature (at most 3 tries per signature)
    by_sig = {}
    for r in results:
        for c in r.get("candidates", []):
            by_sig.setdefault(c["signature"], []).append((r, c))
    batch = []
    for sig, lst in sorted(by_sig.items()):
        for r, c in lst[:3]:
            batch.append((sig, r, c))
    replayed = [None] * len(batch)

    def run_batch(idxs, extra_env, tag):
        nonlocal harness_error
        if not idxs:
            return
        bin_ = os.path.join(tmpdir, f"batch_{tag}.json")
        bout = os.path.join(tmpdir, f"batch_{tag}_out.json")
        json.dump({"prop": prop, "candidates": [batch[i][2] for i in idxs]}, open(bin_, "w"), default=str)
        try:
            subprocess.run([sys.executable, "-m", "gbverif.replay", "--batch", bin_, bout], timeout=3600,
                           stdout=subprocess.DEVNULL, stderr=subprocess.DEVNULL,
                           env=dict(os.environ, NUMBA_CACHE_DIR=os.path.join(tmpdir, "nb_" + tag), **extra_env))
            outs = json.load(open(bout))
        except Exception as e:      # noqa: BLE001
            harness_error = (harness_error or "") + f" replay subprocess failed: {type(e).__name__}: {e}"
            outs = [{"violates": False, "detail": "replay subprocess failed"}] * len(idxs)
        for i, o in zip(idxs, outs):
            replayed[i] = o
    # out-of-bounds accesses are undefined behaviour in compiled numba code (no bounds checks): those candidates are
    # replayed on the same real source under CPython (the kernels' own py_func), where the access raises IndexError
    is_bounds = [c.get("kind") == "obligation" and any(str(l).startswith("bounds") for l in c.get("labels", [])) for _, _, c in batch]
    run_batch([i for i, b in enumerate(is_bounds) if not b], {}, "replay")
    run_batch([i for i, b in enumerate(is_bounds) if b], {"GBVERIF_PYFUNC": "1"}, "boundscheck")
    replayed = [r or {"violates": False, "detail": "not replayed"} for r in replayed]
    known = load_known(prop)
    violations = []
    known_hits = {}
    not_reproduced = []
    confirmed = {}
    for (sig, r, c), rep in zip(batch, replayed):
        if rep.get("violates") and sig not in confirmed:
            confirmed[sig] = (r, c, rep)
    for sig in sorted(by_sig):
        if sig in confirmed:
            r, c, rep = confirmed[sig]
            hit = next((k for k in known if k["signature"] == sig), None)
            if hit is not None:
                known_hits[sig] = hit
            else:
                violations.append((r, dict(c, detail=rep.get("detail"))))
        else:
            reps = [rep for (s2, _, _), rep in zip(batch, replayed) if s2 == sig]
            not_reproduced.append((sig, by_sig[sig][0][1], reps[:1]))
    if tv_proc is not None:
        try:
            tv_proc.wait(timeout=3600)
            tv = json.load(open(tv_out))
            if "error" in tv:
                harness_error = (harness_error or "") + " " + tv["error"]
        except Exception as e:      # noqa: BLE001
            harness_error = (harness_error or "") + f" translator validation failed: {type(e).__name__}: {e}"
    shutil.rmtree(tmpdir, ignore_errors=True)
    inconclusive = [r for r in results if r["verdict"] in ("unknown", "inconclusive", "error")]
    cross = {"checked": 0, "agree": 0, "cvc5_unknown": 0, "disagree": []}
    for r in results:
        c = r.get("cross") or {}
        for k in ("checked", "agree", "cvc5_unknown"):
            cross[k] += c.get(k, 0)
        cross["disagree"] += [dict(d_, query=r["name"]) for d_ in c.get("disagree", [])]
    if cross["disagree"]:
        harness_error = (harness_error or "") + f" z3 and cvc5 disagree on {len(cross['disagree'])} queries: {cross['disagree'][:3]}"
    exit_code = 0
    for sig, k in sorted(known_hits.items()):
        print(f"KNOWN-FINDING: property={prop} {k.get('what', sig)}")
    if violations:
        rdir = os.path.join(os.environ["GBVERIF_EVIDENCE_DIR"], "replays") if os.environ.get("GBVERIF_EVIDENCE_DIR") else os.path.join(VERIF, "replays")
        os.makedirs(rdir, exist_ok=True)
        for i, (r, v) in enumerate(violations):
            path = os.path.join(rdir, f"{prop}_{i + 1:03d}.json")
            with open(path, "w") as f:
                json.dump({"property": prop, "case": v.get("case"), "inputs": v.get("inputs"), "signature": v["signature"],
                           "kind": v.get("kind"), "labels": v.get("labels"), "detail": v.get("detail"), "query": r["name"]},
                          f, indent=1, default=str)
            print(f"VIOLATION property={prop} replay={path}")
            print(f"  signature: {v['signature']}\n  query: {r['name']}\n  labels: {v.get('labels')}\n  what: {str(v.get('detail'))[:500]}")
        exit_code = 1
    if not_reproduced:
        harness_error = (harness_error or "") + " solver counterexamples that did not reproduce on the real code: " + \
            "; ".join(f"{sig} labels={c.get('labels')} inputs={json.dumps(c.get('inputs'), default=str)[:300]} replay={json.dumps(reps, default=str)[:400]}"
                      for sig, c, reps in not_reproduced[:5])
    if tv.get("mismatches"):
        harness_error = (harness_error or "") + f" translator validation mismatches: {tv['mismatches'][:3]}"
    if inconclusive or harness_error:
        if exit_code == 0:
            exit_code = 2
        for r in inconclusive[:10]:
            print(f"INCONCLUSIVE {r['name']}: {r['verdict']} {r['detail'][:800]}")
        if harness_error:
            print("HARNESS-ERROR", harness_error)
    write_evidence(prop, tier, seed, mod, results, tv, time.time() - t_start, len(violations), known_hits, cross)
    slow = sorted(results, key=lambda r: -r.get("wall_s", 0))[:3]
    print("slowest cases: " + "; ".join(f"{r.get('wall_s', 0):.1f}s {r['name'][:90]}" for r in slow))
    n_unsat = sum(1 for r in results if r["verdict"] == "unsat")
    print(f"{prop} tier={tier}: {len(results)} cases, {n_unsat} hold, {len(violations)} violations, "
          f"{len(known_hits)} known findings, {len(inconclusive)} inconclusive, "
          f"{sum(r.get('n_queries', 0) for r in results)} solver queries, {time.time() - t_start:.1f}s")
    return exit_code


def write_evidence(prop, tier, seed, mod, results, tv, wall, n_viol, known_hits, cross=None):
    from .harness import jsonable
    E = engine()
    meta = getattr(mod, "META", {})
    encoded = set()
    for r in results:
        encoded.update(r.get("encoded", []))
    encoded.update(E.encoded)
    encoded.update(meta.get("glue", []))          # functions executed natively (real source, symbolic arrays)
    funcs = {}
    for q in sorted(encoded):
        try:
            funcs[q] = E.hash_of(q)
        except Exception:      # noqa: BLE001
            funcs[q] = None
    wit = {}
    for r in results:
        for k, v in r.get("witnesses", {}).items():
            wit[k] = wit.get(k, False) or bool(v)
    n_queries = sum(r.get("n_queries", 0) for r in results)
    samples = []
    for r in sorted(results, key=lambda r: r["name"])[:: max(1, len(results) // 6)][:8]:
        samples.append({"query": r["name"], "verdict": r["verdict"], "solver_s": round(r.get("solver_s", 0), 3),
                        "obligations": r.get("obligations", 0), "reachability_model": r.get("reach_model"),
                        "witnesses": r.get("witnesses", {})})
    ob_total = sum(r.get("obligations", 0) for r in results)
    ob_failed = sum(len(r.get("failed_obligations", [])) for r in results)
    ev = {
        "property_id": prop, "tier": tier, "seed": seed, "level": "model_checking", "wall_s": round(wall, 2),
        "violations": n_viol,
        "coverage": {
            "evaluations": max(n_queries, 1),
            "distinct_nontrivial": len({r["name"] for r in results if r.get("n_queries", 0) > 0 and r["verdict"] in ("unsat", "sat")}),
            "rule": "one evaluation = one SMT query decided by z3 over all values of the symbolic inputs within the bounds; a case (one "
                    "configuration: function, dtype, mask kind, split, ...) is counted as distinct and non-trivial when it has a distinct "
                    "name and the solver had to decide at least one query with symbolic inputs for it (cases whose assertion folded to a "
                    "constant are not counted); 'witnesses' lists the named situations shown satisfiable under the preconditions",
            "coverage_witnesses_sat": sum(1 for v in wit.values() if v),
            "samples": samples or [{"note": "no cases"}],
            "exhaustive": False,
            "cases": len(results),
            "cases_hold": sum(1 for r in results if r["verdict"] == "unsat"),
            "cases_violated": sum(1 for r in results if r["verdict"] == "sat"),
            "cases_decided_on_a_second_attempt_after_a_solver_timeout": sum(1 for r in results if r.get("retried_after_unknown") and r["verdict"] != "unknown"),
            "cases_inconclusive": sum(1 for r in results if r["verdict"] in ("unknown", "inconclusive", "error")),
            "witnesses": {k: bool(v) for k, v in sorted(wit.items())},
            "functions_encoded": funcs,
            "repo_functions_executed_during_this_run": sorted({x for r in results for x in r.get("executed", [])}),
            "bounds": meta.get("bounds", {}).get(tier, {}),
            "enumerated": meta.get("enumerated", []),
            "symbolic": meta.get("symbolic", []),
            "side_obligations": {"total": ob_total, "failed": ob_failed},
            "solver": "z3 " + __import__("z3").get_version_string(),
            "solver_time_s": round(sum(r.get("solver_s", 0) for r in results), 2),
            "symbolic_execution_time_s": round(sum(r.get("symex_s", 0) for r in results), 2),
            "cross_checked_cvc5": {k: (v if k != "disagree" else len(v)) for k, v in (cross or {}).items()},
            "translator_validation_cases": tv.get("cases", 0),
            "translator_validation_mismatches": len(tv.get("mismatches", [])),
            "known_findings_hit": sorted(known_hits),
            "outside_claim": meta.get("outside", []),
        },
        "assumptions": meta.get("assumptions", []),
    }
    evdir = os.environ.get("GBVERIF_EVIDENCE_DIR") or os.path.join(VERIF, "evidence")
    os.makedirs(evdir, exist_ok=True)
    with open(os.path.join(evdir, f"{prop}.json"), "w") as f:
        json.dump(jsonable(ev), f, indent=1)


if __name__ == "__main__":
    sys.exit(main())
